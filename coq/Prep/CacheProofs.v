(** C08, layer 2 — proofs about the cache model (Cache.v).
    Part A: every server-side name PGCAT_g denotes ONE statement, for all histories.
    Part B: under the computable guard of Cache.v and hash-collision-freeness, the model refines a
    direct connection (invariant: server cache = backend statement table, client map = the
    specification's table, nothing a batch needs is evicted before the batch is sent). *)
From Coq Require Import Arith List Bool Lia.
From PV Require Import Prep.Cache.
Import ListNotations.


Ltac csplit := match goal with |- _ /\ _ => split end.
Ltac csplits := repeat csplit.

(** * Association lists and LRU lists *)

Lemma mem_In x l : mem x l = true <-> In x l.
Proof.
  unfold mem. rewrite existsb_exists. split.
  - intros [y [H1 H2]]. apply Nat.eqb_eq in H2. subst. exact H1.
  - intros H. exists x. split; [exact H | apply Nat.eqb_refl].
Qed.

Lemma mem_false x l : mem x l = false <-> ~ In x l.
Proof. rewrite <- mem_In. destruct (mem x l); split; intros; try discriminate; auto. exfalso; auto. Qed.

Lemma remove_nat_In x y l : In y (remove_nat x l) <-> In y l /\ y <> x.
Proof.
  induction l as [|z l IH]; cbn; [tauto|].
  destruct (x =? z) eqn:E.
  - apply Nat.eqb_eq in E. subst. rewrite IH. split; [tauto|]. intros [[H|H] Hn]; [congruence | tauto].
  - apply Nat.eqb_neq in E. cbn. rewrite IH. split; [|tauto]. intros [H|H]; [subst; split; auto | tauto].
Qed.

Lemma remove_nat_notin x l : ~ In x l -> remove_nat x l = l.
Proof.
  induction l as [|z l IH]; cbn; auto. intros H.
  destruct (x =? z) eqn:E; [apply Nat.eqb_eq in E; subst; exfalso; apply H; auto|].
  f_equal. apply IH. tauto.
Qed.

Lemma remove_nat_app x a b : remove_nat x (a ++ b) = remove_nat x a ++ remove_nat x b.
Proof. induction a as [|z a IH]; cbn; auto. destruct (x =? z); cbn; rewrite IH; reflexivity. Qed.

Lemma remove_nat_NoDup x l : NoDup l -> NoDup (remove_nat x l).
Proof.
  induction 1 as [|z l Hn Hd IH]; cbn; [constructor|].
  destruct (x =? z); auto. constructor; auto. rewrite remove_nat_In. tauto.
Qed.

Lemma remove_nat_length x l : length (remove_nat x l) <= length l.
Proof. induction l as [|z l IH]; cbn; auto. destruct (x =? z); cbn; lia. Qed.

Lemma alookup_ainsert_eq {B} k (v : B) l : alookup k (ainsert k v l) = Some v.
Proof. unfold ainsert. cbn. rewrite Nat.eqb_refl. reflexivity. Qed.

Lemma alookup_aremove_eq {B} k (l : list (nat * B)) : alookup k (aremove k l) = None.
Proof. induction l as [|[k' v] l IH]; cbn; auto. destruct (k =? k') eqn:E; auto. cbn. rewrite E. exact IH. Qed.

Lemma alookup_aremove_neq {B} k k' (l : list (nat * B)) : k <> k' -> alookup k (aremove k' l) = alookup k l.
Proof.
  intros Hn. induction l as [|[k2 v] l IH]; cbn; auto.
  destruct (k' =? k2) eqn:E.
  - apply Nat.eqb_eq in E. subst. destruct (k =? k2) eqn:E2; [apply Nat.eqb_eq in E2; congruence | exact IH].
  - cbn. destruct (k =? k2); auto.
Qed.

Lemma alookup_ainsert_neq {B} k k' (v : B) l : k <> k' -> alookup k (ainsert k' v l) = alookup k l.
Proof.
  intros Hn. unfold ainsert. cbn. destruct (k =? k') eqn:E; [apply Nat.eqb_eq in E; congruence|].
  apply alookup_aremove_neq. exact Hn.
Qed.

Lemma alookup_In {B} k (v : B) l : alookup k l = Some v -> In (k, v) l.
Proof.
  induction l as [|[k' v'] l IH]; cbn; [discriminate|].
  destruct (k =? k') eqn:E; [apply Nat.eqb_eq in E; intros H; inversion H; subst; auto | auto].
Qed.

Lemma aremove_In {B} k k' (v : B) l : In (k, v) (aremove k' l) -> In (k, v) l.
Proof.
  induction l as [|[k2 v2] l IH]; cbn; auto. destruct (k' =? k2); cbn; intros H; [auto | destruct H; auto].
Qed.

Lemma ainsert_In {B} k k' (v v' : B) l : In (k, v) (ainsert k' v' l) -> (k = k' /\ v = v') \/ In (k, v) l.
Proof. unfold ainsert. cbn. intros [H|H]; [inversion H; auto | right; eapply aremove_In; eauto]. Qed.

(** * Part A — every name PGCAT_g denotes ONE statement, for all histories (no guard) *)

Definition gd_ok (gd : list nat) (g st : nat) : Prop := nth_error gd g = Some st.
Definition map_ok (gd : list nat) (m : list (nat * (nat * nat))) : Prop := forall n g st, In (n, (g, st)) m -> gd_ok gd g st.
Definition item_ok (gd : list nat) (it : item) : Prop :=
  match it with IParse g st | IBind g st _ _ | IDesc g st _ => gd_ok gd g st | _ => True end.
Definition tab_ok (gd : list nat) (t : list (nat * nat)) : Prop := forall g st, In (g, st) t -> gd_ok gd g st.
Definition pool_ok (K : cfg) (gd : list nat) (pl : list (nat * (nat * nat))) : Prop :=
  forall h g st, In (h, (g, st)) pl -> gd_ok gd g st /\ h = hash K st.
Definition msg_ok (gd : list nat) (m : bmsg) : Prop := match m with BParse g st => gd_ok gd g st | _ => True end.

Definition WInv (K : cfg) (w : world) : Prop :=
  pool_ok K (gdef w) (plru w) /\
  (forall c, map_ok (gdef w) (cmap (clients w c)) /\ Forall (item_ok (gdef w)) (cbuf (clients w c))) /\
  (forall s, tab_ok (gdef w) (btab (servers w s))).

Lemma gd_ok_ext gd x g st : gd_ok gd g st -> gd_ok (gd ++ [x]) g st.
Proof. unfold gd_ok. intros H. rewrite nth_error_app1; auto. apply nth_error_Some. congruence. Qed.

Lemma gd_ok_new gd st : gd_ok (gd ++ [st]) (length gd) st.
Proof. unfold gd_ok. rewrite nth_error_app2 by lia. rewrite Nat.sub_diag. reflexivity. Qed.

Lemma bstep_tab_ok K gd b m : tab_ok gd (b_tab b) -> msg_ok gd m -> tab_ok gd (b_tab (fst (bstep K b m))).
Proof.
  intros Ht Hm. unfold bstep.
  destruct m; cbn; try (destruct (b_skip b); cbn; auto; fail).
  - destruct (b_skip b); cbn; auto. destruct (kind K st); cbn; auto;
      destruct (alookup g (b_tab b)); cbn; auto; intros g' st' [H|H]; try (inversion H; subst; exact Hm); auto.
  - destruct (b_skip b); cbn; auto. destruct (alookup g (b_tab b)); cbn; auto.
  - destruct (b_skip b); cbn; auto. destruct (alookup g (b_tab b)); cbn; auto.
  - destruct (b_skip b); cbn; auto. destruct (alookup p (b_portal b)); cbn; auto.
  - destruct (b_skip b); cbn; auto. destruct (alookup p (b_portal b)); cbn; auto. destruct (kind K n); cbn; auto. intros ? ? [].
  - destruct (b_skip b); cbn; auto. intros g' st' H. apply aremove_In in H. auto.
Qed.

Lemma brun_tab_ok K gd ms : forall b, tab_ok gd (b_tab b) -> Forall (msg_ok gd) ms -> tab_ok gd (b_tab (fst (brun K b ms))).
Proof.
  induction ms as [|m r IH]; intros b Ht Hm; cbn; auto.
  inversion Hm; subst.
  pose proof (bstep_tab_ok K gd b m Ht H1) as H.
  destruct (bstep K b m) as [b1 o1]. cbn in H. specialize (IH b1 H H2).
  destruct (brun K b1 r) as [b2 o2]. exact IH.
Qed.

Lemma exchange_tab_ok K gd sv ms : tab_ok gd (btab sv) -> Forall (msg_ok gd) ms -> tab_ok gd (btab (fst (exchange K sv ms))).
Proof.
  intros Ht Hm. unfold exchange.
  pose proof (brun_tab_ok K gd (ms ++ [BSync]) (mkB (btab sv) [] false) Ht) as H.
  assert (Hf : Forall (msg_ok gd) (ms ++ [BSync])) by (apply Forall_app; split; auto; repeat constructor).
  specialize (H Hf). destruct (brun K (mkB (btab sv) [] false) (ms ++ [BSync])) as [b rs].
  destruct (recv K (lru sv) (queue sv) rs) as [l q]. exact H.
Qed.

Lemma register_tab_ok K gd sv g st snd_ : tab_ok gd (btab sv) -> gd_ok gd g st -> tab_ok gd (btab (fst (register K sv g st snd_))).
Proof.
  intros Ht Hg. unfold register. destruct (mem g (lru sv)); cbn; auto.
  destruct (push (cs K) (lru sv) g) as [l ev].
  set (ms := match ev with Some e => [BClose e] | None => [] end ++ (if snd_ then [BParse g st] else [])).
  assert (Hm : Forall (msg_ok gd) ms).
  { subst ms. apply Forall_app. split; [destruct ev; repeat constructor | destruct snd_; repeat constructor; exact Hg]. }
  destruct ms as [|m0 ms0] eqn:E; cbn; auto.
  apply (exchange_tab_ok K gd (mkServer l (if snd_ then [g] else []) (btab sv) (slog sv)) (m0 :: ms0)); auto.
Qed.

Definition acc_ok (K : cfg) (gd : list nat) (a : sacc) : Prop :=
  map_ok gd (a_map a) /\ tab_ok gd (btab (a_sv a)) /\ pool_ok K gd (a_pl a).

Lemma premove_In h h' v l : In (h, v) (premove h' l) -> In (h, v) l.
Proof. induction l as [|[h2 v2] l IH]; cbn; auto. destruct (h' =? h2); cbn; intros H; [auto | destruct H; auto]. Qed.

Lemma ppromote_ok K gd pl h : pool_ok K gd pl -> pool_ok K gd (ppromote pl h).
Proof.
  intros Hp. unfold ppromote. destruct (alookup h pl) as [v|] eqn:E; auto.
  intros h' g st [H|H].
  - inversion H; subst. apply alookup_In in E. apply Hp in E. exact E.
  - apply premove_In in H. auto.
Qed.

Lemma map_ok_aremove gd n m : map_ok gd m -> map_ok gd (aremove n m).
Proof. intros H n' g st Hi. apply aremove_In in Hi. eauto. Qed.

Lemma ensure_ok K gd a n g st : acc_ok K gd a -> gd_ok gd g st ->
  acc_ok K gd (ensure K a n g st) /\ a_fwd (ensure K a n g st) = a_fwd a /\ a_syn (ensure K a n g st) = a_syn a.
Proof.
  intros (Hm & Ht & Hp) Hg. unfold ensure.
  pose proof (register_tab_ok K gd (a_sv a) g st true Ht Hg) as Hr.
  destruct (register K (a_sv a) g st true) as [sv ok]. cbn in *.
  split; [split; [|split] | split; reflexivity]; cbn.
  - destruct ok; auto. destruct (alookup n (a_map a)) as [[g' st']|]; auto. destruct (g' =? g); auto. apply map_ok_aremove. exact Hm.
  - exact Hr.
  - apply ppromote_ok. exact Hp.
Qed.

Lemma sitem_ok K gd a it : acc_ok K gd a -> item_ok gd it -> Forall (msg_ok gd) (a_fwd a) ->
  acc_ok K gd (sitem K a it) /\ Forall (msg_ok gd) (a_fwd (sitem K a it)).
Proof.
  intros Ha Hi Hf. destruct it as [g st|g st n p|g st n|p|p|n|p]; cbn [sitem].
  - destruct (mem g (lru (a_sv a))).
    + cbn. destruct Ha as (? & ? & ?). split; [split; [|split]|]; cbn; auto.
    + destruct Ha as (Hm & Ht & Hp). pose proof (register_tab_ok K gd (a_sv a) g st false Ht Hi) as Hr.
      destruct (register K (a_sv a) g st false) as [sv ok]. cbn in *.
      split; [split; [|split]|]; cbn; auto; [apply ppromote_ok; auto | apply Forall_app; split; auto; repeat constructor; exact Hi].
  - destruct (ensure_ok K gd a n g st Ha Hi) as ((? & ? & ?) & Hfw & ?).
    cbn. split; [split; [|split]|]; cbn; auto. rewrite Hfw. apply Forall_app. split; auto; repeat constructor.
  - destruct (ensure_ok K gd a n g st Ha Hi) as ((? & ? & ?) & Hfw & ?).
    cbn. split; [split; [|split]|]; cbn; auto. rewrite Hfw. apply Forall_app. split; auto; repeat constructor.
  - cbn. destruct Ha as (? & ? & ?). split; [split; [|split]|]; cbn; auto. apply Forall_app. split; auto; repeat constructor.
  - cbn. destruct Ha as (? & ? & ?). split; [split; [|split]|]; cbn; auto. apply Forall_app. split; auto; repeat constructor.
  - destruct Ha as (? & ? & ?). destruct (n =? 0); cbn; (split; [split; [|split]|]); cbn; auto.
    apply Forall_app. split; auto; repeat constructor.
  - cbn. destruct Ha as (? & ? & ?). split; [split; [|split]|]; cbn; auto. apply Forall_app. split; auto; repeat constructor.
Qed.

Lemma sitems_ok K gd its : forall a, acc_ok K gd a -> Forall (item_ok gd) its -> Forall (msg_ok gd) (a_fwd a) ->
  acc_ok K gd (sitems K a its) /\ Forall (msg_ok gd) (a_fwd (sitems K a its)).
Proof.
  unfold sitems. induction its as [|it r IH]; intros a Ha Hi Hf; cbn; auto.
  inversion Hi; subst. destruct (sitem_ok K gd a it Ha H1 Hf) as [Ha1 Hf1]. apply IH; auto.
Qed.

Lemma pool_get_or_insert_ok K w st w' g st' : WInv K w -> pool_get_or_insert K w st = (w', (g, st')) ->
  pool_ok K (gdef w') (plru w') /\ gd_ok (gdef w') g st' /\ hash K st' = hash K st /\
  clients w' = clients w /\ servers w' = servers w /\ (exists x, gdef w' = gdef w ++ x) /\
  (forall g0 st0, gd_ok (gdef w) g0 st0 -> gd_ok (gdef w') g0 st0).
Proof.
  intros (Hp & _ & _) H. unfold pool_get_or_insert in H.
  destruct (alookup (hash K st) (plru w)) as [[g0 st0]|] eqn:E.
  - inversion H; subst. cbn. apply alookup_In in E. destruct (Hp _ _ _ E) as [Hg Hh].
    csplits; auto; [apply ppromote_ok; auto | exists []; rewrite app_nil_r; reflexivity].
  - inversion H; subst. cbn [plru gdef clients servers]. csplits; auto.
    + intros h g0 st0 [Hi|Hi].
      * inversion Hi; subst. split; [apply gd_ok_new | reflexivity].
      * assert (Hin : In (h, (g0, st0)) (plru w)).
        { revert Hi. match goal with |- In _ (if ?b then _ else _) -> _ => destruct b end; auto.
          generalize (plru w). intros l0. induction l0 as [|x l1 IH]; cbn; auto.
          destruct l1; [intros []|]. intros [Hi|Hi]; auto. }
        destruct (Hp _ _ _ Hin). split; auto. apply gd_ok_ext; auto.
    + apply gd_ok_new.
    + eexists; reflexivity.
    + intros. apply gd_ok_ext; auto.
Qed.

Lemma map_ok_mono gd gd' m : (forall g st, gd_ok gd g st -> gd_ok gd' g st) -> map_ok gd m -> map_ok gd' m.
Proof. intros H Hm n g st Hi. eauto. Qed.
Lemma tab_ok_mono gd gd' t : (forall g st, gd_ok gd g st -> gd_ok gd' g st) -> tab_ok gd t -> tab_ok gd' t.
Proof. intros H Hm g st Hi. eauto. Qed.
Lemma items_ok_mono gd gd' its : (forall g st, gd_ok gd g st -> gd_ok gd' g st) -> Forall (item_ok gd) its -> Forall (item_ok gd') its.
Proof. intros H. apply Forall_impl. intros [] Hi; cbn in *; auto. Qed.

Lemma winv0 K : WInv K world0.
Proof.
  unfold WInv. cbn. csplits.
  - intros ? ? ? [].
  - intros c. split; [intros ? ? ? [] | constructor].
  - intros s ? ? [].
Qed.

Lemma upd_same {A} (f : nat -> A) k v : upd f k v k = v.
Proof. unfold upd. rewrite Nat.eqb_refl. reflexivity. Qed.
Lemma upd_other {A} (f : nat -> A) k v x : x <> k -> upd f k v x = f x.
Proof. unfold upd. intros H. destruct (x =? k) eqn:E; auto. apply Nat.eqb_eq in E. congruence. Qed.

Lemma winv_client K w c cl : WInv K w -> map_ok (gdef w) (cmap cl) -> Forall (item_ok (gdef w)) (cbuf cl) -> WInv K (set_client w c cl).
Proof.
  intros (Hp & Hc & Hs) Hm Hi. unfold WInv, set_client. cbn. csplits; auto.
  intros c0. unfold upd. destruct (c0 =? c); auto.
Qed.

Lemma winv_step K w o : WInv K w -> WInv K (fst (step K w o)).
Proof.
  intros HW. pose proof HW as (Hp & Hc & Hs).
  destruct o as [c n st|c p n|c n|c p|c p|c n|c p|c s|s]; cbn.
  - (* Parse *)
    destruct (alive (clients w c)); cbn; auto.
    destruct (pool_get_or_insert K w st) as [w1 [g st']] eqn:E.
    destruct (pool_get_or_insert_ok K w st w1 g st' HW E) as (Hp1 & Hg & _ & Hc1 & Hs1 & _ & Hmono).
    cbn. apply winv_client.
    + unfold WInv. csplits; auto.
      * intros c0. rewrite Hc1. split; [eapply map_ok_mono; eauto; apply Hc | eapply items_ok_mono; eauto; apply Hc].
      * intros s. rewrite Hs1. eapply tab_ok_mono; eauto.
    + cbn. intros n0 g0 st0 Hi. apply ainsert_In in Hi as [[_ Hi]|Hi]; [inversion Hi; subst; auto|].
      apply Hmono. eapply (proj1 (Hc c)); eauto.
    + cbn. apply Forall_app. split; [eapply items_ok_mono; eauto; apply Hc | repeat constructor; exact Hg].
  - (* Bind *)
    destruct (alive (clients w c)); cbn; auto.
    destruct (alookup n (cmap (clients w c))) as [[g st]|] eqn:El; cbn; apply winv_client; cbn; auto; try apply Hc; try constructor.
    apply Forall_app. split; [apply Hc | repeat constructor]. cbn. eapply (proj1 (Hc c)). apply alookup_In. exact El.
  - destruct (alive (clients w c)); cbn; auto.
    destruct (alookup n (cmap (clients w c))) as [[g st]|] eqn:El; cbn; apply winv_client; cbn; auto; try apply Hc; try constructor.
    apply Forall_app. split; [apply Hc | repeat constructor]. cbn. eapply (proj1 (Hc c)). apply alookup_In. exact El.
  - destruct (alive (clients w c)); cbn; auto. apply winv_client; cbn; auto; try apply Hc.
    apply Forall_app. split; [apply Hc | repeat constructor].
  - destruct (alive (clients w c)); cbn; auto. apply winv_client; cbn; auto; try apply Hc.
    apply Forall_app. split; [apply Hc | repeat constructor].
  - destruct (alive (clients w c)); cbn; auto. apply winv_client; cbn; auto.
    + destruct (n =? 0); [apply Hc | apply map_ok_aremove; apply Hc].
    + apply Forall_app. split; [apply Hc | repeat constructor].
  - destruct (alive (clients w c)); cbn; auto. apply winv_client; cbn; auto; try apply Hc.
    apply Forall_app. split; [apply Hc | repeat constructor].
  - (* Sync *)
    destruct (alive (clients w c)); cbn; auto.
    assert (Ha0 : acc_ok K (gdef w) (mkAcc (cmap (clients w c)) (servers w s) (plru w) [] [])) by (unfold acc_ok; cbn; csplits; auto; apply Hc).
    pose proof (sitems_ok K (gdef w) (cbuf (clients w c)) _ Ha0 (proj2 (Hc c)) (Forall_nil _)) as [Ha Hf].
    set (a := sitems K (mkAcc (cmap (clients w c)) (servers w s) (plru w) [] []) (cbuf (clients w c))) in *.
    destruct Ha as (Hm & Ht & Hpl).
    assert (Hgen : forall sv al, tab_ok (gdef w) (btab sv) ->
              WInv K (mkWorld (upd (clients w) c (mkClient (a_map a) [] al)) (upd (servers w) s sv) (a_pl a) (gdef w))).
    { intros sv al Hsv. unfold WInv. cbn. csplits; auto.
      - intros c0. unfold upd. destruct (c0 =? c); cbn; auto; split; try exact Hm; try constructor.
      - intros s0. unfold upd. destruct (s0 =? s); auto. }
    destruct (a_fwd a) as [|m0 f0] eqn:Ef.
    + cbn. apply Hgen. exact Ht.
    + pose proof (exchange_tab_ok K (gdef w) (a_sv a) (m0 :: f0) Ht Hf) as Hx.
      destruct (exchange K (a_sv a) (m0 :: f0)) as [sv rs]. cbn. apply Hgen. exact Hx.
  - (* Cleanup *)
    unfold WInv. cbn. csplits; auto. intros s0. unfold upd. destruct (s0 =? s); cbn; auto. intros ? ? [].
Qed.

Lemma winv_run K ops : forall w, WInv K w -> WInv K (fst (run K w ops)).
Proof.
  induction ops as [|o r IH]; intros w H; cbn; auto.
  pose proof (winv_step K w o H) as H1. destruct (step K w o) as [w1 o1]. cbn in H1.
  specialize (IH w1 H1). destruct (run K w1 r) as [w2 o2]. exact IH.
Qed.

(** every PGCAT name means one statement on every backend, in every client map, in the pool *)
Theorem names_determine_statement : forall K ops w, w = fst (run K world0 ops) ->
  (forall s1 s2 g st1 st2, In (g, st1) (btab (servers w s1)) -> In (g, st2) (btab (servers w s2)) -> st1 = st2) /\
  (forall c s n g st1 st2, In (n, (g, st1)) (cmap (clients w c)) -> In (g, st2) (btab (servers w s)) -> st1 = st2) /\
  (forall c1 c2 n1 n2 g st1 st2, In (n1, (g, st1)) (cmap (clients w c1)) -> In (n2, (g, st2)) (cmap (clients w c2)) -> st1 = st2).
Proof.
  intros K ops w ->. pose proof (winv_run K ops world0 (winv0 K)) as (Hp & Hc & Hs).
  csplits.
  - intros s1 s2 g st1 st2 H1 H2. apply Hs in H1. apply Hs in H2. unfold gd_ok in *. congruence.
  - intros c s n g st1 st2 H1 H2. apply (proj1 (Hc c)) in H1. apply Hs in H2. unfold gd_ok in *. congruence.
  - intros c1 c2 n1 n2 g st1 st2 H1 H2. apply (proj1 (Hc c1)) in H1. apply (proj1 (Hc c2)) in H2. unfold gd_ok in *. congruence.
Qed.


(** * Part B1 — LRU lists as [touched ++ rest] *)

Lemma touch_In l g x : In x (touch l g) <-> In x l.
Proof.
  unfold touch. destruct (mem g l) eqn:E; [|tauto]. apply mem_In in E. cbn. rewrite remove_nat_In.
  split; [intros [H|[H _]]; subst; auto | intros H; destruct (Nat.eq_dec x g); [left; auto | right; auto]].
Qed.

Lemma touch_in l g : In g l -> touch l g = g :: remove_nat g l.
Proof. intros H. unfold touch. apply mem_In in H. rewrite H. reflexivity. Qed.

Lemma touch_notin l g : ~ In g l -> touch l g = l.
Proof. intros H. unfold touch. apply mem_false in H. rewrite H. reflexivity. Qed.

Lemma NoDup_touched l g : NoDup l -> NoDup (g :: remove_nat g l).
Proof. intros H. constructor; [rewrite remove_nat_In; tauto | apply remove_nat_NoDup; exact H]. Qed.

Lemma length_touched l g : NoDup l -> In g l -> length (g :: remove_nat g l) = length l.
Proof.
  induction l as [|z l IH]; cbn; [tauto|]. intros Hnd [H|H].
  - subst. rewrite Nat.eqb_refl. inversion Hnd; subst. rewrite remove_nat_notin by assumption. reflexivity.
  - inversion Hnd; subst. destruct (g =? z) eqn:E; [apply Nat.eqb_eq in E; subst; contradiction|].
    cbn [length]. cbn [length] in IH. rewrite IH by assumption. reflexivity.
Qed.

Lemma touch_head g l : NoDup (g :: l) -> touch (g :: l) g = g :: l.
Proof.
  intros H. inversion H; subst. unfold touch. cbn. rewrite Nat.eqb_refl. cbn. rewrite remove_nat_notin by assumption. reflexivity.
Qed.

Lemma removelast_app_ne {A} (a b : list A) : b <> [] -> removelast (a ++ b) = a ++ removelast b.
Proof. intros H. apply removelast_app. exact H. Qed.

Lemma last_app_ne {A} (a b : list A) d : b <> [] -> last (a ++ b) d = last b d.
Proof.
  intros H. induction a as [|x a IH]; cbn; auto. destruct (a ++ b) eqn:E; [|exact IH].
  apply app_eq_nil in E. destruct E. contradiction.
Qed.

Lemma last_In {A} (l : list A) d : l <> [] -> In (last l d) l.
Proof. induction l as [|x l IH]; [congruence|]. intros _. destruct l; [left; reflexivity|]. right. apply IH. discriminate. Qed.

Lemma removelast_In {A} (l : list A) x : In x (removelast l) -> In x l.
Proof. induction l as [|y l IH]; cbn; auto. destruct l; [intros []|]. intros [H|H]; auto. Qed.

Lemma removelast_last_perm {A} (l : list A) d x : l <> [] -> In x l -> x = last l d \/ In x (removelast l).
Proof.
  induction l as [|y l IH]; [congruence|]. intros _ [H|H].
  - subst. destruct l; [left; reflexivity | right; left; reflexivity].
  - destruct l; [destruct H|]. destruct (IH ltac:(discriminate) H) as [H1|H1]; [left; exact H1 | right; right; exact H1].
Qed.

Lemma NoDup_removelast {A} (l : list A) : NoDup l -> NoDup (removelast l).
Proof.
  induction 1 as [|x l Hn Hd IH]; cbn; [constructor|]. destruct l; [constructor|].
  constructor; auto. intros H. apply Hn. apply removelast_In. exact H.
Qed.

Lemma NoDup_last_notin {A} (l : list A) d : NoDup l -> l <> [] -> ~ In (last l d) (removelast l).
Proof.
  induction 1 as [|x l Hn Hd IH]; [congruence|]. intros _. destruct l as [|a l]; [intros []|].
  change (last (x :: a :: l) d) with (last (a :: l) d). change (removelast (x :: a :: l)) with (x :: removelast (a :: l)).
  intros [H|H].
  - apply Hn. rewrite H. apply last_In. discriminate.
  - apply IH; [discriminate | exact H].
Qed.

Lemma removelast_length {A} (l : list A) : l <> [] -> S (length (removelast l)) = length l.
Proof.
  induction l as [|x l IH]; [congruence|]. intros _. destruct l as [|a l]; [reflexivity|].
  change (removelast (x :: a :: l)) with (x :: removelast (a :: l)). cbn [length]. cbn [length] in IH. rewrite IH by discriminate. reflexivity.
Qed.

(** push of an absent key with room among [rest] *)
Lemma push_decomp cap tl rest g l' ev : NoDup (tl ++ rest) -> ~ In g (tl ++ rest) -> length (tl ++ rest) <= cap -> length tl < cap ->
  push cap (tl ++ rest) g = (l', ev) ->
  exists rest', l' = (g :: tl) ++ rest' /\ NoDup ((g :: tl) ++ rest') /\ length l' <= cap /\
                (forall x, In x rest' -> In x rest) /\
                match ev with
                | None => rest' = rest
                | Some e => In e rest /\ ~ In e l' /\ (forall x, In x rest -> x = e \/ In x rest')
                end.
Proof.
  intros Hnd Hni Hlen Htl Hp. unfold push in Hp. destruct (length (tl ++ rest) <? cap) eqn:E.
  - inversion Hp; subst. exists rest. apply Nat.ltb_lt in E.
    split; [reflexivity|]. split; [cbn; constructor; auto|]. split; [cbn [length]; lia|]. split; [auto | reflexivity].
  - apply Nat.ltb_ge in E. inversion Hp; subst. clear Hp.
    assert (Hr : rest <> []). { intros ->. rewrite app_nil_r in *. lia. }
    exists (removelast rest). rewrite removelast_app_ne, last_app_ne by assumption.
    assert (Hnd' : NoDup (tl ++ removelast rest)).
    { rewrite <- removelast_app_ne by assumption. apply NoDup_removelast. exact Hnd. }
    split; [reflexivity|]. split; [|split; [|split; [|split; [|split]]]].
    + cbn. constructor; auto. intros H. apply Hni. rewrite in_app_iff in *. destruct H as [H|H]; auto. right. apply removelast_In. exact H.
    + cbn [length app]. rewrite app_length in *. pose proof (removelast_length rest Hr). lia.
    + apply removelast_In.
    + apply last_In. exact Hr.
    + cbn. intros [H|H].
      * apply Hni. rewrite H. apply in_app_iff. right. apply last_In. exact Hr.
      * apply in_app_iff in H as [H|H].
        -- assert (Hin : In (last rest 0) rest) by (apply last_In; exact Hr).
           clear - Hnd H Hin. induction tl as [|z tl IH]; [destruct H|]. cbn in Hnd. inversion Hnd as [|? ? Hz Hnd2]; subst.
           destruct H as [H|H]; [subst; apply Hz; apply in_app_iff; right; exact Hin | apply IH; auto].
        -- assert (Hndr : NoDup rest). { clear - Hnd. induction tl; cbn in *; auto. inversion Hnd; auto. }
           eapply NoDup_last_notin; eauto.
    + intros x Hx. apply removelast_last_perm; assumption.
Qed.

(** * Part B2 — the backend on a well-formed batch *)

Definition pname (m : bmsg) : list nat := match m with BParse g _ => [g] | _ => [] end.
Definition pnames (ms : list bmsg) : list nat := flat_map pname ms.
Definition mref (m : bmsg) : list nat := match m with BParse g _ | BBind g _ | BDesc g | BClose g => [g] | _ => [] end.
Definition refs (ms : list bmsg) : list nat := flat_map mref ms.

(* [D]: names the backend knows before the batch; accumulates the batch's own Parses.  Portal
   messages (Describe/Execute/Close of a portal) say nothing about statement names. *)
Fixpoint fwd_good (K : cfg) (gd : list nat) (D : nat -> Prop) (ms : list bmsg) : Prop :=
  match ms with
  | [] => True
  | BParse g st :: r => ~ D g /\ kind K st = Good /\ nth_error gd g = Some st /\ fwd_good K gd (fun x => x = g \/ D x) r
  | BBind g _ :: r => D g /\ fwd_good K gd D r
  | BDesc g :: r => D g /\ fwd_good K gd D r
  | BDescP _ :: r => fwd_good K gd D r
  | BExec _ :: r => fwd_good K gd D r
  | BCloseUnnamed :: r => fwd_good K gd D r
  | BCloseP _ :: r => fwd_good K gd D r
  | BClose _ :: _ => False
  | BSync :: _ => False
  end.

Lemma fwd_good_ext K gd ms : forall D D', (forall g, In g (refs ms) -> (D g <-> D' g)) -> fwd_good K gd D ms -> fwd_good K gd D' ms.
Proof.
  induction ms as [|m r IH]; intros D D' He H; cbn in *; auto.
  destruct m; cbn in *; try tauto; try (eapply IH; eauto; fail).
  - destruct H as (H1 & H2 & H3 & H4). repeat split; auto.
    + rewrite <- He; auto.
    + eapply IH; [|exact H4]. intros x Hx. cbn. rewrite He; [tauto | auto].
  - destruct H as [H1 H2]. split; [rewrite <- He; auto | eapply IH; eauto].
  - destruct H as [H1 H2]. split; [rewrite <- He; auto | eapply IH; eauto].
Qed.

Lemma fwd_good_snoc K gd ms : forall D m, fwd_good K gd D ms ->
  match m with
  | BParse g st => ~ D g /\ ~ In g (pnames ms) /\ kind K st = Good /\ nth_error gd g = Some st
  | BBind g _ | BDesc g => D g \/ In g (pnames ms)
  | BExec _ | BDescP _ | BCloseP _ | BCloseUnnamed => True
  | _ => False
  end -> fwd_good K gd D (ms ++ [m]).
Proof.
  induction ms as [|m0 r IH]; intros D m H Hm; cbn in *.
  - destruct m; cbn; tauto.
  - destruct m0; cbn in *; try tauto; try (apply IH; auto; fail).
    + destruct H as (H1 & H2 & H3 & H4). repeat split; auto. apply IH; auto.
      destruct m; auto; try (unfold pnames in *; destruct Hm as [X|[X|X]]; auto; fail).
      destruct Hm as (A & B & C & E). repeat split; auto. intros [X|X]; [subst; apply B; auto | tauto].
    + destruct H as [H1 H2]. split; auto.
    + destruct H as [H1 H2]. split; auto.
Qed.

(* replies the backend gives to a good batch; [pt] = the open portals (name -> statement) *)
Definition ptabT := list (nat * nat).
Definition prep (mk : nat -> reply) (o : option nat) : reply := match o with Some st => mk st | None => RErr end.
Fixpoint fexp (gd : list nat) (pt : ptabT) (ms : list bmsg) : list reply :=
  match ms with
  | [] => []
  | BParse _ _ :: r => R1 :: fexp gd pt r
  | BBind g p :: r => R2 :: fexp gd (ainsert p (nth g gd 0) pt) r
  | BDesc g :: r => RDescr (nth g gd 0) :: fexp gd pt r
  | BDescP p :: r => prep RDescrP (alookup p pt) :: fexp gd pt r
  | BExec p :: r => prep RRow (alookup p pt) :: fexp gd pt r
  | BCloseUnnamed :: r => R3 :: fexp gd pt r
  | BCloseP p :: r => R3 :: fexp gd (aremove p pt) r
  | _ :: r => fexp gd pt r
  end.
Fixpoint fportal (gd : list nat) (pt : ptabT) (ms : list bmsg) : ptabT :=
  match ms with
  | [] => pt
  | BBind g p :: r => fportal gd (ainsert p (nth g gd 0) pt) r
  | BCloseP p :: r => fportal gd (aremove p pt) r
  | _ :: r => fportal gd pt r
  end.
(* every Execute / Describe('P') of the batch names an open portal *)
Fixpoint fexec_ok (gd : list nat) (pt : ptabT) (ms : list bmsg) : Prop :=
  match ms with
  | [] => True
  | BBind g p :: r => fexec_ok gd (ainsert p (nth g gd 0) pt) r
  | BCloseP p :: r => fexec_ok gd (aremove p pt) r
  | BExec p :: r => alookup p pt <> None /\ fexec_ok gd pt r
  | BDescP p :: r => alookup p pt <> None /\ fexec_ok gd pt r
  | _ :: r => fexec_ok gd pt r
  end.

Definition tab_good (K : cfg) (t : list (nat * nat)) : Prop := forall g st, In (g, st) t -> kind K st = Good.
Definition pt_good (K : cfg) (pt : ptabT) : Prop := forall p st, alookup p pt = Some st -> kind K st = Good.

Lemma pt_good_insert K pt p st : pt_good K pt -> kind K st = Good -> pt_good K (ainsert p st pt).
Proof.
  intros H Hk p' st' Hl. destruct (Nat.eq_dec p' p) as [->|Hne].
  - rewrite alookup_ainsert_eq in Hl. inversion Hl; subst. exact Hk.
  - rewrite alookup_ainsert_neq in Hl by assumption. eauto.
Qed.
Lemma pt_good_remove K pt p : pt_good K pt -> pt_good K (aremove p pt).
Proof.
  intros H p' st' Hl. destruct (Nat.eq_dec p' p) as [->|Hne].
  - rewrite alookup_aremove_eq in Hl. discriminate.
  - rewrite alookup_aremove_neq in Hl by assumption. eauto.
Qed.

Lemma nth_of_gd gd g st : nth_error gd g = Some st -> nth g gd 0 = st.
Proof. intros H. apply nth_error_nth. exact H. Qed.

Lemma brun_good K gd ms : forall t pt,
  tab_ok gd t -> tab_good K t ->
  fwd_good K gd (fun g => alookup g t <> None) ms ->
  fexec_ok gd pt ms -> pt_good K pt ->
  exists t', brun K (mkB t pt false) ms = (mkB t' (fportal gd pt ms) false, fexp gd pt ms) /\
             tab_ok gd t' /\ tab_good K t' /\
             (forall g, alookup g t' <> None <-> (alookup g t <> None \/ In g (pnames ms))) /\
             (forall st, In (RRow st) (fexp gd pt ms) -> kind K st = Good).
Proof.
  induction ms as [|m r IH]; intros t pt Ht Hg Hf He Hp; cbn [brun fexp fportal].
  - exists t. split; [reflexivity|]. split; [exact Ht|]. split; [exact Hg|]. split; [cbn; tauto | intros st []].
  - destruct m; cbn in Hf; try contradiction.
    + (* BParse *)
      destruct Hf as (Hn & Hk & Hgd & Hf). cbn [bstep b_skip b_tab b_portal]. rewrite Hk.
      destruct (alookup g t) eqn:El; [exfalso; apply Hn; congruence|].
      destruct (IH ((g, st) :: t) pt) as (t' & Hr & Ht' & Hg' & Hd & Hrows); auto.
      * intros g' st' [H|H]; [inversion H; subst; exact Hgd | auto].
      * intros g' st' [H|H]; [inversion H; subst; exact Hk | eauto].
      * eapply fwd_good_ext; [|exact Hf]. intros x _. cbn. destruct (x =? g) eqn:E.
        -- apply Nat.eqb_eq in E. subst. split; [discriminate | auto].
        -- apply Nat.eqb_neq in E. split; [intros [H|H]; [contradiction | exact H] | auto].
      * exists t'. rewrite Hr. split; [reflexivity|]. split; [exact Ht'|]. split; [exact Hg'|]. split.
        -- intros g0. split.
           ++ intros H. apply Hd in H. cbn in H. destruct (g0 =? g) eqn:E; [apply Nat.eqb_eq in E; subst; right; left; reflexivity|].
              destruct H as [H|H]; [left; exact H | right; right; exact H].
           ++ intros H. apply Hd. cbn. destruct (g0 =? g) eqn:E; [left; discriminate|]. apply Nat.eqb_neq in E.
              destruct H as [H|[H|H]]; [left; exact H | congruence | right; exact H].
        -- intros st0 [X|X]; [discriminate | auto].
    + (* BBind *)
      destruct Hf as [Hdg Hf]. cbn [bstep b_skip b_tab b_portal].
      destruct (alookup g t) as [st|] eqn:El; [|contradiction].
      assert (Hst : nth g gd 0 = st). { apply nth_of_gd. apply Ht. apply alookup_In. exact El. }
      cbn [fexec_ok] in He. rewrite Hst in *.
      destruct (IH t (ainsert p st pt)) as (t' & Hr & Ht' & Hg' & Hd & Hrows); auto.
      * apply pt_good_insert; auto. eapply Hg. apply alookup_In. exact El.
      * exists t'. rewrite Hr. split; [reflexivity|]. split; [exact Ht'|]. split; [exact Hg'|]. split; [exact Hd|].
        intros st0 [X|X]; [discriminate | auto].
    + (* BDesc *)
      destruct Hf as [Hdg Hf]. cbn [bstep b_skip b_tab b_portal].
      destruct (alookup g t) as [st|] eqn:El; [|contradiction].
      assert (Hst : nth g gd 0 = st). { apply nth_of_gd. apply Ht. apply alookup_In. exact El. }
      rewrite Hst. cbn [fexec_ok] in He.
      destruct (IH t pt) as (t' & Hr & Ht' & Hg' & Hd & Hrows); auto.
      exists t'. rewrite Hr. split; [reflexivity|]. split; [exact Ht'|]. split; [exact Hg'|]. split; [exact Hd|].
      intros st0 [X|X]; [discriminate | auto].
    + (* BDescP *)
      cbn [fexec_ok] in He. destruct He as [Hpt He]. cbn [bstep b_skip b_tab b_portal].
      destruct (alookup p pt) as [st|] eqn:Ep; [|congruence].
      destruct (IH t pt) as (t' & Hr & Ht' & Hg' & Hd & Hrows); auto.
      exists t'. rewrite Hr. cbn [prep]. split; [reflexivity|]. split; [exact Ht'|]. split; [exact Hg'|]. split; [exact Hd|].
      intros st0 [X|X]; [discriminate | auto].
    + (* BExec *)
      cbn [fexec_ok] in He. destruct He as [Hpt He]. cbn [bstep b_skip b_tab b_portal].
      destruct (alookup p pt) as [st|] eqn:Ep; [|congruence]. rewrite (Hp p st Ep).
      destruct (IH t pt) as (t' & Hr & Ht' & Hg' & Hd & Hrows); auto.
      exists t'. rewrite Hr. cbn [prep]. split; [reflexivity|]. split; [exact Ht'|]. split; [exact Hg'|]. split; [exact Hd|].
      intros st0 [X|X]; [inversion X; subst; eapply Hp; eauto | auto].
    + (* BCloseUnnamed *)
      cbn [fexec_ok] in He. cbn [bstep b_skip b_tab b_portal].
      destruct (IH t pt) as (t' & Hr & Ht' & Hg' & Hd & Hrows); auto.
      exists t'. rewrite Hr. split; [reflexivity|]. split; [exact Ht'|]. split; [exact Hg'|]. split; [exact Hd|].
      intros st0 [X|X]; [discriminate | auto].
    + (* BCloseP *)
      cbn [fexec_ok] in He. cbn [bstep b_skip b_tab b_portal].
      destruct (IH t (aremove p pt)) as (t' & Hr & Ht' & Hg' & Hd & Hrows); auto.
      * apply pt_good_remove. exact Hp.
      * exists t'. rewrite Hr. split; [reflexivity|]. split; [exact Ht'|]. split; [exact Hg'|]. split; [exact Hd|].
        intros st0 [X|X]; [discriminate | auto].
Qed.

Definition quiet (K : cfg) (rs : list reply) : Prop :=
  ~ In RErr rs /\ (forall st, In (RRow st) rs -> kind K st = Good).

Lemma recv_noerr K l q rs : quiet K rs -> fst (recv K l q rs) = l.
Proof.
  revert l q. induction rs as [|r rs IH]; intros l q [H1 H2]; cbn; auto.
  assert (Hq : quiet K rs) by (split; [intros X; apply H1; right; exact X | intros st X; apply H2; right; exact X]).
  destruct r; try (apply IH; exact Hq).
  - rewrite (H2 st (or_introl eq_refl)). apply IH. exact Hq.
  - exfalso. apply H1. left. reflexivity.
Qed.

Lemma fexp_noerr gd ms : forall pt, fexec_ok gd pt ms -> ~ In RErr (fexp gd pt ms).
Proof.
  induction ms as [|m r IH]; intros pt He; cbn [fexp]; [intros []|].
  destruct m; cbn [fexec_ok] in He.
  - intros X. destruct X as [H|H]; [discriminate | eapply IH; eauto].
  - intros X. destruct X as [H|H]; [discriminate | eapply IH; eauto].
  - intros X. destruct X as [H|H]; [discriminate | eapply IH; eauto].
  - destruct He as [Hp He]. destruct (alookup p pt); [|congruence]. intros X. destruct X as [H|H]; [discriminate | eapply IH; eauto].
  - destruct He as [Hp He]. destruct (alookup p pt); [|congruence]. intros X. destruct X as [H|H]; [discriminate | eapply IH; eauto].
  - eapply IH; eauto.
  - intros X. destruct X as [H|H]; [discriminate | eapply IH; eauto].
  - intros X. destruct X as [H|H]; [discriminate | eapply IH; eauto].
  - eapply IH; eauto.
Qed.


(** * Part B3 — names: the client map against the specification's table *)

Definition cmapT := list (nat * (nat * nat)).
Definition mapx (M : cmapT) (n : nat) : option nat := option_map snd (alookup n M).

(* what the buffered items say about the buffered ops, from the front; [M] = the client map when
   the first op was buffered, [Mf] = the client map now.  Since the repairs the map follows the
   messages in order: Parse inserts, Close removes, Bind/Describe are resolved on arrival. *)
Fixpoint brel (gd : list nat) (M : cmapT) (os : list op) (its : list item) (Mf : cmapT) : Prop :=
  match os, its with
  | [], [] => Mf = M
  | Parse _ n st :: os', IParse g st' :: its' => st' = st /\ nth_error gd g = Some st /\ brel gd (ainsert n (g, st) M) os' its' Mf
  | Bind _ p n :: os', IBind g st n' p' :: its' => (n' = n /\ p' = p) /\ alookup n M = Some (g, st) /\ nth_error gd g = Some st /\ brel gd M os' its' Mf
  | Describe _ n :: os', IDesc g st n' :: its' => n' = n /\ alookup n M = Some (g, st) /\ nth_error gd g = Some st /\ brel gd M os' its' Mf
  | DescribeP _ p :: os', IDescP p' :: its' => p' = p /\ brel gd M os' its' Mf
  | Execute _ p :: os', IExec p' :: its' => p' = p /\ brel gd M os' its' Mf
  | Close _ n :: os', IClose n' :: its' => n' = n /\ brel gd (if n =? 0 then M else aremove n M) os' its' Mf
  | CloseP _ p :: os', IClosePortal p' :: its' => p' = p /\ brel gd M os' its' Mf   (* the map is not touched *)
  | _, _ => False
  end.

Lemma brel_mono gd gd' : (forall g st, nth_error gd g = Some st -> nth_error gd' g = Some st) ->
  forall os M its Mf, brel gd M os its Mf -> brel gd' M os its Mf.
Proof.
  intros Hm. induction os as [|o os IH]; intros M its Mf H; destruct its as [|it its]; cbn in *; auto; try contradiction; try (destruct o; contradiction).
  destruct o; destruct it; cbn in *; try contradiction.
  - destruct H as (A & B & C). repeat split; auto.
  - destruct H as (A & B & C & D). repeat split; auto; apply A.
  - destruct H as (A & B & C & D). repeat split; auto.
  - destruct H as (A & B). split; auto.
  - destruct H as (A & B). split; auto.
  - destruct H as (A & B). split; auto.
  - destruct H as (A & B). split; auto.
Qed.

(* effect of one more buffered op on the final map *)
Definition snoc_ok (gd : list nat) (Mf : cmapT) (o : op) (it : item) (Mf' : cmapT) : Prop :=
  match o, it with
  | Parse _ n st, IParse g st' => st' = st /\ nth_error gd g = Some st /\ Mf' = ainsert n (g, st) Mf
  | Bind _ p n, IBind g st n' p' => (n' = n /\ p' = p) /\ alookup n Mf = Some (g, st) /\ nth_error gd g = Some st /\ Mf' = Mf
  | Describe _ n, IDesc g st n' => n' = n /\ alookup n Mf = Some (g, st) /\ nth_error gd g = Some st /\ Mf' = Mf
  | DescribeP _ p, IDescP p' => p' = p /\ Mf' = Mf
  | Execute _ p, IExec p' => p' = p /\ Mf' = Mf
  | Close _ n, IClose n' => n' = n /\ Mf' = (if n =? 0 then Mf else aremove n Mf)
  | CloseP _ p, IClosePortal p' => p' = p /\ Mf' = Mf
  | _, _ => False
  end.

Lemma brel_snoc gd o it Mf' : forall os M its Mf, brel gd M os its Mf -> snoc_ok gd Mf o it Mf' -> brel gd M (os ++ [o]) (its ++ [it]) Mf'.
Proof.
  induction os as [|o0 os IH]; intros M its Mf H Hs; destruct its as [|it0 its]; cbn in H; try contradiction; try (destruct o0; contradiction).
  - subst. destruct o; destruct it; cbn in *; try contradiction.
    + destruct Hs as (A & B & C). subst. auto.
    + destruct Hs as (A & B & C & D). subst. auto.
    + destruct Hs as (A & B & C & D). subst. auto.
    + destruct Hs as (A & B). subst. auto.
    + destruct Hs as (A & B). subst. auto.
    + destruct Hs as (A & B). subst. auto.
    + destruct Hs as (A & B). subst. auto.
  - destruct o0; destruct it0; cbn in H; try contradiction; cbn.
    + destruct H as (A & B & C). repeat split; auto. eapply IH; eauto.
    + destruct H as (A & B & C & D). repeat split; auto; try apply A. eapply IH; eauto.
    + destruct H as (A & B & C & D). repeat split; auto. eapply IH; eauto.
    + destruct H as (A & B). split; auto. eapply IH; eauto.
    + destruct H as (A & B). split; auto. eapply IH; eauto.
    + destruct H as (A & B). split; auto. eapply IH; eauto.
    + destruct H as (A & B). split; auto. eapply IH; eauto.
Qed.

(** the buffer-time map [M] and the specification's table [tab] agree name by name *)
Definition NJ (M : cmapT) (tab : list (nat * nat)) : Prop := forall n, mapx M n = alookup n tab.

Lemma mapx_ainsert_eq M n g st : mapx (ainsert n (g, st) M) n = Some st.
Proof. unfold mapx. rewrite alookup_ainsert_eq. reflexivity. Qed.
Lemma mapx_ainsert_neq M n n' g st : n' <> n -> mapx (ainsert n (g, st) M) n' = mapx M n'.
Proof. intros H. unfold mapx. rewrite alookup_ainsert_neq by assumption. reflexivity. Qed.

Lemma NJ_parse M tab n g st : NJ M tab -> NJ (ainsert n (g, st) M) (ainsert n st tab).
Proof.
  intros H n0. destruct (Nat.eq_dec n0 n) as [->|Hne].
  - rewrite mapx_ainsert_eq, alookup_ainsert_eq. reflexivity.
  - rewrite mapx_ainsert_neq, alookup_ainsert_neq by assumption. apply H.
Qed.

Lemma NJ_close M tab n : NJ M tab -> NJ (aremove n M) (aremove n tab).
Proof.
  intros H n0. unfold mapx. destruct (Nat.eq_dec n0 n) as [->|Hne].
  - rewrite !alookup_aremove_eq. reflexivity.
  - rewrite !alookup_aremove_neq by assumption. apply H.
Qed.

(* walking a prefix of a guarded batch *)
Lemma walk K gd : forall os M its Mf tab known pt b tail,
  brel gd M os its Mf -> NJ M tab -> batch_ok K tab known pt b (os ++ tail) = true ->
  exists tab' known' pt' b', NJ Mf tab' /\ batch_ok K tab' known' pt' b' tail = true.
Proof.
  induction os as [|o os IH]; intros M its Mf tab known pt b tail H HJ Hb; destruct its as [|it its]; cbn in H; try contradiction; try (destruct o; contradiction).
  - subst. cbn in Hb. eauto 10.
  - destruct o; destruct it; cbn in H; try contradiction; cbn [app batch_ok] in Hb.
    + destruct H as (A & B & C). subst. rewrite !andb_true_iff in Hb. destruct Hb as (_ & Hb).
      eapply IH; [exact C | | exact Hb]. apply NJ_parse. exact HJ.
    + destruct H as (A & B & C & D). destruct (alookup n tab); [|discriminate]. rewrite !andb_true_iff in Hb. destruct Hb as (_ & Hb).
      eapply IH; [exact D | exact HJ | exact Hb].
    + destruct H as (A & B & C & D). rewrite !andb_true_iff in Hb. destruct Hb as (_ & Hb).
      eapply IH; [exact D | exact HJ | exact Hb].
    + destruct H as (A & B). rewrite !andb_true_iff in Hb. destruct Hb as (_ & Hb). eapply IH; [exact B | exact HJ | exact Hb].
    + destruct H as (A & B). rewrite !andb_true_iff in Hb. destruct Hb as (_ & Hb). eapply IH; [exact B | exact HJ | exact Hb].
    + destruct H as (A & C). subst. rewrite !andb_true_iff in Hb. destruct Hb as (Hn0 & Hb).
      apply negb_true_iff in Hn0. rewrite Hn0 in C.
      eapply IH; [exact C | | exact Hb]. apply NJ_close. exact HJ.
    + destruct H as (A & B). eapply IH; [exact B | exact HJ | exact Hb].
Qed.

(* consequence used when a Bind/Describe is buffered: the name is in the client map *)
Lemma buffered_lookup K gd os M0 its Mf tab b n (o : op) :
  (exists c, (exists p, o = Bind c p n) \/ o = Describe c n) ->
  brel gd M0 os its Mf -> NJ M0 tab ->
  batch_ok K tab [] [] b (os ++ [o]) = true ->
  exists g st, alookup n Mf = Some (g, st).
Proof.
  intros Ho H H0 Hb.
  destruct (walk K gd os M0 its Mf tab [] [] b [o] H H0 Hb) as (tab' & known' & pt' & b' & J & Hb').
  assert (Hl : alookup n tab' <> None).
  { destruct Ho as [c [[p ->]| ->]]; cbn in Hb'.
    - destruct (alookup n tab'); [discriminate | discriminate].
    - rewrite !andb_true_iff in Hb'. destruct Hb' as ((Hl & _) & _). destruct (alookup n tab'); congruence. }
  specialize (J n). unfold mapx in J. destruct (alookup n Mf) as [[g st]|]; [eauto|]. cbn in J. congruence.
Qed.


(** * Part B4 — one server connection during the 'S' arm *)

Definition gd_good (K : cfg) (univ : list nat) (gd : list nat) : Prop := Forall (fun st => kind K st = Good /\ In st univ) gd.

Lemma gd_good_kind K univ gd g st : gd_good K univ gd -> nth_error gd g = Some st -> kind K st = Good.
Proof. intros H Hn. apply nth_error_In in Hn. unfold gd_good in H. rewrite Forall_forall in H. apply H. exact Hn. Qed.

Lemma tab_good_of K univ gd t : gd_good K univ gd -> tab_ok gd t -> tab_good K t.
Proof. intros Hg Ht g st Hi. eapply gd_good_kind; eauto. apply Ht. exact Hi. Qed.

(* lru = touched names (most recent first) ++ the rest; [pend] = names whose Parse is in the
   batch that has not been sent yet *)
Record SInv (K : cfg) (gd : list nat) (sv : server) (tl rest pend : list nat) : Prop := {
  si_lru : lru sv = tl ++ rest;
  si_nd : NoDup (tl ++ rest);
  si_len : length (tl ++ rest) <= cs K;
  si_dom : forall g, In g (tl ++ rest) <-> (alookup g (btab sv) <> None \/ In g pend);
  si_pend : forall g, In g pend -> alookup g (btab sv) = None;
  si_ptl : forall g, In g pend -> In g tl;
  si_tab : tab_ok gd (btab sv) }.

Lemma NoDup_app_disj {A} (a b : list A) x : NoDup (a ++ b) -> In x a -> ~ In x b.
Proof.
  induction a as [|y a IH]; cbn; [tauto|]. intros Hnd [H|H] Hb; inversion Hnd; subst.
  - apply H2. apply in_app_iff. right. exact Hb.
  - eapply IH; eauto.
Qed.

Lemma NoDup_app_l {A} (a b : list A) : NoDup (a ++ b) -> NoDup a.
Proof.
  induction a as [|x a IH]; cbn; [constructor|]. intros H. inversion H; subst. constructor; [|auto].
  intros X. apply H2. apply in_app_iff. auto.
Qed.

Lemma alookup_cons_neq {B} k k' (v : B) l : k <> k' -> alookup k ((k', v) :: l) = alookup k l.
Proof. intros H. cbn. destruct (k =? k') eqn:E; auto. apply Nat.eqb_eq in E. congruence. Qed.

Lemma touch_good K gd sv tl rest pend g : SInv K gd sv tl rest pend -> In g (tl ++ rest) ->
  SInv K gd (mkServer (touch (lru sv) g) (queue sv) (btab sv) (slog sv)) (g :: remove_nat g tl) (remove_nat g rest) pend /\
  (forall x, In x tl -> In x (g :: remove_nat g tl)) /\ length (g :: remove_nat g tl) <= S (length tl).
Proof.
  intros [H1 H2 H3 H4 H5 H6 H7] Hin. split; [|split].
  - constructor; cbn [lru btab].
    + rewrite H1, touch_in by assumption. rewrite remove_nat_app. reflexivity.
    + change ((g :: remove_nat g tl) ++ remove_nat g rest) with (g :: (remove_nat g tl ++ remove_nat g rest)).
      rewrite <- remove_nat_app. apply NoDup_touched. exact H2.
    + change ((g :: remove_nat g tl) ++ remove_nat g rest) with (g :: (remove_nat g tl ++ remove_nat g rest)).
      rewrite <- remove_nat_app. rewrite length_touched by assumption. exact H3.
    + intros x. rewrite <- H4. change ((g :: remove_nat g tl) ++ remove_nat g rest) with (g :: (remove_nat g tl ++ remove_nat g rest)).
      rewrite <- remove_nat_app. cbn. rewrite remove_nat_In. split; [intros [->|[H _]]; auto|].
      intros H. destruct (Nat.eq_dec x g); [left; auto | right; auto].
    + exact H5.
    + intros x Hx. apply H6 in Hx. destruct (Nat.eq_dec x g); [left; auto | right; apply remove_nat_In; auto].
    + exact H7.
  - intros x Hx. destruct (Nat.eq_dec x g); [left; auto | right; apply remove_nat_In; auto].
  - cbn [length]. pose proof (remove_nat_length g tl). lia.
Qed.

Lemma recv_same K l q rs : quiet K rs -> exists q', recv K l q rs = (l, q').
Proof.
  intros H. pose proof (recv_noerr K l q rs H) as E. destruct (recv K l q rs) as [l' q']. cbn in E. subst. eauto.
Qed.

(* Server::register_prepared_statement on a statement that is fine: it ends up in the cache, at
   most one name of [rest] is evicted (and closed on the backend), nothing touched is lost *)
Lemma register_good K gd univ sv tl rest pend g st snd_ :
  0 < cs K -> gd_good K univ gd -> SInv K gd sv tl rest pend -> (In g (tl ++ rest) \/ length tl < cs K) ->
  nth_error gd g = Some st -> (snd_ = false -> ~ In g (tl ++ rest)) ->
  exists sv' tl' rest',
    register K sv g st snd_ = (sv', true) /\
    SInv K gd sv' tl' rest' (if snd_ then pend else pend ++ [g]) /\
    In g tl' /\ (forall x, In x tl -> In x tl') /\ length tl' <= S (length tl) /\
    (forall x, In x tl -> alookup x (btab sv') = alookup x (btab sv)) /\
    (snd_ = true -> alookup g (btab sv') <> None \/ In g pend) /\
    (In g tl -> length tl' <= length tl).
Proof.
  intros Hcs Hgood HS Htl0 Hgd Hfalse. pose proof HS as [H1 H2 H3 H4 H5 H6 H7].
  unfold register. destruct (mem g (lru sv)) eqn:Em.
  - (* already cached *)
    apply mem_In in Em. rewrite H1 in Em.
    destruct snd_; [|exfalso; apply Hfalse; auto].
    destruct (touch_good K gd sv tl rest pend g HS Em) as (HS' & Hsub & Hl).
    exists (mkServer (touch (lru sv) g) (queue sv) (btab sv) (slog sv)), (g :: remove_nat g tl), (remove_nat g rest).
    split; [reflexivity|]. split; [exact HS'|]. split; [left; reflexivity|]. split; [exact Hsub|]. split; [exact Hl|].
    split; [reflexivity|]. split; [intros _; apply H4; exact Em|].
    intros Hgt. rewrite length_touched; [lia | eapply NoDup_app_l; exact H2 | exact Hgt].
  - apply mem_false in Em. rewrite H1 in Em.
    assert (Htl : length tl < cs K) by (destruct Htl0; [contradiction | assumption]).
    assert (Hvac : In g tl -> False) by (intros X; apply Em; apply in_app_iff; auto).
    destruct (push (cs K) (lru sv) g) as [l ev] eqn:Ep. rewrite H1 in Ep.
    destruct (push_decomp (cs K) tl rest g l ev H2 Em H3 Htl Ep) as (rest' & Hl & Hnd' & Hlen' & Hsub & Hev).
    assert (Hk : kind K st = Good) by (eapply gd_good_kind; eauto).
    assert (Hgb : alookup g (btab sv) = None).
    { destruct (alookup g (btab sv)) eqn:E; auto. exfalso. apply Em. apply H4. left. congruence. }
    assert (Hgp : ~ In g pend) by (intros X; apply Em; apply H4; auto).
    assert (Hth : forall q b s, touch (lru (mkServer l q b s)) g = l).
    { intros. cbn [lru]. rewrite Hl. apply touch_head. exact Hnd'. }
    assert (Hmem : mem g l = true) by (apply mem_In; rewrite Hl; left; reflexivity).
    destruct snd_, ev as [e|]; cbn [app].
    + (* Close e + Parse, out of band *)
      destruct Hev as (He1 & He2 & He3).
      assert (Heg : e <> g) by (intros ->; apply Em; apply in_app_iff; auto).
      assert (Hgb' : alookup g (aremove e (btab sv)) = None) by (rewrite alookup_aremove_neq by auto; exact Hgb).
      unfold exchange. cbn [btab lru queue slog app brun bstep b_skip b_tab b_portal]. rewrite Hk, Hgb'. cbn [b_skip b_tab b_portal app recv].
      cbn [fst lru queue btab slog]. eexists _, (g :: tl), rest'. split; [cbn [lru queue btab slog]; rewrite Hmem; reflexivity|].
      split; [constructor; cbn [lru btab]|].
        -- rewrite Hl. apply touch_head. exact Hnd'.
        -- exact Hnd'.
        -- rewrite <- Hl. exact Hlen'.
        -- intros x.
           destruct (Nat.eq_dec x g) as [->|Hxg].
           ++ cbn. rewrite Nat.eqb_refl. split; [left; discriminate | left; reflexivity].
           ++ rewrite alookup_cons_neq by assumption. destruct (Nat.eq_dec x e) as [->|Hxe].
              ** rewrite alookup_aremove_eq. split.
                 --- intros X. exfalso. apply He2. rewrite Hl. exact X.
                 --- intros [X|X]; [congruence|]. exfalso. apply H6 in X. exact (NoDup_app_disj tl rest e H2 X He1).
              ** rewrite alookup_aremove_neq by assumption. rewrite <- H4. cbn. rewrite !in_app_iff. split.
                 --- intros [X|[X|X]]; [congruence | auto | right; apply Hsub; exact X].
                 --- intros [X|X]; [auto|]. destruct (He3 x X) as [Y|Y]; [congruence | auto].
        -- intros x Hx.
           assert (x <> g) by (intros ->; contradiction). rewrite alookup_cons_neq by assumption.
           destruct (Nat.eq_dec x e) as [->|Hxe]; [apply alookup_aremove_eq | rewrite alookup_aremove_neq by assumption; auto].
        -- intros x Hx. right. auto.
        -- intros g0 st0 Hi.
           destruct Hi as [Hi|Hi]; [inversion Hi; subst; exact Hgd | apply aremove_In in Hi; auto].
        -- split; [left; reflexivity|]. split; [intros x Hx; right; exact Hx|]. split; [cbn; lia|]. split.
           ++ intros x Hx. cbn [btab].
              assert (x <> g) by (intros ->; apply Em; apply in_app_iff; auto).
              assert (x <> e) by (intros ->; exact (NoDup_app_disj tl rest e H2 Hx He1)).
              rewrite alookup_cons_neq, alookup_aremove_neq by assumption. reflexivity.
           ++ split; [|intros X; destruct (Hvac X)]. intros _. left. cbn [btab].
              cbn. rewrite Nat.eqb_refl. discriminate.
    + (* Parse only, out of band *)
      subst rest'.
      unfold exchange. cbn [btab lru queue slog app brun bstep b_skip b_tab b_portal]. rewrite Hk, Hgb. cbn [b_skip b_tab b_portal app recv].
      cbn [fst lru queue btab slog]. eexists _, (g :: tl), rest. split; [cbn [lru queue btab slog]; rewrite Hmem; reflexivity|].
      split; [constructor; cbn [lru btab]|].
        -- rewrite Hl. apply touch_head. exact Hnd'.
        -- exact Hnd'.
        -- rewrite <- Hl. exact Hlen'.
        -- intros x. destruct (Nat.eq_dec x g) as [->|Hxg].
           ++ cbn. rewrite Nat.eqb_refl. split; [left; discriminate | left; reflexivity].
           ++ rewrite alookup_cons_neq by assumption. rewrite <- H4. cbn. split; [intros [X|X]; [congruence | auto] | auto].
        -- intros x Hx. assert (x <> g) by (intros ->; contradiction). rewrite alookup_cons_neq by assumption. auto.
        -- intros x Hx. right. auto.
        -- intros g0 st0 [Hi|Hi]; [inversion Hi; subst; exact Hgd | auto].
        -- split; [left; reflexivity|]. split; [intros x Hx; right; exact Hx|]. split; [cbn; lia|]. split.
           ++ intros x Hx. cbn [btab]. assert (x <> g) by (intros ->; apply Em; apply in_app_iff; auto).
              rewrite alookup_cons_neq by assumption. reflexivity.
           ++ split; [|intros X; destruct (Hvac X)]. intros _. left. cbn. rewrite Nat.eqb_refl. discriminate.
    + (* the client's own Parse follows in the batch; Close e goes out of band now *)
      destruct Hev as (He1 & He2 & He3).
      assert (Heg : e <> g) by (intros ->; apply Em; apply in_app_iff; auto).
      unfold exchange. cbn [btab lru queue slog app brun bstep b_skip b_tab b_portal recv].
      cbn [fst lru queue btab slog]. eexists _, (g :: tl), rest'. split; [cbn [lru queue btab slog]; rewrite Hmem; reflexivity|].
      split; [constructor; cbn [lru btab]|].
        -- rewrite Hl. apply touch_head. exact Hnd'.
        -- exact Hnd'.
        -- rewrite <- Hl. exact Hlen'.
        -- intros x. destruct (Nat.eq_dec x g) as [->|Hxg].
           ++ split; [intros _; right; apply in_app_iff; right; left; reflexivity | intros _; left; reflexivity].
           ++ assert (Hp : In x (pend ++ [g]) <-> In x pend)
                by (rewrite in_app_iff; cbn; split; [intros [X|[X|[]]]; [auto|congruence] | auto]).
              rewrite Hp. destruct (Nat.eq_dec x e) as [->|Hxe].
              ** rewrite alookup_aremove_eq. split.
                 --- intros X. exfalso. apply He2. rewrite Hl. exact X.
                 --- intros [X|X]; [congruence|]. exfalso. apply H6 in X. exact (NoDup_app_disj tl rest e H2 X He1).
              ** rewrite alookup_aremove_neq by assumption. rewrite <- H4. cbn. rewrite !in_app_iff. split.
                 --- intros [X|[X|X]]; [congruence | auto | right; apply Hsub; exact X].
                 --- intros [X|X]; [auto|]. destruct (He3 x X) as [Y|Y]; [congruence | auto].
        -- intros x Hx. apply in_app_iff in Hx as [Hx|[<-|[]]].
           ++ destruct (Nat.eq_dec x e) as [->|Hxe]; [apply alookup_aremove_eq | rewrite alookup_aremove_neq by assumption; auto].
           ++ rewrite alookup_aremove_neq by auto. exact Hgb.
        -- intros x Hx. apply in_app_iff in Hx as [Hx|[<-|[]]]; [right; auto | left; reflexivity].
        -- intros g0 st0 Hi. apply aremove_In in Hi. auto.
        -- split; [left; reflexivity|]. split; [intros x Hx; right; exact Hx|]. split; [cbn; lia|]. split; [|split; [discriminate | intros X; destruct (Hvac X)]].
           intros x Hx. cbn [btab]. assert (x <> e) by (intros ->; exact (NoDup_app_disj tl rest e H2 Hx He1)).
           rewrite alookup_aremove_neq by assumption. reflexivity.
    + (* nothing to send *)
      subst rest'.
      cbn [fst lru queue btab slog]. eexists _, (g :: tl), rest. split; [cbn [lru queue btab slog]; rewrite Hmem; reflexivity|].
      split; [constructor; cbn [lru btab]|].
        -- rewrite Hl. apply touch_head. exact Hnd'.
        -- exact Hnd'.
        -- rewrite <- Hl. exact Hlen'.
        -- intros x. destruct (Nat.eq_dec x g) as [->|Hxg].
           ++ split; [intros _; right; apply in_app_iff; right; left; reflexivity | intros _; left; reflexivity].
           ++ assert (Hp : In x (pend ++ [g]) <-> In x pend)
                by (rewrite in_app_iff; cbn; split; [intros [X|[X|[]]]; [auto|congruence] | auto]).
              rewrite Hp, <- H4. cbn. split; [intros [X|X]; [congruence | auto] | auto].
        -- intros x Hx. apply in_app_iff in Hx as [Hx|[<-|[]]]; auto.
        -- intros x Hx. apply in_app_iff in Hx as [Hx|[<-|[]]]; [right; auto | left; reflexivity].
        -- exact H7.
        -- split; [left; reflexivity|]. split; [intros x Hx; right; exact Hx|]. split; [cbn; lia|]. split; [reflexivity | split; [discriminate | intros X; destruct (Hvac X)]].
Qed.


(** * Part B5 — the 'S' arm against the specification's batch run *)

(** ** replies up to the position of the acknowledgements *)
Lemma norm_snoc_congr x y r : norm x = norm y -> norm (x ++ [r]) = norm (y ++ [r]).
Proof.
  unfold norm, count_r. intros H. inversion H as [[H0 H1 H2 H3 H4]].
  rewrite !filter_app, !app_length. rewrite H0, H1, H2, H3, H4. reflexivity.
Qed.

Lemma norm_move x y r : is_data r = false -> norm (x ++ r :: y) = norm ((x ++ y) ++ [r]).
Proof.
  intros Hr. unfold norm, count_r.
  destruct r; try discriminate; rewrite !filter_app; cbn [filter is_data]; rewrite ?filter_app, ?app_nil_r, !app_length; cbn [length];
    rewrite ?Nat.add_0_r; repeat (f_equal; try lia).
Qed.

Lemma fexp_app gd ms : forall pt m, fexp gd pt (ms ++ [m]) = fexp gd pt ms ++ fexp gd (fportal gd pt ms) [m].
Proof.
  induction ms as [|m0 r IH]; intros pt m; [reflexivity|].
  destruct m0; cbn [app fexp fportal]; rewrite ?IH; reflexivity.
Qed.

Lemma fportal_app gd ms : forall pt m, fportal gd pt (ms ++ [m]) = fportal gd (fportal gd pt ms) [m].
Proof. induction ms as [|m0 r IH]; intros pt m; [reflexivity|]. destruct m0; cbn [app fportal]; rewrite ?IH; reflexivity. Qed.

Lemma fexec_ok_app gd ms : forall pt m, fexec_ok gd pt ms ->
  (forall p, (m = BExec p \/ m = BDescP p) -> alookup p (fportal gd pt ms) <> None) -> fexec_ok gd pt (ms ++ [m]).
Proof.
  induction ms as [|m0 r IH]; intros pt m H Hm.
  - cbn in *. destruct m; cbn; auto; split; auto.
  - destruct m0; cbn [app fexec_ok fportal] in *; try (apply IH; auto; fail).
    + destruct H as [H1 H2]. split; auto.
    + destruct H as [H1 H2]. split; auto.
Qed.

Lemma pnames_app a b : pnames (a ++ b) = pnames a ++ pnames b.
Proof. unfold pnames. apply flat_map_app. Qed.
Lemma refs_app a b : refs (a ++ b) = refs a ++ refs b.
Proof. unfold refs. apply flat_map_app. Qed.
Lemma pnames_refs ms g : In g (pnames ms) -> In g (refs ms).
Proof.
  unfold pnames, refs. rewrite !in_flat_map. intros [m [H1 H2]]. exists m. split; auto. destruct m; cbn in *; auto.
Qed.

(** ** the loop invariant *)
Record LI (K : cfg) (gd : list nat) (Mf : cmapT) (a : sacc) (M : cmapT) (d : dstate) (os : list op) (its : list item)
          (known : list nat) (b : nat) (tl rest : list nat) (drs : list reply) : Prop := {
  li_brel : brel gd M os its Mf;
  li_ok : batch_ok K (d_tab d) known (d_portal d) b os = true;
  li_skip : d_skip d = false;
  li_nj : NJ M (d_tab d);
  li_map : a_map a = Mf;
  li_srv : SInv K gd (a_sv a) tl rest (pnames (a_fwd a));
  li_budget : length tl + b <= cs K;
  li_touch : forall n, In n known -> exists g st, alookup n M = Some (g, st) /\ In g tl;
  li_refs : forall g, In g (refs (a_fwd a)) -> In g tl;
  li_fwd : fwd_good K gd (fun g => alookup g (btab (a_sv a)) <> None) (a_fwd a);
  li_exec : fexec_ok gd [] (a_fwd a);
  li_portal : fportal gd [] (a_fwd a) = d_portal d;
  li_pgood : pt_good K (d_portal d);
  li_norm : norm (a_syn a ++ fexp gd [] (a_fwd a)) = norm drs }.

Section Loop.
Variable K : cfg.
Variable gd univ : list nat.
Variable Mf : cmapT.
Hypothesis Hcs : 0 < cs K.
Hypothesis Hgood : gd_good K univ gd.

Lemma andb3 a b c : a && b && c = true -> a = true /\ b = true /\ c = true.
Proof. rewrite !andb_true_iff. tauto. Qed.

(* Parse *)
Lemma li_step_parse a M d c n st os g st' its known b tl rest drs :
  LI K gd Mf a M d (Parse c n st :: os) (IParse g st' :: its) known b tl rest drs ->
  exists tl1 rest1,
    LI K gd Mf (sitem K a (IParse g st')) (ainsert n (g, st) M) (fst (dstep K d (Parse c n st))) os its (n :: known) (b - 1) tl1 rest1
       (drs ++ snd (dstep K d (Parse c n st))).
Proof.
  intros [Hbrel Hok Hskip Hnj Hmap Hsrv Hbud Htouch Hrefs Hfwd Hexec Hport Hpg Hnorm].
  cbn in Hbrel. destruct Hbrel as (-> & Hgd & Hbrel). cbn [batch_ok] in Hok.
  apply andb3 in Hok as (Hk & Hb & Hok).
  destruct (kind K st) eqn:Ek; try discriminate.
  assert (Hb' : 0 < b) by (destruct b; [discriminate | lia]); clear Hb; rename Hb' into Hb.
  unfold dstep. rewrite Hskip, Ek. cbn [fst snd].
  pose proof (NJ_parse M (d_tab d) n g st Hnj) as Hnj'.
  cbn [sitem]. destruct (mem g (lru (a_sv a))) eqn:Em.
  - (* cached on this server: ParseComplete is synthesised *)
    apply mem_In in Em. rewrite (si_lru _ _ _ _ _ _ Hsrv) in Em.
    destruct (touch_good K gd (a_sv a) tl rest (pnames (a_fwd a)) g Hsrv Em) as (HS' & Hsub & Hl).
    exists (g :: remove_nat g tl), (remove_nat g rest).
    assert (Htouch' : forall n0, In n0 (n :: known) -> exists g0 st0, alookup n0 (ainsert n (g, st) M) = Some (g0, st0) /\ In g0 (g :: remove_nat g tl)).
    { intros n0 Hn0. destruct (Nat.eq_dec n0 n) as [->|Hne]; [exists g, st; rewrite alookup_ainsert_eq; split; [reflexivity | left; reflexivity]|].
      destruct Hn0 as [X|Hn0]; [congruence|].
      rewrite alookup_ainsert_neq by assumption. destruct (Htouch n0 Hn0) as (g0 & st0 & A & B). exists g0, st0. split; auto. }
    constructor; cbn [a_map a_sv a_pl a_fwd a_syn d_tab d_portal d_skip btab]; auto;
      try exact HS'; try (cbn [length] in Hl |- *; lia); try (intros x Hx; apply Hsub; auto; fail).
    + rewrite <- app_assoc. cbn [app]. rewrite norm_move by reflexivity. apply norm_snoc_congr. exact Hnorm.
  - (* not cached: registered, the Parse goes out with the batch *)
    apply mem_false in Em. rewrite (si_lru _ _ _ _ _ _ Hsrv) in Em.
    destruct (register_good K gd univ (a_sv a) tl rest (pnames (a_fwd a)) g st false Hcs Hgood Hsrv ltac:(right; lia) Hgd (fun _ => Em))
      as (sv' & tl' & rest' & Hreg & HS' & Hgtl & Hsub & Hl & Hframe & _).
    rewrite Hreg. exists tl', rest'.
    constructor; cbn [a_map a_sv a_pl a_fwd a_syn d_tab d_portal d_skip]; auto.
    + rewrite pnames_app. cbn. exact HS'.
    + lia.
    + intros n0 [<-|Hn0].
      * exists g, st. rewrite alookup_ainsert_eq. split; [reflexivity | exact Hgtl].
      * destruct (Nat.eq_dec n0 n) as [->|Hne]; [exists g, st; rewrite alookup_ainsert_eq; split; [reflexivity | exact Hgtl]|].
        rewrite alookup_ainsert_neq by assumption. destruct (Htouch n0 Hn0) as (g0 & st0 & A & B). exists g0, st0. split; auto.
    + intros x Hx. rewrite refs_app in Hx. apply in_app_iff in Hx as [Hx|[<-|[]]]; auto.
    + apply fwd_good_snoc.
      * eapply fwd_good_ext; [|exact Hfwd]. intros x Hx. cbn. rewrite Hframe; [tauto | auto].
      * split; [|split; [|split]]; auto.
        -- rewrite (si_pend _ _ _ _ _ _ HS'); [congruence | apply in_app_iff; right; left; reflexivity].
        -- intros X. apply Em. apply in_app_iff. left. apply Hrefs. apply pnames_refs. exact X.
    + apply fexec_ok_app; [exact Hexec | intros p0 [X|X]; discriminate].
    + rewrite fportal_app. cbn. exact Hport.
    + rewrite fexp_app. cbn [fexp]. rewrite app_assoc. apply norm_snoc_congr. exact Hnorm.
Qed.

(* Bind and Describe share everything up to the message appended *)
Lemma li_ensure a M d n os its known b tl rest drs g st :
  LI K gd Mf a M d os its known b tl rest drs ->
  nth_error gd g = Some st -> (In g tl \/ 0 < b) ->
  exists tl1 rest1, kind K st = Good /\
    a_map (ensure K a n g st) = a_map a /\ a_fwd (ensure K a n g st) = a_fwd a /\ a_syn (ensure K a n g st) = a_syn a /\
    SInv K gd (a_sv (ensure K a n g st)) tl1 rest1 (pnames (a_fwd a)) /\ length tl1 <= S (length tl) /\ In g tl1 /\ (forall x, In x tl -> In x tl1) /\
    fwd_good K gd (fun x => alookup x (btab (a_sv (ensure K a n g st))) <> None) (a_fwd a) /\
    (alookup g (btab (a_sv (ensure K a n g st))) <> None \/ In g (pnames (a_fwd a))) /\
    (In g tl -> length tl1 <= length tl).
Proof.
  intros [Hbrel Hok Hskip Hnj Hmap Hsrv Hbud Htouch Hrefs Hfwd Hexec Hport Hpg Hnorm] Hgd Hb.
  unfold ensure.
  assert (Hroom : In g (tl ++ rest) \/ length tl < cs K) by (destruct Hb as [X|X]; [left; apply in_app_iff; auto | right; lia]).
  destruct (register_good K gd univ (a_sv a) tl rest (pnames (a_fwd a)) g st true Hcs Hgood Hsrv Hroom Hgd ltac:(discriminate))
    as (sv' & tl' & rest' & Hreg & HS' & Hgtl & Hsub & Hl & Hframe & Hdef & Hsame).
  rewrite Hreg. exists tl', rest'. cbn [a_map a_sv a_pl a_fwd a_syn].
  split; [eapply gd_good_kind; eauto|].
  split; [reflexivity|]. split; [reflexivity|]. split; [reflexivity|]. split; [exact HS'|]. split; [exact Hl|].
  split; [exact Hgtl|]. split; [exact Hsub|]. split; [|split; [apply Hdef; reflexivity | exact Hsame]].
  eapply fwd_good_ext; [|exact Hfwd]. intros x Hx'. cbn. rewrite Hframe; [tauto | auto].
Qed.

Lemma li_step_bind a M d c p n os g st n' p' its known b tl rest drs :
  LI K gd Mf a M d (Bind c p n :: os) (IBind g st n' p' :: its) known b tl rest drs ->
  exists tl1 rest1,
    LI K gd Mf (sitem K a (IBind g st n' p')) M (fst (dstep K d (Bind c p n))) os its (n :: known) (if mem n known then b else b - 1) tl1 rest1
       (drs ++ snd (dstep K d (Bind c p n))).
Proof.
  intros HLI. pose proof HLI as [Hbrel Hok Hskip Hnj Hmap Hsrv Hbud Htouch Hrefs Hfwd Hexec Hport Hpg Hnorm].
  cbn in Hbrel. destruct Hbrel as ((-> & ->) & HM & Hgd & Hbrel). cbn [batch_ok] in Hok.
  assert (Hst : alookup n (d_tab d) = Some st).
  { pose proof (Hnj n) as X. unfold mapx in X. rewrite HM in X. cbn in X. congruence. }
  rewrite Hst in Hok.
  apply andb3 in Hok as (Hl & Hb & Hok).
  assert (Hb' : (mem n known = true /\ In g tl) \/ (mem n known = false /\ 0 < b)).
  { destruct (mem n known) eqn:Em.
    - left. split; auto. apply mem_In in Em. destruct (Htouch n Em) as (g0 & st1 & A & B). rewrite HM in A. inversion A; subst. exact B.
    - right. split; auto. cbn in Hb. destruct b; [discriminate | lia]. }
  assert (Hb2 : In g tl \/ 0 < b) by (destruct Hb' as [[_ X]|[_ X]]; auto).
  destruct (li_ensure a M d n _ _ known b tl rest drs g st HLI Hgd Hb2)
    as (tl1 & rest1 & Hk & Ea & Ef & Es & HS' & Hlen & Hgtl & Hsub & Hfg & Hdef & Hsame).
  cbn [sitem]. exists tl1, rest1.
  unfold dstep. rewrite Hskip, Hst. cbn [fst snd].
  constructor; cbn [a_map a_sv a_pl a_fwd a_syn d_tab d_portal d_skip]; auto.
  - rewrite Ea. exact Hmap.
  - rewrite Ef, pnames_app. cbn. rewrite app_nil_r. exact HS'.
  - destruct Hb' as [[Em X]|[Em X]]; rewrite Em; [specialize (Hsame X); lia | lia].
  - intros n0 [<-|Hn0].
    + exists g, st. split; [exact HM | exact Hgtl].
    + destruct (Htouch n0 Hn0) as (g0 & st1 & A & B). exists g0, st1. split; auto.
  - intros x Hx. rewrite Ef, refs_app in Hx. apply in_app_iff in Hx as [Hx|[<-|[]]]; auto.
  - rewrite Ef. apply fwd_good_snoc; auto.
  - rewrite Ef. apply fexec_ok_app; [exact Hexec | intros p0 [X|X]; discriminate].
  - rewrite Ef, fportal_app. cbn [fportal]. rewrite Hport, (nth_of_gd _ _ _ Hgd). reflexivity.
  - apply pt_good_insert; auto.
  - rewrite Ef, Es, fexp_app. cbn [fexp]. rewrite app_assoc. apply norm_snoc_congr. exact Hnorm.
Qed.

Lemma li_step_desc a M d c n os g st n' its known b tl rest drs :
  LI K gd Mf a M d (Describe c n :: os) (IDesc g st n' :: its) known b tl rest drs ->
  exists tl1 rest1,
    LI K gd Mf (sitem K a (IDesc g st n')) M (fst (dstep K d (Describe c n))) os its (n :: known) (if mem n known then b else b - 1) tl1 rest1
       (drs ++ snd (dstep K d (Describe c n))).
Proof.
  intros HLI. pose proof HLI as [Hbrel Hok Hskip Hnj Hmap Hsrv Hbud Htouch Hrefs Hfwd Hexec Hport Hpg Hnorm].
  cbn in Hbrel. destruct Hbrel as (-> & HM & Hgd & Hbrel). cbn [batch_ok] in Hok.
  apply andb3 in Hok as (Hl & Hb & Hok).
  assert (Hst : alookup n (d_tab d) = Some st).
  { pose proof (Hnj n) as X. unfold mapx in X. rewrite HM in X. cbn in X. congruence. }
  assert (Hb' : (mem n known = true /\ In g tl) \/ (mem n known = false /\ 0 < b)).
  { destruct (mem n known) eqn:Em.
    - left. split; auto. apply mem_In in Em. destruct (Htouch n Em) as (g0 & st1 & A & B). rewrite HM in A. inversion A; subst. exact B.
    - right. split; auto. cbn in Hb. destruct b; [discriminate | lia]. }
  assert (Hb2 : In g tl \/ 0 < b) by (destruct Hb' as [[_ X]|[_ X]]; auto).
  destruct (li_ensure a M d n _ _ known b tl rest drs g st HLI Hgd Hb2)
    as (tl1 & rest1 & Hk & Ea & Ef & Es & HS' & Hlen & Hgtl & Hsub & Hfg & Hdef & Hsame).
  cbn [sitem]. exists tl1, rest1.
  unfold dstep. rewrite Hskip, Hst. cbn [fst snd].
  constructor; cbn [a_map a_sv a_pl a_fwd a_syn d_tab d_portal d_skip]; auto.
  - rewrite Ea. exact Hmap.
  - rewrite Ef, pnames_app. cbn. rewrite app_nil_r. exact HS'.
  - destruct Hb' as [[Em X]|[Em X]]; rewrite Em; [specialize (Hsame X); lia | lia].
  - intros n0 [<-|Hn0].
    + exists g, st. split; [exact HM | exact Hgtl].
    + destruct (Htouch n0 Hn0) as (g0 & st1 & A & B). exists g0, st1. split; auto.
  - intros x Hx. rewrite Ef, refs_app in Hx. apply in_app_iff in Hx as [Hx|[<-|[]]]; auto.
  - rewrite Ef. apply fwd_good_snoc; auto.
  - rewrite Ef. apply fexec_ok_app; [exact Hexec | intros p0 [X|X]; discriminate].
  - rewrite Ef, fportal_app. cbn. exact Hport.
  - rewrite Ef, Es, fexp_app. cbn [fexp]. rewrite (nth_of_gd _ _ _ Hgd). rewrite app_assoc. apply norm_snoc_congr. exact Hnorm.
Qed.

Lemma li_step_exec a M d c p p' os its known b tl rest drs :
  LI K gd Mf a M d (Execute c p :: os) (IExec p' :: its) known b tl rest drs ->
  LI K gd Mf (sitem K a (IExec p')) M (fst (dstep K d (Execute c p))) os its known b tl rest (drs ++ snd (dstep K d (Execute c p))).
Proof.
  intros [Hbrel Hok Hskip Hnj Hmap Hsrv Hbud Htouch Hrefs Hfwd Hexec Hport Hpg Hnorm].
  cbn in Hbrel. destruct Hbrel as (-> & Hbrel). cbn [batch_ok] in Hok. rewrite !andb_true_iff in Hok. destruct Hok as (Hpf & Hok).
  destruct (alookup p (d_portal d)) as [st|] eqn:Ep; [|discriminate].
  pose proof (Hpg p st Ep) as Hk.
  cbn [sitem].
  unfold dstep. rewrite Hskip, Ep, Hk. cbn [fst snd].
  constructor; cbn [a_map a_sv a_pl a_fwd a_syn d_tab d_portal d_skip].
  - exact Hbrel.
  - exact Hok.
  - exact Hskip.
  - exact Hnj.
  - exact Hmap.
  - rewrite pnames_app. cbn. rewrite app_nil_r. exact Hsrv.
  - exact Hbud.
  - exact Htouch.
  - intros x Hx. rewrite refs_app in Hx. apply in_app_iff in Hx as [Hx|[]]; auto.
  - apply fwd_good_snoc; [exact Hfwd | exact I].
  - apply fexec_ok_app; [exact Hexec|]. intros p0 [X|X]; inversion X; subst. rewrite Hport, Ep. discriminate.
  - rewrite fportal_app. cbn. exact Hport.
  - exact Hpg.
  - rewrite fexp_app. cbn [fexp]. rewrite Hport, Ep. cbn [prep]. rewrite app_assoc. apply norm_snoc_congr. exact Hnorm.
Qed.

Lemma li_step_descp a M d c p p' os its known b tl rest drs :
  LI K gd Mf a M d (DescribeP c p :: os) (IDescP p' :: its) known b tl rest drs ->
  LI K gd Mf (sitem K a (IDescP p')) M (fst (dstep K d (DescribeP c p))) os its known b tl rest (drs ++ snd (dstep K d (DescribeP c p))).
Proof.
  intros [Hbrel Hok Hskip Hnj Hmap Hsrv Hbud Htouch Hrefs Hfwd Hexec Hport Hpg Hnorm].
  cbn in Hbrel. destruct Hbrel as (-> & Hbrel). cbn [batch_ok] in Hok. rewrite !andb_true_iff in Hok. destruct Hok as (Hpf & Hok).
  destruct (alookup p (d_portal d)) as [st|] eqn:Ep; [|discriminate].
  cbn [sitem].
  unfold dstep. rewrite Hskip, Ep. cbn [fst snd].
  constructor; cbn [a_map a_sv a_pl a_fwd a_syn d_tab d_portal d_skip].
  - exact Hbrel.
  - exact Hok.
  - exact Hskip.
  - exact Hnj.
  - exact Hmap.
  - rewrite pnames_app. cbn. rewrite app_nil_r. exact Hsrv.
  - exact Hbud.
  - exact Htouch.
  - intros x Hx. rewrite refs_app in Hx. apply in_app_iff in Hx as [Hx|[]]; auto.
  - apply fwd_good_snoc; [exact Hfwd | exact I].
  - apply fexec_ok_app; [exact Hexec|]. intros p0 [X|X]; inversion X; subst. rewrite Hport, Ep. discriminate.
  - rewrite fportal_app. cbn. exact Hport.
  - exact Hpg.
  - rewrite fexp_app. cbn [fexp]. rewrite Hport, Ep. cbn [prep]. rewrite app_assoc. apply norm_snoc_congr. exact Hnorm.
Qed.

(* Close of a PORTAL: forwarded; neither the client map nor anything about statements changes *)
Lemma li_step_closep a M d c p p' os its known b tl rest drs :
  LI K gd Mf a M d (CloseP c p :: os) (IClosePortal p' :: its) known b tl rest drs ->
  LI K gd Mf (sitem K a (IClosePortal p')) M (fst (dstep K d (CloseP c p))) os its known b tl rest (drs ++ snd (dstep K d (CloseP c p))).
Proof.
  intros [Hbrel Hok Hskip Hnj Hmap Hsrv Hbud Htouch Hrefs Hfwd Hexec Hport Hpg Hnorm].
  cbn in Hbrel. destruct Hbrel as (-> & Hbrel). cbn [batch_ok] in Hok.
  cbn [sitem].
  unfold dstep. rewrite Hskip. cbn [fst snd].
  constructor; cbn [a_map a_sv a_pl a_fwd a_syn d_tab d_portal d_skip].
  - exact Hbrel.
  - exact Hok.
  - reflexivity.
  - exact Hnj.
  - exact Hmap.
  - rewrite pnames_app. cbn. rewrite app_nil_r. exact Hsrv.
  - exact Hbud.
  - exact Htouch.
  - intros x Hx. rewrite refs_app in Hx. apply in_app_iff in Hx as [Hx|[]]; auto.
  - apply fwd_good_snoc; [exact Hfwd | exact I].
  - apply fexec_ok_app; [exact Hexec|]. intros p0 [X|X]; discriminate.
  - rewrite fportal_app. cbn [fportal]. rewrite Hport. reflexivity.
  - apply pt_good_remove. exact Hpg.
  - rewrite fexp_app. cbn [fexp]. rewrite app_assoc. apply norm_snoc_congr. exact Hnorm.
Qed.

Lemma li_step_close a M d c n os n' its known b tl rest drs :
  LI K gd Mf a M d (Close c n :: os) (IClose n' :: its) known b tl rest drs ->
  LI K gd Mf (sitem K a (IClose n')) (aremove n M) (fst (dstep K d (Close c n))) os its (remove_nat n known) b tl rest (drs ++ snd (dstep K d (Close c n))).
Proof.
  intros [Hbrel Hok Hskip Hnj Hmap Hsrv Hbud Htouch Hrefs Hfwd Hexec Hport Hpg Hnorm].
  cbn in Hbrel. destruct Hbrel as (-> & Hbrel). cbn [batch_ok] in Hok. rewrite !andb_true_iff in Hok. destruct Hok as (Hn0 & Hok).
  apply negb_true_iff in Hn0. rewrite Hn0 in Hbrel. cbn [sitem]. rewrite Hn0.
  unfold dstep. rewrite Hskip. cbn [fst snd].
  constructor; cbn [a_map a_sv a_pl a_fwd a_syn d_tab d_portal d_skip]; auto.
  - apply NJ_close. exact Hnj.
  - intros n1 Hq. apply remove_nat_In in Hq as [Hq Hne]. rewrite alookup_aremove_neq by assumption. apply Htouch. exact Hq.
  - rewrite <- app_assoc. cbn [app]. rewrite norm_move by reflexivity. apply norm_snoc_congr. exact Hnorm.
Qed.

(* the whole pass *)
Lemma sitems_sim : forall os its a M d known b tl rest drs,
  LI K gd Mf a M d os its known b tl rest drs ->
  exists known' b' tl' rest',
    LI K gd Mf (sitems K a its) Mf (fst (drun K d os)) [] [] known' b' tl' rest' (drs ++ snd (drun K d os)).
Proof.
  induction os as [|o os IH]; intros its a M d known b tl rest drs HLI.
  - pose proof (li_brel _ _ _ _ _ _ _ _ _ _ _ _ _ HLI) as Hb. destruct its; [|destruct Hb]. cbn in Hb. subst.
    exists known, b, tl, rest. cbn. rewrite app_nil_r. exact HLI.
  - pose proof (li_brel _ _ _ _ _ _ _ _ _ _ _ _ _ HLI) as Hb.
    destruct its as [|it its]; [destruct o; destruct Hb|].
    cbn [drun]. unfold sitems. cbn [fold_left]. fold (sitems K (sitem K a it) its).
    destruct o; destruct it; cbn in Hb; try contradiction.
    + destruct Hb as (-> & _). destruct (li_step_parse _ _ _ _ _ _ _ _ _ _ _ _ _ _ _ HLI) as (tl1 & rest1 & HLI1).
      destruct (dstep K d (Parse c n st)) as [d1 o1] eqn:Ed. cbn [fst snd] in HLI1.
      destruct (IH _ _ _ _ _ _ _ _ _ HLI1) as (known' & b' & tl' & rest' & HLI').
      destruct (drun K d1 os) as [d2 o2]. cbn [fst snd] in *. rewrite <- app_assoc in HLI'. eauto 10.
    + destruct Hb as ((-> & ->) & _). destruct (li_step_bind _ _ _ _ _ _ _ _ _ _ _ _ _ _ _ _ _ HLI) as (tl1 & rest1 & HLI1).
      destruct (dstep K d (Bind c p n)) as [d1 o1] eqn:Ed. cbn [fst snd] in HLI1.
      destruct (IH _ _ _ _ _ _ _ _ _ HLI1) as (known' & b' & tl' & rest' & HLI').
      destruct (drun K d1 os) as [d2 o2]. cbn [fst snd] in *. rewrite <- app_assoc in HLI'. eauto 10.
    + destruct (li_step_desc _ _ _ _ _ _ _ _ _ _ _ _ _ _ _ HLI) as (tl1 & rest1 & HLI1).
      destruct (dstep K d (Describe c n)) as [d1 o1] eqn:Ed. cbn [fst snd] in HLI1.
      destruct (IH _ _ _ _ _ _ _ _ _ HLI1) as (known' & b' & tl' & rest' & HLI').
      destruct (drun K d1 os) as [d2 o2]. cbn [fst snd] in *. rewrite <- app_assoc in HLI'. eauto 10.
    + pose proof (li_step_descp _ _ _ _ _ _ _ _ _ _ _ _ _ HLI) as HLI1.
      destruct (dstep K d (DescribeP c p)) as [d1 o1] eqn:Ed. cbn [fst snd] in HLI1.
      destruct (IH _ _ _ _ _ _ _ _ _ HLI1) as (known' & b' & tl' & rest' & HLI').
      destruct (drun K d1 os) as [d2 o2]. cbn [fst snd] in *. rewrite <- app_assoc in HLI'. eauto 10.
    + pose proof (li_step_exec _ _ _ _ _ _ _ _ _ _ _ _ _ HLI) as HLI1.
      destruct (dstep K d (Execute c p)) as [d1 o1] eqn:Ed. cbn [fst snd] in HLI1.
      destruct (IH _ _ _ _ _ _ _ _ _ HLI1) as (known' & b' & tl' & rest' & HLI').
      destruct (drun K d1 os) as [d2 o2]. cbn [fst snd] in *. rewrite <- app_assoc in HLI'. eauto 10.
    + destruct Hb as (-> & _). pose proof (li_step_close _ _ _ _ _ _ _ _ _ _ _ _ _ HLI) as HLI1.
      destruct (dstep K d (Close c n)) as [d1 o1] eqn:Ed. cbn [fst snd] in HLI1.
      destruct (IH _ _ _ _ _ _ _ _ _ HLI1) as (known' & b' & tl' & rest' & HLI').
      destruct (drun K d1 os) as [d2 o2]. cbn [fst snd] in *. rewrite <- app_assoc in HLI'. eauto 10.
    + pose proof (li_step_closep _ _ _ _ _ _ _ _ _ _ _ _ _ HLI) as HLI1.
      destruct (dstep K d (CloseP c p)) as [d1 o1] eqn:Ed. cbn [fst snd] in HLI1.
      destruct (IH _ _ _ _ _ _ _ _ _ HLI1) as (known' & b' & tl' & rest' & HLI').
      destruct (drun K d1 os) as [d2 o2]. cbn [fst snd] in *. rewrite <- app_assoc in HLI'. eauto 10.
Qed.

End Loop.


(** * Part B6 — the refinement invariant and the main induction *)

Definition SrvInv (K : cfg) (sv : server) : Prop :=
  NoDup (lru sv) /\ length (lru sv) <= cs K /\ (forall g, In g (lru sv) <-> alookup g (btab sv) <> None).

Definition crel (gd : list nat) (tab : list (nat * nat)) (buf : list op) (cm : cmapT) (cb : list item) : Prop :=
  exists M0, NJ M0 tab /\ brel gd M0 buf cb cm.

Definition GInv (K : cfg) (univ : list nat) (w : world) (S : spec_state) : Prop :=
  WInv K w /\ gd_good K univ (gdef w) /\ (forall s, SrvInv K (servers w s)) /\
  (forall c, alive (clients w c) = true /\ crel (gdef w) (s_tab (S c)) (s_buf (S c)) (cmap (clients w c)) (cbuf (clients w c))).

Lemma brun_app K x : forall b y, brun K b (x ++ y) =
  let '(b1, o1) := brun K b x in let '(b2, o2) := brun K b1 y in (b2, o1 ++ o2).
Proof.
  induction x as [|m x IH]; intros b y; cbn [app brun].
  - destruct (brun K b y); reflexivity.
  - destruct (bstep K b m) as [b1 o1]. rewrite IH. destruct (brun K b1 x) as [b2 o2]. destruct (brun K b2 y) as [b3 o3].
    rewrite app_assoc. reflexivity.
Qed.

(* sending the batch at the end of the 'S' arm *)
Lemma final_exchange K gd univ sv tl rest fwd :
  gd_good K univ gd -> SInv K gd sv tl rest (pnames fwd) ->
  fwd_good K gd (fun g => alookup g (btab sv) <> None) fwd -> fexec_ok gd [] fwd ->
  exists sv', exchange K sv fwd = (sv', fexp gd [] fwd ++ [RZ]) /\ SrvInv K sv' /\ tab_ok gd (btab sv').
Proof.
  intros Hg [H1 H2 H3 H4 H5 H6 H7] Hf He. unfold exchange.
  destruct (brun_good K gd fwd (btab sv) [] H7 (tab_good_of K univ gd _ Hg H7) Hf He ltac:(intros ? ? X; discriminate))
    as (t' & Hr & Ht' & _ & Hd & Hrows).
  rewrite brun_app, Hr. cbn [brun bstep b_tab app].
  assert (Hne : quiet K (fexp gd [] fwd ++ [RZ])).
  { split.
    - intros X. apply in_app_iff in X as [X|[X|[]]]; [|discriminate]. revert X. apply (fexp_noerr gd fwd []). exact He.
    - intros st X. apply in_app_iff in X as [X|[X|[]]]; [auto | discriminate]. }
  destruct (recv_same K (lru sv) (queue sv) _ Hne) as [q' Hq]. rewrite Hq.
  eexists. split; [reflexivity|]. split; [|exact Ht']. unfold SrvInv. cbn [lru btab]. rewrite H1. split; [exact H2|]. split; [exact H3|].
  intros g. rewrite H4. symmetry. apply Hd.
Qed.

Lemma spec_step_other K S o c : op_client o <> Some c -> fst (spec_step K S o) c = S c.
Proof.
  intros H. destruct o; cbn in *; try (rewrite upd_other; [reflexivity | congruence]); try reflexivity.
  destruct (drun K _ _). cbn. rewrite upd_other; [reflexivity | congruence].
Qed.

Lemma nth_error_app_mono {A} (l x : list A) g v : nth_error l g = Some v -> nth_error (l ++ x) g = Some v.
Proof. intros H. rewrite nth_error_app1; auto. apply nth_error_Some. congruence. Qed.

Section Main.
Variable K : cfg.
Variable univ : list nat.
Hypothesis Hcs : 0 < cs K.
Hypothesis Hinj : forall a b, In a univ -> In b univ -> hash K a = hash K b -> a = b.

(** ** Sync *)
Lemma sync_step w S c s :
  GInv K univ w S -> batch_ok K (s_tab (S c)) [] [] (cs K) (s_buf (S c)) = true ->
  map norm_obs (snd (step K w (Sync c s))) = map norm_obs (snd (spec_step K S (Sync c s))) /\
  GInv K univ (fst (step K w (Sync c s))) (fst (spec_step K S (Sync c s))).
Proof.
  intros HG Hb. pose proof HG as (HW & Hgood & Hsrv & Hcl).
  pose proof (winv_step K w (Sync c s) HW) as HW'.
  destruct (Hcl c) as [Hal (M0 & HM0 & Hbrel)].
  pose proof HW as (_ & HWc & HWs).
  assert (HLI : LI K (gdef w) (cmap (clients w c)) (mkAcc (cmap (clients w c)) (servers w s) (plru w) [] []) M0
                   (mkD (s_tab (S c)) [] false) (s_buf (S c)) (cbuf (clients w c)) [] (cs K) [] (lru (servers w s)) []).
  { destruct (Hsrv s) as (Hnd & Hlen & Hdom).
    constructor; cbn [a_map a_sv a_pl a_fwd a_syn d_tab d_portal d_skip pnames refs flat_map fwd_good fexec_ok fportal fexp app length].
    - exact Hbrel.
    - exact Hb.
    - reflexivity.
    - exact HM0.
    - reflexivity.
    - constructor; cbn [app].
      + reflexivity.
      + exact Hnd.
      + exact Hlen.
      + intros g. rewrite Hdom. tauto.
      + intros ? [].
      + intros ? [].
      + apply HWs.
    - lia.
    - intros ? [].
    - intros ? [].
    - exact I.
    - exact I.
    - reflexivity.
    - intros ? ? X; discriminate.
    - reflexivity. }
  destruct (sitems_sim K (gdef w) univ (cmap (clients w c)) Hcs Hgood _ _ _ _ _ _ _ _ _ _ HLI)
    as (known' & b' & tl' & rest' & HLI').
  cbn [app] in HLI'.
  cbn [step spec_step] in *. rewrite Hal in *. cbn [negb] in *.
  set (a' := sitems K (mkAcc (cmap (clients w c)) (servers w s) (plru w) [] []) (cbuf (clients w c))) in *.
  destruct (drun K (mkD (s_tab (S c)) [] false) (s_buf (S c))) as [d' rs] eqn:Ed. cbn [fst snd] in HLI'.
  pose proof HLI' as [Lbrel Lok Lskip Lnj Lmap Lsrv Lbud Ltouch Lrefs Lfwd Lexec Lport Lpg Lnorm].
  cbn in Lbrel.
  assert (Hcrel : crel (gdef w) (d_tab d') [] (a_map a') []).
  { exists (a_map a'). split; [|reflexivity]. rewrite Lmap. exact Lnj. }
  assert (Hfin : forall sv' (w' : world),
             clients w' = upd (clients w) c (mkClient (a_map a') [] true) -> servers w' = upd (servers w) s sv' ->
             gdef w' = gdef w -> WInv K w' -> SrvInv K sv' ->
             GInv K univ w' (upd S c (mkS (d_tab d') [] true))).
  { intros sv' w' Ec Es Eg HWw HSv. unfold GInv. csplits; auto.
    - rewrite Eg. exact Hgood.
    - intros s0. rewrite Es. unfold upd. destruct (s0 =? s); auto.
    - intros c0. rewrite Ec, Eg. unfold upd. destruct (c0 =? c) eqn:E; cbn; auto. }
  destruct (a_fwd a') as [|m0 f0] eqn:Ef.
  - cbn [fst snd map norm_obs] in *. split.
    + f_equal. f_equal. cbn [fexp] in Lnorm. rewrite app_nil_r in Lnorm. apply norm_snoc_congr. exact Lnorm.
    + apply (Hfin (a_sv a')); auto.
      destruct Lsrv as [H1 H2 H3 H4 H5 H6 H7]. unfold SrvInv. rewrite H1. csplits; auto.
      intros g. rewrite H4. cbn. tauto.
  - destruct (final_exchange K (gdef w) univ (a_sv a') tl' rest' (m0 :: f0) Hgood Lsrv Lfwd Lexec) as (sv' & Hx & HSv & _).
    rewrite Hx in *. cbn [fst snd map norm_obs] in *. split.
    + f_equal. f_equal. rewrite app_assoc. apply norm_snoc_congr. exact Lnorm.
    + apply (Hfin sv'); auto.
Qed.

Lemma batch_ok_sync tab ment pf b buf c s :
  batch_ok K tab ment pf b (buf ++ [Sync c s]) = batch_ok K tab ment pf b buf.
Proof.
  revert tab ment pf b. induction buf as [|o r IH]; intros; cbn; [reflexivity|].
  destruct o; rewrite ?IH; try reflexivity. destruct (alookup n tab); [rewrite IH|]; reflexivity.
Qed.

(* what the guard says about the op being buffered *)
Lemma last_op_facts gd M0 os its Mf tab b o :
  brel gd M0 os its Mf -> NJ M0 tab ->
  batch_ok K tab [] [] b (os ++ [o]) = true ->
  match o with Parse _ _ st => kind K st = Good | Close _ n => n <> 0 | _ => True end.
Proof.
  intros H H0 Hb.
  destruct (walk K gd os M0 its Mf tab [] [] b [o] H H0 Hb) as (tab' & known' & pf' & b' & _ & Hb').
  destruct o; auto; cbn [batch_ok] in Hb'.
  2:{ rewrite !andb_true_iff in Hb'. destruct Hb' as (Hn & _). apply negb_true_iff in Hn. apply Nat.eqb_neq in Hn. exact Hn. }
  apply andb3 in Hb' as (Hk & _).
  destruct (kind K st); congruence.
Qed.

Lemma pool_gdef_cases w st w' g st' : pool_get_or_insert K w st = (w', (g, st')) ->
  (gdef w' = gdef w /\ exists h, In (h, (g, st')) (plru w)) \/ (gdef w' = gdef w ++ [st] /\ st' = st).
Proof.
  unfold pool_get_or_insert. destruct (alookup (hash K st) (plru w)) as [[g0 st0]|] eqn:E; intros H; inversion H; subst; cbn.
  - left. split; auto. exists (hash K st). apply alookup_In. exact E.
  - right. auto.
Qed.

Lemma crel_mono gd gd' tab buf cm cb : (forall g st, nth_error gd g = Some st -> nth_error gd' g = Some st) ->
  crel gd tab buf cm cb -> crel gd' tab buf cm cb.
Proof. intros Hm (M0 & H0 & Hb). exists M0. split; auto. eapply brel_mono; eauto. Qed.

Lemma ginv_buffer w S c o it cm' (w1 : world) :
  GInv K univ w S -> op_client o = Some c -> (match o with Sync _ _ => False | _ => True end) ->
  WInv K w1 -> gd_good K univ (gdef w1) -> servers w1 = servers w ->
  (forall g st, nth_error (gdef w) g = Some st -> nth_error (gdef w1) g = Some st) ->
  clients w1 = upd (clients w) c (mkClient cm' (cbuf (clients w c) ++ [it]) true) ->
  snoc_ok (gdef w1) (cmap (clients w c)) o it cm' ->
  GInv K univ w1 (fst (spec_step K S o)).
Proof.
  intros (HW & Hgood & Hsrv & Hcl) Hoc Hns HW1 Hg1 Hs1 Hmono Hc1 Hsn.
  unfold GInv. csplits; auto.
  - intros s. rewrite Hs1. apply Hsrv.
  - intros c0. rewrite Hc1. unfold upd. destruct (c0 =? c) eqn:E.
    + apply Nat.eqb_eq in E. subst c0. cbn [alive cmap cbuf]. split; [reflexivity|].
      destruct (Hcl c) as [_ (M0 & H0 & Hb)].
      assert (Es : fst (spec_step K S o) c = mkS (s_tab (S c)) (s_buf (S c) ++ [o]) true).
      { destruct o; cbn in Hoc; inversion Hoc; subst; cbn; try rewrite upd_same; try reflexivity. contradiction. }
      rewrite Es. cbn [s_tab s_buf]. exists M0. split; auto.
      eapply brel_snoc; [eapply brel_mono; eauto | exact Hsn].
    + apply Nat.eqb_neq in E. rewrite spec_step_other by congruence. destruct (Hcl c0) as [Ha Hr]. split; auto.
      eapply crel_mono; eauto.
Qed.

Lemma ginv_step w S o :
  GInv K univ w S ->
  (forall st, In st (stmts_of [o]) -> In st univ) ->
  (match op_client o with
   | Some c => batch_ok K (s_tab (S c)) [] [] (cs K) (s_buf (S c) ++ [o]) = true
   | None => True end) ->
  map norm_obs (snd (step K w o)) = map norm_obs (snd (spec_step K S o)) /\
  GInv K univ (fst (step K w o)) (fst (spec_step K S o)).
Proof.
  intros HG Hu Hb. pose proof HG as (HW & Hgood & Hsrv & Hcl).
  pose proof (winv_step K w o HW) as HW'.
  destruct o as [c n st|c p n|c n|c p|c p|c n|c p|c s|s]; cbn [op_client] in Hb.
  - (* Parse *)
    destruct (Hcl c) as [Hal (M0 & H0 & Hbrel)].
    pose proof (last_op_facts _ _ _ _ _ _ _ _ Hbrel H0 Hb) as Hk. cbn in Hk.
    cbn [step] in *. rewrite Hal in *. cbn [negb] in *.
    destruct (pool_get_or_insert K w st) as [w1 [g st']] eqn:Ep.
    destruct (pool_get_or_insert_ok K w st w1 g st' HW Ep) as (Hp1 & Hg & Hh & Hc1 & Hs1 & _ & Hmono).
    assert (Hst : In st univ) by (apply Hu; cbn; auto).
    assert (Hst' : st' = st /\ gd_good K univ (gdef w1)).
    { destruct (pool_gdef_cases w st w1 g st' Ep) as [[Eg [h Hin]]|[Eg Est]].
      - split; [|rewrite Eg; exact Hgood]. apply Hinj; auto.
        destruct HW as (Hpool & _). destruct (Hpool _ _ _ Hin) as [Hgd _].
        apply nth_error_In in Hgd. unfold gd_good in Hgood. rewrite Forall_forall in Hgood. apply Hgood. exact Hgd.
      - split; [exact Est|]. rewrite Eg. unfold gd_good. apply Forall_app. split; [exact Hgood | repeat constructor; auto]. }
    destruct Hst' as [-> Hgood1].
    cbn [fst snd] in *. split; [reflexivity|].
    eapply (ginv_buffer w S c (Parse c n st) (IParse g st)); eauto; cbn; auto.
    rewrite Hc1. reflexivity.
  - (* Bind *)
    destruct (Hcl c) as [Hal (M0 & H0 & Hbrel)].
    destruct (buffered_lookup K _ _ _ _ _ _ _ n (Bind c p n) ltac:(exists c; left; exists p; reflexivity) Hbrel H0 Hb) as (g & st & Hl).
    assert (Hgd : nth_error (gdef w) g = Some st) by (destruct HW as (_ & HWc & _); eapply (proj1 (HWc c)); apply alookup_In; exact Hl).
    cbn [step] in *. rewrite Hal in *. cbn [negb] in *. rewrite Hl in *. cbn [fst snd] in *. split; [reflexivity|].
    eapply (ginv_buffer w S c (Bind c p n) (IBind g st n p)); eauto; cbn; auto.
  - (* Describe *)
    destruct (Hcl c) as [Hal (M0 & H0 & Hbrel)].
    destruct (buffered_lookup K _ _ _ _ _ _ _ n (Describe c n) ltac:(exists c; right; reflexivity) Hbrel H0 Hb) as (g & st & Hl).
    assert (Hgd : nth_error (gdef w) g = Some st) by (destruct HW as (_ & HWc & _); eapply (proj1 (HWc c)); apply alookup_In; exact Hl).
    cbn [step] in *. rewrite Hal in *. cbn [negb] in *. rewrite Hl in *. cbn [fst snd] in *. split; [reflexivity|].
    eapply (ginv_buffer w S c (Describe c n) (IDesc g st n)); eauto; cbn; auto.
  - (* Describe portal *)
    destruct (Hcl c) as [Hal _].
    cbn [step] in *. rewrite Hal in *. cbn [negb fst snd] in *. split; [reflexivity|].
    eapply (ginv_buffer w S c (DescribeP c p) (IDescP p)); eauto; cbn; eauto.
  - (* Execute *)
    destruct (Hcl c) as [Hal _].
    cbn [step] in *. rewrite Hal in *. cbn [negb fst snd] in *. split; [reflexivity|].
    eapply (ginv_buffer w S c (Execute c p) (IExec p)); eauto; cbn; eauto.
  - (* Close *)
    destruct (Hcl c) as [Hal _].
    cbn [step] in *. rewrite Hal in *. cbn [negb fst snd] in *. split; [reflexivity|].
    eapply (ginv_buffer w S c (Close c n) (IClose n)); eauto; cbn; eauto.
  - (* Close portal *)
    destruct (Hcl c) as [Hal _].
    cbn [step] in *. rewrite Hal in *. cbn [negb fst snd] in *. split; [reflexivity|].
    eapply (ginv_buffer w S c (CloseP c p) (IClosePortal p)); eauto; cbn; eauto.
  - (* Sync *)
    rewrite batch_ok_sync in Hb. apply sync_step; auto.
  - (* Cleanup *)
    cbn [step spec_step fst snd] in *. split; [reflexivity|].
    unfold GInv. csplits; auto.
    + intros s0. cbn. unfold upd. destruct (s0 =? s); auto. unfold SrvInv. cbn. csplits; [constructor | lia | intros g; split; [intros [] | intros X; congruence]].
Qed.

Lemma stmts_of_cons o r : stmts_of (o :: r) = stmts_of [o] ++ stmts_of r.
Proof. unfold stmts_of. cbn. rewrite app_nil_r. reflexivity. Qed.

Lemma ginv_run : forall ops w S,
  GInv K univ w S -> (forall st, In st (stmts_of ops) -> In st univ) -> guard_from K S ops = true ->
  map norm_obs (snd (run K w ops)) = map norm_obs (snd (spec_run K S ops)) /\
  GInv K univ (fst (run K w ops)) (fst (spec_run K S ops)).
Proof.
  induction ops as [|o r IH]; intros w S HG Hu Hg; cbn [run spec_run].
  - cbn. auto.
  - cbn [guard_from] in Hg. apply andb_prop in Hg as [Hg1 Hg2].
    rewrite stmts_of_cons in Hu.
    destruct (ginv_step w S o HG) as [Ho HG1].
    + intros st Hs. apply Hu. apply in_app_iff. auto.
    + destruct (op_client o); auto.
    + destruct (step K w o) as [w1 o1]. destruct (spec_step K S o) as [S1 p1]. cbn [fst snd] in *.
      destruct (IH w1 S1 HG1) as [Hr HG2]; auto.
      * intros st Hs. apply Hu. apply in_app_iff. auto.
      * destruct (run K w1 r) as [w2 o2]. destruct (spec_run K S1 r) as [S2 p2]. cbn [fst snd] in *.
        split; [rewrite !map_app; congruence | exact HG2].
Qed.

End Main.

Lemma ginv0 K univ : GInv K univ world0 (fun _ => sclient0).
Proof.
  unfold GInv. csplits.
  - apply winv0.
  - constructor.
  - intros s. unfold SrvInv. cbn. csplits; [constructor | lia | intros g; split; [intros [] | intros X; congruence]].
  - intros c. cbn. split; [reflexivity|]. exists []. split; [intros n; reflexivity | reflexivity].
Qed.

(** * The theorems *)

Theorem refines_direct : forall K ops,
  hash_collision_free K ops -> guard K ops = true -> model_obs K ops = spec_obs K ops.
Proof.
  intros K ops Hh Hg. unfold guard in Hg. apply andb_prop in Hg as [Hcs Hg]. apply Nat.ltb_lt in Hcs.
  unfold model_obs, spec_obs.
  destruct (ginv_run K (stmts_of ops) Hcs Hh ops world0 (fun _ => sclient0) (ginv0 K _)) as [H _]; auto.
Qed.

(** evicted statements are closed on the backend: after any guarded program every server's
    cache is exactly the set of names its backend holds, and it holds at most [cs] of them *)
Theorem evicted_closed : forall K ops w,
  hash_collision_free K ops -> guard K ops = true -> w = fst (run K world0 ops) ->
  forall s, NoDup (lru (servers w s)) /\ length (lru (servers w s)) <= cs K /\
            (forall g, In g (lru (servers w s)) <-> alookup g (btab (servers w s)) <> None) /\
            (forall g st, In (g, st) (btab (servers w s)) -> nth_error (gdef w) g = Some st).
Proof.
  intros K ops w Hh Hg -> s. unfold guard in Hg. apply andb_prop in Hg as [Hcs Hg]. apply Nat.ltb_lt in Hcs.
  destruct (ginv_run K (stmts_of ops) Hcs Hh ops world0 (fun _ => sclient0) (ginv0 K _)) as [_ (HW & _ & Hs & _)]; auto.
  destruct (Hs s) as (A & B & C). destruct HW as (_ & _ & Ht).
  split; [exact A|]. split; [exact B|]. split; [exact C|]. intros g st Hi. apply (Ht s). exact Hi.
Qed.


(** * Clients are independent *)
Definition obs_client (o : nobs) : nat := match o with NReplies c _ | NKilled c => c end.
Definition of_client (c : nat) (o : op) : bool := match op_client o with Some c' => c' =? c | None => false end.
Definition proj (c : nat) (ops : list op) : list op := filter (of_client c) ops.

Lemma filter_all {A} (f : A -> bool) l : (forall x, In x l -> f x = true) -> filter f l = l.
Proof. induction l as [|y l IH]; cbn; auto. intros H. rewrite (H y (or_introl eq_refl)). f_equal. apply IH. auto. Qed.
Lemma filter_none {A} (f : A -> bool) l : (forall x, In x l -> f x = false) -> filter f l = [].
Proof. induction l as [|y l IH]; cbn; auto. intros H. rewrite (H y (or_introl eq_refl)). apply IH. auto. Qed.

Lemma spec_step_local K S S' o c : op_client o = Some c -> S c = S' c ->
  snd (spec_step K S o) = snd (spec_step K S' o) /\ fst (spec_step K S o) c = fst (spec_step K S' o) c.
Proof.
  intros Ho E. destruct o; cbn in Ho; inversion Ho; subst; cbn; rewrite ?E; try (rewrite !upd_same; auto).
  destruct (drun K _ _). cbn. rewrite !upd_same. auto.
Qed.

Lemma spec_step_obs_client K S o x : In x (map norm_obs (snd (spec_step K S o))) -> op_client o = Some (obs_client x).
Proof.
  destruct o; cbn; try tauto. destruct (drun K _ _). cbn. intros [<-|[]]. reflexivity.
Qed.

Lemma spec_proj K c : forall ops S S', S c = S' c ->
  filter (fun o => obs_client o =? c) (map norm_obs (snd (spec_run K S ops))) = map norm_obs (snd (spec_run K S' (proj c ops))).
Proof.
  induction ops as [|o r IH]; intros S S' E; [reflexivity|].
  cbn [spec_run proj filter]. unfold of_client at 1.
  destruct (op_client o) as [c'|] eqn:Ho.
  - destruct (c' =? c) eqn:Ec.
    + apply Nat.eqb_eq in Ec. subst c'. cbn [spec_run].
      destruct (spec_step_local K S S' o c Ho E) as [E1 E2].
      destruct (spec_step K S o) as [S1 o1]. destruct (spec_step K S' o) as [S1' o1'] eqn:Es'. cbn [fst snd] in *. subst o1'.
      specialize (IH S1 S1' E2). fold (proj c r).
      destruct (spec_run K S1 r) as [S2 o2]. destruct (spec_run K S1' (proj c r)) as [S2' o2']. cbn [fst snd] in *.
      rewrite !map_app, filter_app, IH. f_equal.
      apply filter_all. intros x Hx.
      assert (Hc : op_client o = Some (obs_client x)).
      { apply (spec_step_obs_client K S' o x). rewrite Es'. exact Hx. }
      rewrite Ho in Hc. inversion Hc. apply Nat.eqb_refl.
    + apply Nat.eqb_neq in Ec. fold (proj c r).
      pose proof (spec_step_other K S o c ltac:(congruence)) as Eo.
      destruct (spec_step K S o) as [S1 o1] eqn:Es. cbn [fst snd] in *.
      assert (E' : S1 c = S' c) by congruence.
      specialize (IH S1 S' E').
      destruct (spec_run K S1 r) as [S2 o2]. cbn [fst snd] in *.
      rewrite map_app, filter_app, IH.
      rewrite filter_none; [reflexivity|]. intros x Hx.
      assert (Hc : op_client o = Some (obs_client x)) by (apply (spec_step_obs_client K S o x); rewrite Es; exact Hx).
      rewrite Ho in Hc. inversion Hc. apply Nat.eqb_neq. congruence.
  - fold (proj c r). destruct o; cbn in Ho; try discriminate. cbn [spec_step fst snd app].
    specialize (IH S S' E). destruct (spec_run K S r) as [S2 o2]. cbn [snd app] in *. exact IH.
Qed.

Lemma stmts_of_proj c ops st : In st (stmts_of (proj c ops)) -> In st (stmts_of ops).
Proof.
  unfold stmts_of, proj. rewrite !in_flat_map. intros [o [H1 H2]]. apply filter_In in H1 as [H1 _]. eauto.
Qed.

(** what client [c] observes in a multi-client program is what it observes alone *)
Theorem clients_independent : forall K ops c,
  hash_collision_free K ops -> guard K ops = true -> guard K (proj c ops) = true ->
  filter (fun o => obs_client o =? c) (model_obs K ops) = model_obs K (proj c ops).
Proof.
  intros K ops c Hh Hg Hgc.
  rewrite (refines_direct K ops Hh Hg).
  rewrite (refines_direct K (proj c ops)); [| |exact Hgc].
  - unfold spec_obs. apply spec_proj. reflexivity.
  - intros a b Ha Hb. apply Hh; apply (stmts_of_proj c); assumption.
Qed.

(** * Portals and statements are two name spaces *)
Theorem portal_close_inert : forall K w c p a b,
  (forall c', cmap (clients (fst (step K w (CloseP c p))) c') = cmap (clients w c')) /\
  servers (fst (step K w (CloseP c p))) = servers w /\
  plru (fst (step K w (CloseP c p))) = plru w /\
  a_map (sitem K a (IClosePortal p)) = a_map a /\
  a_sv (sitem K a (IClosePortal p)) = a_sv a /\
  a_fwd (sitem K a (IClosePortal p)) = a_fwd a ++ [BCloseP p] /\
  a_syn (sitem K a (IClosePortal p)) = a_syn a /\
  b_tab (fst (bstep K b (BCloseP p))) = b_tab b /\
  b_portal (fst (bstep K b (BClose p))) = b_portal b /\
  d_tab (fst (dstep K (mkD (b_tab b) (b_portal b) (b_skip b)) (CloseP c p))) = b_tab b.
Proof.
  intros K w c p a b. repeat split; cbn [step sitem a_map a_sv a_fwd a_syn].
  - intros c'. destruct (alive (clients w c)); cbn; [|reflexivity].
    unfold upd. destruct (c' =? c) eqn:E; [apply Nat.eqb_eq in E; subst|]; reflexivity.
  - destruct (alive (clients w c)); reflexivity.
  - destruct (alive (clients w c)); reflexivity.
  - unfold bstep. destruct (b_skip b); reflexivity.
  - unfold bstep. destruct (b_skip b); reflexivity.
  - unfold dstep. cbn. destruct (b_skip b); reflexivity.
Qed.
