(** C08 — observation functions used by the correspondence check (props/c08.py): they
    flatten the codec model's records into tuples that the driver can parse.  No proofs. *)
From Coq Require Import ZArith NArith List Bool.
From PV Require Import Prep.Codec.
Import ListNotations.
Open Scope Z_scope.

Definition obs_parse (chk : bool) (b m : bytes) :=
  match decode_parse b with
  | Ok p => Ok (p_code p, p_len p, p_name p, p_query p, p_np p, p_types p,
                encode_parse chk p, encode_parse chk (rename_parse p m), hstream (hkey p),
                parse_canonical b, splice_name 0 0 b m)
  | Err => Err | Panic => Panic end.

Definition obs_bind (chk : bool) (b : bytes) :=
  match decode_bind b with
  | Ok p => Ok (b_code p, b_len p, b_portal p, b_stmt p, (b_nfc p, b_fcs p), (b_npv p, b_pvs p), (b_nrc p, b_rcs p),
                encode_bind chk p)
  | Err => Err | Panic => Panic end.

Definition obs_bind_rename (chk : bool) (b m : bytes) := (rename_bind chk b m, splice_name 0 1 b m).

Definition obs_describe (b m : bytes) :=
  match decode_describe b with
  | Ok p => Ok (d_code p, d_len p, d_target p, d_name p, encode_describe p, encode_describe (rename_describe p m),
                describe_canonical b, splice_name 1 0 b m)
  | Err => Err | Panic => Panic end.

Definition obs_names (b : bytes) := (parse_get_name b, bind_get_name b).

Definition gname (n : Z) : bytes := [80; 71; 67; 65; 84; 95]%N ++ dec n.   (* "PGCAT_<n>" *)
Definition obs_close_new (m : bytes) := encode_close (close_new m).
