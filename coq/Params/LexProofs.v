(** C12 — lemmas about the literal lexer, quote_literal and the SET batch. *)
From Coq Require Import NArith List Bool String Ascii Arith Lia.
From PV Require Import Params.Lex.
Import ListNotations.
Local Open Scope N_scope.

Lemma frev_rev : forall (A : Type) (l : list A), frev l = rev l.
Proof. intros. unfold frev. symmetry. apply rev_alt. Qed.

Lemma beq_refl : forall a, beq a a = true.
Proof. induction a; simpl; auto. rewrite N.eqb_refl. auto. Qed.

Lemma beq_eq : forall a b, beq a b = true <-> a = b.
Proof.
  induction a; destruct b; simpl; split; intros H; try discriminate; auto.
  - apply andb_true_iff in H. destruct H as [H1 H2]. apply N.eqb_eq in H1. apply IHa in H2. congruence.
  - inversion H; subst. rewrite N.eqb_refl. simpl. apply beq_refl.
Qed.

Lemma beq_neq : forall a b, beq a b = false <-> a <> b.
Proof.
  intros. split; intros H.
  - intros E. apply beq_eq in E. congruence.
  - destruct (beq a b) eqn:E; auto. apply beq_eq in E. contradiction.
Qed.

(** ** The heart: every value survives quoting + lexing, in both modes *)
Lemma lex_body_qbody : forall esc v acc tail,
  (esc = true \/ has_bslash v = false) -> hd_is 39 tail = false ->
  lex_body esc (q_body v ++ 39 :: tail) acc = Some (rev acc ++ v, tail).
Proof.
  intros esc v. induction v as [|c v IH]; intros acc tail Hm Ht.
  - cbn [q_body app]. cbn [lex_body]. rewrite N.eqb_refl. rewrite app_nil_r. rewrite frev_rev.
    destruct tail as [|c2 r2]; auto. cbn [hd_is] in Ht. rewrite Ht. auto.
  - cbn [q_body].
    assert (Hm' : esc = true \/ has_bslash v = false).
    { destruct Hm as [Hm|Hm]; auto. right. unfold has_bslash in *. cbn [existsb] in Hm.
      apply orb_false_iff in Hm. tauto. }
    destruct (c =? 39) eqn:E39.
    + apply N.eqb_eq in E39. subst c. cbn [orb app]. cbn [lex_body].
      change (39 =? 39) with true. cbn iota.
      rewrite IH by auto. cbn [rev]. rewrite <- app_assoc. reflexivity.
    + destruct (c =? 92) eqn:E92.
      * apply N.eqb_eq in E92. subst c. cbn [orb app].
        destruct Hm as [Hm|Hm].
        -- subst esc. cbn [lex_body]. change (92 =? 39) with false. cbn iota.
           change (true && (92 =? 92)) with true. cbn iota.
           change (is_oct 92) with false. cbn iota.
           change (92 =? 120) with false. cbn iota.
           change ((92 =? 117) || (92 =? 85)) with false. cbn iota.
           change (simple_esc 92) with 92.
           rewrite IH by auto. cbn [rev]. rewrite <- app_assoc. reflexivity.
        -- unfold has_bslash in Hm. cbn [existsb] in Hm. rewrite N.eqb_refl in Hm. discriminate.
      * cbn [orb app]. cbn [lex_body]. rewrite E39. rewrite E92. rewrite andb_false_r.
        rewrite IH by auto. cbn [rev]. rewrite <- app_assoc. reflexivity.
Qed.

Lemma quote_roundtrip : forall scs_off v,
  lex_literal scs_off (quote_literal v) = Some (v, []).
Proof.
  intros. unfold quote_literal. destruct (has_bslash v) eqn:Hb.
  - cbn [app lex_literal]. change (69 =? 39) with false. cbn iota.
    change ((69 =? 69) || (69 =? 101)) with true. cbn iota.
    change (39 =? 39) with true. cbn iota.
    apply (lex_body_qbody true v [] []); auto.
  - cbn [app lex_literal]. change (39 =? 39) with true. cbn iota.
    apply (lex_body_qbody scs_off v [] []); auto.
Qed.

Lemma quote_roundtrip_rest : forall scs_off v tail, hd_is 39 tail = false ->
  lex_literal scs_off (quote_literal v ++ tail) = Some (v, tail).
Proof.
  intros. unfold quote_literal. destruct (has_bslash v) eqn:Hb.
  - cbn [app lex_literal]. change (69 =? 39) with false. cbn iota.
    change ((69 =? 69) || (69 =? 101)) with true. cbn iota.
    change (39 =? 39) with true. cbn iota. rewrite <- app_assoc. cbn [app].
    apply (lex_body_qbody true v [] tail); auto.
  - cbn [app lex_literal]. change (39 =? 39) with true. cbn iota. rewrite <- app_assoc. cbn [app].
    apply (lex_body_qbody scs_off v [] tail); auto.
Qed.

(** ** NUL: the query text reaches the backend whole *)
Lemma cstr_app_nul : forall s junk, no_nul s = true -> cstr (s ++ 0 :: junk) = s.
Proof.
  induction s; intros; cbn [app cstr].
  - reflexivity.
  - cbn [no_nul forallb] in H. apply andb_true_iff in H. destruct H as [H1 H2].
    destruct (a =? 0); try discriminate. f_equal. apply IHs. exact H2.
Qed.

Lemma no_nul_app : forall a b, no_nul (a ++ b) = no_nul a && no_nul b.
Proof. intros. unfold no_nul. apply forallb_app. Qed.

Lemma no_nul_qbody : forall v, no_nul v = true -> no_nul (q_body v) = true.
Proof.
  induction v; intros H; cbn [q_body]; auto.
  cbn [no_nul forallb] in H. apply andb_true_iff in H. destruct H as [H1 H2].
  destruct ((a =? 39) || (a =? 92)); cbn [no_nul forallb]; rewrite H1; cbn [andb];
    try rewrite H1; cbn [andb]; apply IHv; auto.
Qed.

Lemma no_nul_quote : forall v, no_nul v = true -> no_nul (quote_literal v) = true.
Proof.
  intros. unfold quote_literal. rewrite no_nul_app.
  replace (39 :: q_body v ++ [39]) with ([39] ++ q_body v ++ [39]) by reflexivity.
  rewrite !no_nul_app. rewrite no_nul_qbody by auto. destruct (has_bslash v); reflexivity.
Qed.

(** ** The splitter on generated text *)
Definition plainc (c : N) : bool :=
  negb ((c =? 59) || (c =? 39) || (c =? 34) || (c =? 45) || (c =? 47)).

Lemma plainc_inv : forall c, plainc c = true ->
  (c =? 59) = false /\ (c =? 39) = false /\ (c =? 34) = false /\ (c =? 45) = false /\ (c =? 47) = false.
Proof.
  unfold plainc. intros c H. apply negb_true_iff in H.
  repeat (apply orb_false_iff in H; destruct H as [H ?]). auto.
Qed.

Lemma split_plain : forall scs l p rest cur out, forallb plainc l = true ->
  split_go scs (LNorm p) (l ++ rest) cur out =
  split_go scs (LNorm (fold_left next_prev l p)) rest (rev l ++ cur) out.
Proof.
  intros scs l. induction l as [|c l IH]; intros p rest cur out H.
  - reflexivity.
  - cbn [forallb] in H. apply andb_true_iff in H. destruct H as [Hc Hl].
    apply plainc_inv in Hc. destruct Hc as (H1 & H2 & H3 & H4 & H5).
    cbn [app split_go]. rewrite H1, H2, H3, H4, H5. cbn [andb].
    rewrite IH by auto. cbn [fold_left rev]. rewrite <- app_assoc. reflexivity.
Qed.

Lemma split_qbody : forall scs esc v tail cur out,
  (esc = true \/ has_bslash v = false) -> hd_is 39 tail = false ->
  split_go scs (LStr esc) (q_body v ++ 39 :: tail) cur out =
  split_go scs (LNorm POther) tail (39 :: rev (q_body v) ++ cur) out.
Proof.
  intros scs esc v. induction v as [|c v IH]; intros tail cur out Hm Ht.
  - cbn [q_body app rev]. cbn [split_go]. change (39 =? 39) with true. cbn iota. rewrite Ht. reflexivity.
  - cbn [q_body].
    assert (Hm' : esc = true \/ has_bslash v = false).
    { destruct Hm as [Hm|Hm]; auto. right. unfold has_bslash in *. cbn [existsb] in Hm.
      apply orb_false_iff in Hm. tauto. }
    destruct (c =? 39) eqn:E39.
    + apply N.eqb_eq in E39. subst c. cbn [orb app]. cbn [split_go].
      change (39 =? 39) with true. cbn iota. cbn [hd_is]. change (39 =? 39) with true. cbn iota.
      rewrite IH by auto. cbn [rev]. rewrite <- !app_assoc. reflexivity.
    + destruct (c =? 92) eqn:E92.
      * apply N.eqb_eq in E92. subst c. cbn [orb app].
        destruct Hm as [Hm|Hm].
        -- subst esc. cbn [split_go]. change (92 =? 39) with false. cbn iota.
           change (true && (92 =? 92)) with true. cbn iota.
           rewrite IH by auto. cbn [rev]. rewrite <- !app_assoc. reflexivity.
        -- unfold has_bslash in Hm. cbn [existsb] in Hm. rewrite N.eqb_refl in Hm. discriminate.
      * cbn [orb app]. cbn [split_go]. rewrite E39, E92. rewrite andb_false_r.
        rewrite IH by auto. cbn [rev]. rewrite <- !app_assoc. reflexivity.
Qed.

Definition stmt_text (kv : bytes * bytes) : bytes := KW_SET ++ fst kv ++ SEP_TO ++ quote_literal (snd kv).

Lemma ident_plain : forall c, is_ident_cont c = true -> plainc c = true.
Proof.
  intros c H. unfold plainc. apply negb_true_iff.
  destruct (c =? 59) eqn:E1; [apply N.eqb_eq in E1; subst; discriminate|].
  destruct (c =? 39) eqn:E2; [apply N.eqb_eq in E2; subst; discriminate|].
  destruct (c =? 34) eqn:E3; [apply N.eqb_eq in E3; subst; discriminate|].
  destruct (c =? 45) eqn:E4; [apply N.eqb_eq in E4; subst; discriminate|].
  destruct (c =? 47) eqn:E5; [apply N.eqb_eq in E5; subst; discriminate|].
  reflexivity.
Qed.

Lemma forallb_impl : forall (A : Type) (f g : A -> bool) l, (forall x, f x = true -> g x = true) ->
  forallb f l = true -> forallb g l = true.
Proof.
  induction l; intros; auto. cbn [forallb] in *. apply andb_true_iff in H0. destruct H0.
  rewrite H by auto. cbn [andb]. auto.
Qed.

Lemma next_prev_space : forall p, next_prev p 32 = POther.
Proof. destruct p; reflexivity. Qed.

Lemma fold_prev_sep : forall p, fold_left next_prev SEP_TO p = POther.
Proof. intros. unfold SEP_TO. cbn [fold_left]. rewrite next_prev_space. reflexivity. Qed.

Lemma split_gen_stmt : forall scs k v rest out, forallb is_ident_cont k = true ->
  split_go scs (LNorm POther) (gen_stmt quote_literal (k, v) ++ rest) [] out =
  split_go scs (LNorm POther) rest [] (stmt_text (k, v) :: out).
Proof.
  intros scs k v rest out Hk.
  unfold gen_stmt, stmt_text. cbn [fst snd].
  set (P := KW_SET ++ k ++ SEP_TO).
  assert (HP : forallb plainc P = true).
  { unfold P. rewrite !forallb_app. rewrite (forallb_impl _ _ _ k ident_plain Hk). reflexivity. }
  assert (Hprev : forall p, fold_left next_prev P p = POther).
  { intros. unfold P. rewrite !fold_left_app. apply fold_prev_sep. }
  replace ((KW_SET ++ k ++ SEP_TO ++ quote_literal v ++ [59]) ++ rest)
    with (P ++ (quote_literal v ++ 59 :: rest)).
  2:{ unfold P. rewrite <- !app_assoc. reflexivity. }
  rewrite split_plain by auto. rewrite Hprev. rewrite app_nil_r.
  replace (KW_SET ++ k ++ SEP_TO ++ quote_literal v) with (P ++ quote_literal v).
  2:{ unfold P. rewrite <- !app_assoc. reflexivity. }
  unfold quote_literal. destruct (has_bslash v) eqn:Hb.
  - cbn [app]. cbn [split_go]. change (69 =? 59) with false. change (69 =? 39) with false.
    change (69 =? 34) with false. change (69 =? 45) with false. change (69 =? 47) with false.
    cbn [andb]. cbn iota. change (next_prev POther 69) with PE.
    cbn [split_go]. change (39 =? 59) with false. change (39 =? 39) with true. cbn iota.
    rewrite <- app_assoc. cbn [app].
    rewrite split_qbody by auto. cbn [split_go]. change (59 =? 59) with true. cbn iota. rewrite frev_rev.
    f_equal. f_equal. cbn [rev]. rewrite !rev_app_distr. cbn [rev app]. rewrite !rev_involutive.
    rewrite <- !app_assoc. reflexivity.
  - cbn [app]. cbn [split_go]. change (39 =? 59) with false. change (39 =? 39) with true. cbn iota.
    rewrite <- app_assoc. cbn [app].
    rewrite split_qbody by auto. cbn [split_go]. change (59 =? 59) with true. cbn iota. rewrite frev_rev.
    f_equal. f_equal. cbn [rev]. rewrite !rev_app_distr. cbn [rev app]. rewrite !rev_involutive.
    rewrite <- !app_assoc. reflexivity.
Qed.

Definition keys_ok (d : list (bytes * bytes)) : bool := forallb (fun kv => ident_key (fst kv)) d.

Lemma split_gen_batch : forall scs d rest out, keys_ok d = true ->
  split_go scs (LNorm POther) (gen_batch d ++ rest) [] out =
  split_go scs (LNorm POther) rest [] (rev (map stmt_text d) ++ out).
Proof.
  intros scs d. induction d as [|[k v] d IH]; intros rest out H.
  - reflexivity.
  - unfold keys_ok in H. cbn [forallb fst] in H. apply andb_true_iff in H. destruct H as [Hk Hd].
    unfold ident_key in Hk. apply andb_true_iff in Hk. destruct Hk as [_ Hk].
    unfold gen_batch, gen_batch_with in *. cbn [flat_map]. rewrite <- app_assoc.
    rewrite split_gen_stmt by auto. rewrite IH by auto.
    cbn [map rev]. rewrite <- app_assoc. reflexivity.
Qed.

Lemma stmt_text_not_blank : forall kv, blank (stmt_text kv) = false.
Proof. intros. reflexivity. Qed.

Lemma filter_stmt_texts : forall d, filter (fun s => negb (blank s)) (map stmt_text d) = map stmt_text d.
Proof.
  induction d; auto. cbn [map filter]. rewrite stmt_text_not_blank. cbn [negb]. f_equal. auto.
Qed.

Lemma split_stmts_gen : forall scs d, keys_ok d = true ->
  split_stmts scs (gen_batch d) = Some (map stmt_text d).
Proof.
  intros. unfold split_stmts.
  rewrite <- (app_nil_r (gen_batch d)). rewrite split_gen_batch by auto.
  cbn [split_go]. rewrite !frev_rev. rewrite app_nil_r. cbn [rev]. rewrite rev_involutive.
  cbn [app]. rewrite filter_app. cbn [filter blank forallb negb app].
  rewrite app_nil_r. rewrite filter_stmt_texts. reflexivity.
Qed.

(** ** The statement recogniser on generated text *)
Lemma strip_prefix_app : forall p s, strip_prefix p (p ++ s) = Some s.
Proof. induction p; intros; cbn [app strip_prefix]; auto. rewrite N.eqb_refl. auto. Qed.

Lemma ident_not_space : forall c, is_ident_cont c = true -> is_space c = false.
Proof.
  intros c H. unfold is_space.
  destruct (c =? 32) eqn:E1; [apply N.eqb_eq in E1; subst; discriminate|].
  destruct (c =? 9) eqn:E2; [apply N.eqb_eq in E2; subst; discriminate|].
  destruct (c =? 10) eqn:E3; [apply N.eqb_eq in E3; subst; discriminate|].
  destruct (c =? 13) eqn:E4; [apply N.eqb_eq in E4; subst; discriminate|].
  destruct (c =? 12) eqn:E5; [apply N.eqb_eq in E5; subst; discriminate|].
  reflexivity.
Qed.

Lemma span_ident_app : forall k rest, forallb is_ident_cont k = true -> hd_is 32 rest = true ->
  span_ident (k ++ rest) = (k, rest).
Proof.
  induction k; intros rest Hk Hr.
  - cbn [app]. destruct rest as [|c r]; [discriminate|]. cbn [hd_is] in Hr. apply N.eqb_eq in Hr. subst c.
    reflexivity.
  - cbn [forallb] in Hk. apply andb_true_iff in Hk. destruct Hk as [Ha Hk].
    cbn [app span_ident]. rewrite Ha. rewrite IHk by auto. reflexivity.
Qed.

Lemma skip_spaces_quote : forall v tail, skip_spaces (quote_literal v ++ tail) = quote_literal v ++ tail.
Proof. intros. unfold quote_literal. destruct (has_bslash v); reflexivity. Qed.

Lemma parse_set_gen : forall scs k v, ident_key k = true ->
  parse_set scs (stmt_text (k, v)) = Some (k, v).
Proof.
  intros scs k v Hk. unfold ident_key in Hk. apply andb_true_iff in Hk. destruct Hk as [Hne Hk].
  unfold parse_set, stmt_text. cbn [fst snd].
  replace (skip_spaces (KW_SET ++ k ++ SEP_TO ++ quote_literal v)) with (KW_SET ++ k ++ SEP_TO ++ quote_literal v) by reflexivity.
  rewrite strip_prefix_app.
  destruct k as [|c k]; [discriminate|].
  cbn [forallb] in Hk. apply andb_true_iff in Hk. destruct Hk as [Hc Hk'].
  replace (skip_spaces ((c :: k) ++ SEP_TO ++ quote_literal v)) with ((c :: k) ++ SEP_TO ++ quote_literal v).
  2:{ cbn [app skip_spaces]. rewrite (ident_not_space c Hc). reflexivity. }
  rewrite span_ident_app.
  2:{ cbn [forallb]. rewrite Hc, Hk'. reflexivity. }
  2:{ reflexivity. }
  cbn [is_nil].
  replace (skip_spaces (SEP_TO ++ quote_literal v)) with (KW_TO ++ quote_literal v).
  2:{ unfold SEP_TO, KW_TO. cbn [app skip_spaces]. reflexivity. }
  rewrite strip_prefix_app.
  rewrite <- (app_nil_r (quote_literal v)). rewrite skip_spaces_quote. rewrite app_nil_r.
  rewrite quote_roundtrip. reflexivity.
Qed.

Lemma sequence_parse_gen : forall scs d, keys_ok d = true ->
  sequence (map (parse_set scs) (map stmt_text d)) = Some d.
Proof.
  induction d as [|[k v] d IH]; intros H; auto.
  unfold keys_ok in H. cbn [forallb fst] in H. apply andb_true_iff in H. destruct H as [Hk Hd].
  cbn [map sequence]. rewrite parse_set_gen by auto. rewrite IH by auto. reflexivity.
Qed.

Lemma no_injection : forall scs d, keys_ok d = true -> apply_set_batch scs (gen_batch d) = Some d.
Proof.
  intros. unfold apply_set_batch. rewrite split_stmts_gen by auto. apply sequence_parse_gen. auto.
Qed.

(** the text on the wire *)
Lemma ident_no_nul : forall k, forallb is_ident_cont k = true -> no_nul k = true.
Proof.
  intros. unfold no_nul. eapply forallb_impl; [|exact H].
  intros c Hc. destruct (c =? 0) eqn:E; auto. apply N.eqb_eq in E. subst. discriminate.
Qed.

Definition vals_ok (d : list (bytes * bytes)) : bool := forallb (fun kv => no_nul (snd kv)) d.

Lemma no_nul_gen_batch : forall d, keys_ok d = true -> vals_ok d = true -> no_nul (gen_batch d) = true.
Proof.
  induction d as [|[k v] d IH]; intros Hk Hv; auto.
  unfold keys_ok in Hk. cbn [forallb fst] in Hk. apply andb_true_iff in Hk. destruct Hk as [Hk Hd].
  unfold vals_ok in Hv. cbn [forallb snd] in Hv. apply andb_true_iff in Hv. destruct Hv as [Hv Hd'].
  unfold ident_key in Hk. apply andb_true_iff in Hk. destruct Hk as [_ Hk].
  unfold gen_batch, gen_batch_with in *. cbn [flat_map]. rewrite no_nul_app. rewrite IH by auto.
  unfold gen_stmt. cbn [fst snd]. rewrite !no_nul_app. rewrite (ident_no_nul k Hk).
  rewrite no_nul_quote by auto. reflexivity.
Qed.

Lemma on_wire_gen : forall d, keys_ok d = true -> vals_ok d = true -> on_wire (gen_batch d) = gen_batch d.
Proof. intros. unfold on_wire. apply cstr_app_nul. apply no_nul_gen_batch; auto. Qed.

Lemma no_injection_wire : forall scs d, keys_ok d = true -> vals_ok d = true ->
  apply_set_batch scs (on_wire (gen_batch d)) = Some d.
Proof. intros. rewrite on_wire_gen by auto. apply no_injection. auto. Qed.

Lemma quote_roundtrip_nonul : forall scs_off v, no_nul v = true ->
  lex_literal scs_off (quote_literal v) = Some (v, []).
Proof. intros. apply quote_roundtrip. Qed.

(** the two modes read the same value back: the order of the statements of a batch that also
    changes standard_conforming_strings does not matter *)
Lemma quote_mode_independent : forall v,
  lex_literal true (quote_literal v) = lex_literal false (quote_literal v).
Proof. intros. rewrite !quote_roundtrip. reflexivity. Qed.
