(** C12 — lemmas about the session-parameter model (Model.v). *)
From Coq Require Import NArith List Bool String Ascii Arith Lia.
From PV Require Import Params.Lex Params.LexProofs Params.Model.
Import ListNotations.
Local Open Scope N_scope.

(** ** Maps *)
Lemma beq_sym : forall a b, beq a b = beq b a.
Proof.
  intros. destruct (beq a b) eqn:E.
  - apply beq_eq in E. subst. symmetry. apply beq_refl.
  - symmetry. apply beq_neq. apply beq_neq in E. congruence.
Qed.

Lemma pget_pset_eq : forall k v m, pget k (pset k v m) = Some v.
Proof.
  induction m as [|[k' v'] m IH]; cbn [pset pget].
  - rewrite beq_refl. reflexivity.
  - destruct (beq k k') eqn:E; cbn [pget]; [rewrite beq_refl|rewrite E]; auto.
Qed.

Lemma pget_pset_neq : forall k k' v m, beq k k' = false -> pget k (pset k' v m) = pget k m.
Proof.
  induction m as [|[k2 v2] m IH]; intros H; cbn [pset pget].
  - rewrite H. reflexivity.
  - destruct (beq k' k2) eqn:E; cbn [pget].
    + apply beq_eq in E. subst k2. rewrite H. reflexivity.
    + rewrite IH by auto. reflexivity.
Qed.

Lemma pget_pdel_eq : forall k m, pget k (pdel k m) = None.
Proof.
  induction m as [|[k2 v2] m IH]; cbn [pdel pget]; auto.
  destruct (beq k k2) eqn:E; auto. cbn [pget]. rewrite E. auto.
Qed.

Lemma pget_pdel_neq : forall k k' m, beq k k' = false -> pget k (pdel k' m) = pget k m.
Proof.
  induction m as [|[k2 v2] m IH]; intros H; cbn [pdel pget]; auto.
  destruct (beq k' k2) eqn:E.
  - apply beq_eq in E. subst k2. rewrite H. auto.
  - cbn [pget]. rewrite IH by auto. reflexivity.
Qed.

Lemma opt_beq_refl : forall a, opt_beq a a = true.
Proof. destruct a; cbn [opt_beq]; auto. apply beq_refl. Qed.

Lemma opt_beq_eq : forall a b, opt_beq a b = true -> a = b.
Proof. intros a b. destruct a as [x|], b as [y|]; cbn [opt_beq]; intros H; try discriminate; auto. apply beq_eq in H. congruence. Qed.

(** ** Tracked keys *)
Lemma tracked_cases : forall k, tracked k = true ->
  k = K_enc \/ k = K_date \/ k = K_tz \/ k = K_scs \/ k = K_app.
Proof.
  intros k H. unfold tracked, TRACKED in H. cbn [existsb] in H.
  repeat (apply orb_true_iff in H; destruct H as [H|H]; [apply beq_eq in H; auto 10|]).
  discriminate.
Qed.

Lemma tracked_in : forall k, tracked k = true <-> In k TRACKED.
Proof.
  intros. unfold tracked. rewrite existsb_exists. split.
  - intros [x [Hx Hb]]. apply beq_eq in Hb. subst. auto.
  - intros H. exists k. split; auto. apply beq_refl.
Qed.

Lemma recase_tracked : forall k, tracked k = true -> recase k = k.
Proof. intros k H. apply tracked_cases in H. intuition; subst; reflexivity. Qed.

Lemma reported_cases : forall k, In k REPORTED -> tracked k = true \/ k = K_interval.
Proof.
  intros k H. unfold REPORTED in H. apply in_app_or in H. destruct H as [H|H].
  - left. apply tracked_in. auto.
  - right. cbn in H. intuition.
Qed.

Lemma recase_reported : forall k, In k REPORTED -> recase k = k.
Proof.
  intros k H. apply reported_cases in H. destruct H as [H|H].
  - apply recase_tracked. auto.
  - subst. reflexivity.
Qed.

Lemma tracked_reported : forall k, tracked k = true -> In k REPORTED.
Proof. intros. unfold REPORTED. apply in_or_app. left. apply tracked_in. auto. Qed.

Lemma nodup_reported : NoDup REPORTED.
Proof.
  unfold REPORTED, TRACKED. cbn [app].
  repeat (constructor; [cbn [In]; intros H; repeat (destruct H as [H|H]; [discriminate H|]); exact H|]).
  constructor.
Qed.

Lemma nodup_tracked : NoDup TRACKED.
Proof.
  unfold TRACKED.
  repeat (constructor; [cbn [In]; intros H; repeat (destruct H as [H|H]; [discriminate H|]); exact H|]).
  constructor.
Qed.

(** [set_param] seen through a tracked key *)
Lemma pget_set_param : forall m k v k0, tracked k0 = true ->
  pget k0 (set_param m k v false) = if beq k0 (recase k) then Some v else pget k0 m.
Proof.
  intros m k v k0 H0. unfold set_param. rewrite orb_false_r.
  destruct (tracked (recase k)) eqn:Ht.
  - destruct (beq k0 (recase k)) eqn:E.
    + apply beq_eq in E. subst k0. apply pget_pset_eq.
    + apply pget_pset_neq. auto.
  - destruct (beq k0 (recase k)) eqn:E; auto.
    apply beq_eq in E. subst k0. congruence.
Qed.

Lemma set_from_list_app : forall m a b st,
  set_from_list m (a ++ b) st = set_from_list (set_from_list m a st) b st.
Proof. intros. unfold set_from_list. apply fold_left_app. Qed.

Lemma pset_all_app : forall m a b, pset_all m (a ++ b) = pset_all (pset_all m a) b.
Proof. intros. unfold pset_all. apply fold_left_app. Qed.

Lemma frames_app : forall a b, frames (a ++ b) = frames a ++ frames b.
Proof. intros. unfold frames. apply flat_map_app. Qed.

(** ** Frames of a report applied to a map that agreed with the backend *)
Lemma frames_flat_map : forall (A : Type) (f : A -> list revent) L,
  frames (flat_map f L) = flat_map (fun k => frames (f k)) L.
Proof. induction L; cbn [flat_map]; auto. rewrite frames_app. rewrite IHL. reflexivity. Qed.

Definition nv (b : backend) (k : bytes) : bytes := match eff b k with Some v => v | None => [] end.

Lemma frames_report : forall b b',
  frames (report b b') =
  flat_map (fun k => if opt_beq (eff b k) (eff b' k) then [] else [(k, nv b' k)]) REPORTED.
Proof.
  intros. unfold report. rewrite frames_flat_map. apply flat_map_ext. intros k.
  destruct (opt_beq (eff b k) (eff b' k)); reflexivity.
Qed.

Section Frames.
  Variable ch : bytes -> bool.
  Variable nvf : bytes -> bytes.
  Let fr (L : list bytes) := flat_map (fun k => if ch k then [] else [(k, nvf k)]) L.

  Lemma sfl_notin : forall L m k0, tracked k0 = true -> (forall k, In k L -> recase k = k) ->
    ~ In k0 L -> pget k0 (set_from_list m (fr L) false) = pget k0 m.
  Proof.
    induction L as [|k L IH]; intros m k0 H0 Hr Hn; auto.
    unfold fr. cbn [flat_map]. fold (fr L). rewrite set_from_list_app.
    rewrite IH; auto.
    2:{ intros. apply Hr. right. auto. }
    2:{ intros Hc. apply Hn. right. auto. }
    destruct (ch k); auto. unfold set_from_list. cbn [fold_left fst snd].
    rewrite pget_set_param by auto. rewrite (Hr k) by (left; auto).
    destruct (beq k0 k) eqn:E; auto. apply beq_eq in E. subst. exfalso. apply Hn. left. auto.
  Qed.

  Lemma sfl_in : forall L m k0, tracked k0 = true -> (forall k, In k L -> recase k = k) ->
    NoDup L -> In k0 L ->
    pget k0 (set_from_list m (fr L) false) = if ch k0 then pget k0 m else Some (nvf k0).
  Proof.
    induction L as [|k L IH]; intros m k0 H0 Hr Hd Hi; [destruct Hi|].
    inversion Hd as [|? ? Hnk HdL]; subst.
    unfold fr. cbn [flat_map]. fold (fr L). rewrite set_from_list_app.
    destruct Hi as [Hi|Hi].
    - subst k0. rewrite sfl_notin; auto.
      2:{ intros. apply Hr. right. auto. }
      destruct (ch k); auto. unfold set_from_list. cbn [fold_left fst snd].
      rewrite pget_set_param by auto. rewrite (Hr k) by (left; auto). rewrite beq_refl. auto.
    - rewrite IH; auto.
      2:{ intros. apply Hr. right. auto. }
      destruct (ch k0); auto.
      destruct (ch k); auto. unfold set_from_list. cbn [fold_left fst snd].
      rewrite pget_set_param by auto. rewrite (Hr k) by (left; auto).
      destruct (beq k0 k) eqn:E; auto. apply beq_eq in E. subst. contradiction.
  Qed.
End Frames.

Definition Agree (m : pmap) (b : backend) : Prop := forall k, tracked k = true -> pget k m = eff b k.
Definition EffSome (b : backend) : Prop := forall k, tracked k = true -> eff b k <> None.

Lemma agree_report : forall m b b', Agree m b -> EffSome b' ->
  Agree (set_from_list m (frames (report b b')) false) b'.
Proof.
  intros m b b' Ha Hs k Hk. rewrite frames_report.
  rewrite (sfl_in (fun k => opt_beq (eff b k) (eff b' k)) (nv b')); auto.
  - destruct (opt_beq (eff b k) (eff b' k)) eqn:E.
    + apply opt_beq_eq in E. rewrite Ha by auto. auto.
    + unfold nv. specialize (Hs k Hk). destruct (eff b' k); congruence.
  - apply recase_reported.
  - apply nodup_reported.
  - apply tracked_reported. auto.
Qed.

Lemma frames_keys_report : forall b b' k v, In (k, v) (frames (report b b')) -> In k REPORTED.
Proof.
  intros b b' k v H. rewrite frames_report in H. apply in_flat_map in H.
  destruct H as [x [Hx Hi]]. destruct (opt_beq (eff b x) (eff b' x)); [destruct Hi|].
  destruct Hi as [Hi|[]]. inversion Hi; subst. auto.
Qed.

(** ** recv_all: what it does to the maps, and to the flags *)
Definition flag_step (st : bool * bool) (e : revent) : bool * bool :=
  match e with
  | RC TgSet => (fst st || negb (snd st), snd st)
  | RC TgCommit => (fst st, false)
  | RC TgRollback => (fst st, false)
  | RZ t => (fst st, negb (is_ti t))
  | _ => st
  end.
Definition flags_after (st : bool * bool) (evs : list revent) : bool * bool := fold_left flag_step evs st.

Definition prep_step (q : bool) (e : revent) : bool := match e with RC TgPrepare => true | _ => q end.
Definition prep_after (q : bool) (evs : list revent) : bool := fold_left prep_step evs q.

Lemma recv_all_spec : forall evs cm p,
  recv_all cm p evs =
  (match cm with Some m => Some (set_from_list m (frames evs) false) | None => None end,
   mkP (set_from_list (bel p) (frames evs) false)
       (fst (flags_after (need_set p, in_txn p) evs)) (snd (flags_after (need_set p, in_txn p) evs))
       (prep_after (need_prep p) evs)).
Proof.
  induction evs as [|e evs IH]; intros cm p.
  - cbn. destruct cm, p; reflexivity.
  - unfold recv_all in *. cbn [fold_left fst snd].
    destruct (on_event cm p e) as [cm1 p1] eqn:E. rewrite IH.
    unfold flags_after, prep_after. cbn [fold_left].
    destruct e as [k v|t| |t]; [|destruct t| |]; cbn [on_event on_param_status] in E; inversion E; subst;
      cbn [frames flat_map app bel need_set in_txn need_prep flag_step prep_step fst snd];
      try (change (frames evs) with (flat_map (fun e => match e with RS k v => [(k, v)] | _ => [] end) evs));
      try (destruct cm; unfold set_from_list; cbn [fold_left fst snd]; reflexivity);
      try (destruct cm1; reflexivity);
      try (destruct cm1, p1; reflexivity).
Qed.

(** ** Invariants *)
Definition Has5 (m : pmap) : Prop := forall k, tracked k = true -> pget k m <> None.

Lemma has5_spec : forall m, has5 m = true <-> Has5 m.
Proof.
  intros. unfold has5, Has5. rewrite forallb_forall. split.
  - intros H k Hk. apply tracked_in in Hk. specialize (H k Hk). destruct (pget k m); congruence.
  - intros H k Hk. apply tracked_in in Hk. specialize (H k Hk). destruct (pget k m); congruence.
Qed.

Lemma has5_pset : forall m k v, Has5 m -> Has5 (pset k v m).
Proof.
  intros m k v H k0 H0. destruct (beq k0 k) eqn:E.
  - apply beq_eq in E. subst. rewrite pget_pset_eq. discriminate.
  - rewrite pget_pset_neq by auto. auto.
Qed.

Lemma has5_set_param : forall m k v st, Has5 m -> Has5 (set_param m k v st).
Proof. intros. unfold set_param. destruct (tracked (recase k) || st); auto. apply has5_pset. auto. Qed.

Lemma has5_set_from_list : forall l m st, Has5 m -> Has5 (set_from_list m l st).
Proof.
  induction l; intros; auto. unfold set_from_list. cbn [fold_left]. apply IHl. apply has5_set_param. auto.
Qed.

Section WithParams.
  Variable valid : bytes -> bytes -> bool.
  Variable bdef : pmap.
  Hypothesis Hbdef : bdef_ok valid bdef = true.

  Definition AllValid (m : pmap) : Prop :=
    forall k v, tracked k = true -> pget k m = Some v -> valid k v = true.

  Lemma all_valid_spec : forall m, all_valid valid m = true <-> AllValid m.
  Proof.
    intros. unfold all_valid, AllValid. rewrite forallb_forall. split.
    - intros H k v Hk Hg. apply tracked_in in Hk. specialize (H k Hk). rewrite Hg in H. auto.
    - intros H k Hk. destruct (pget k m) eqn:E; auto. eapply H; eauto. apply tracked_in. auto.
  Qed.

  Lemma bdef_has5 : Has5 bdef.
  Proof.
    unfold bdef_ok in Hbdef. apply andb_true_iff in Hbdef. destruct Hbdef as [H _].
    apply andb_true_iff in H. destruct H as [H _]. apply has5_spec. auto.
  Qed.

  Lemma bdef_valid : AllValid bdef.
  Proof.
    unfold bdef_ok in Hbdef. apply andb_true_iff in Hbdef. destruct Hbdef as [H _].
    apply andb_true_iff in H. destruct H as [_ H]. apply all_valid_spec. auto.
  Qed.

  Lemma pool_bdef : forall k, tracked k = true -> pget k (pool bdef) = pget k bdef.
  Proof.
    intros k Hk. unfold bdef_ok in Hbdef. apply andb_true_iff in Hbdef. destruct Hbdef as [_ H].
    rewrite forallb_forall in H. apply tracked_in in Hk. specialize (H k Hk). apply opt_beq_eq. auto.
  Qed.

  Lemma allvalid_pset : forall m k v, AllValid m -> (tracked k = true -> valid k v = true) -> AllValid (pset k v m).
  Proof.
    intros m k v H Hv k0 v0 H0 Hg. destruct (beq k0 k) eqn:E.
    - apply beq_eq in E. subst. rewrite pget_pset_eq in Hg. inversion Hg; subst. auto.
    - rewrite pget_pset_neq in Hg by auto. eauto.
  Qed.

  Lemma allvalid_pdel : forall m k, AllValid m -> AllValid (pdel k m).
  Proof.
    intros m k H k0 v0 H0 Hg. destruct (beq k0 k) eqn:E.
    - apply beq_eq in E. subst. rewrite pget_pdel_eq in Hg. discriminate.
    - rewrite pget_pdel_neq in Hg by auto. eauto.
  Qed.

  Lemma allvalid_nil : AllValid [].
  Proof. intros k v _ H. discriminate. Qed.

  Record BInv (b : backend) : Prop := {
    bi_has : Has5 (b_sess b);
    bi_vs : AllValid (b_sess b);
    bi_vl : AllValid (b_loc b);
    bi_snap : forall m, b_snap b = Some m -> Has5 m /\ AllValid m;
    bi_ti : b_txn b = TI -> b_loc b = [] /\ b_snap b = None }.

  Lemma binv_effsome : forall b, BInv b -> EffSome b.
  Proof.
    intros b H k Hk. unfold eff. destruct (pget k (b_loc b)); [discriminate|]. apply (bi_has b H). auto.
  Qed.

  Lemma binv_fresh : BInv (fresh_backend bdef).
  Proof.
    constructor; cbn [fresh_backend b_sess b_loc b_snap b_txn].
    - apply bdef_has5.
    - apply bdef_valid.
    - apply allvalid_nil.
    - intros; discriminate.
    - auto.
  Qed.

  Lemma reset_sess_has5 : forall k m, Has5 m ->
    Has5 (match pget k bdef with Some d => pset k d m | None => pdel k m end).
  Proof.
    intros k m H. destruct (pget k bdef) eqn:E.
    - apply has5_pset. auto.
    - intros k0 H0. destruct (beq k0 k) eqn:Ek.
      + apply beq_eq in Ek. subst. exfalso. apply (bdef_has5 k H0). auto.
      + rewrite pget_pdel_neq by auto. auto.
  Qed.

  Lemma reset_sess_valid : forall k m, AllValid m ->
    AllValid (match pget k bdef with Some d => pset k d m | None => pdel k m end).
  Proof.
    intros k m H. destruct (pget k bdef) eqn:E.
    - apply allvalid_pset; auto. intros Hk. eapply bdef_valid; eauto.
    - apply allvalid_pdel. auto.
  Qed.

  Ltac binv_fields :=
    constructor; cbn [b_sess b_loc b_snap b_txn];
    auto using has5_pset, allvalid_pset, allvalid_pdel, allvalid_nil, bdef_has5, bdef_valid,
               reset_sess_has5, reset_sess_valid;
    try (intros; discriminate).

  Lemma be_stmt_binv : forall b s, BInv b -> BInv (fst (be_stmt valid bdef b s)).
  Proof.
    intros b s HB. pose proof HB as H. destruct H as [Hh Hvs Hvl Hsn Hti].
    assert (Hsnap : Has5 (match b_snap b with Some m => m | None => b_sess b end) /\
                    AllValid (match b_snap b with Some m => m | None => b_sess b end)).
    { destruct (b_snap b) eqn:Es; auto. }
    destruct Hsnap as [Hs1 Hs2].
    destruct s; cbn [be_stmt]; unfold done, fail, do_rollback.
    - (* SBegin *) destruct (b_txn b) eqn:Et; cbn [fst]; try exact HB.
      binv_fields. intros m Hm. inversion Hm; subst. auto.
    - (* SCommit *) destruct (b_txn b) eqn:Et; cbn [fst]; binv_fields.
    - (* SRollback *) cbn [fst]. binv_fields.
    - (* SSet *) destruct (b_txn b) eqn:Et; cbn [fst]; try exact HB.
      + destruct (bi_ti b HB Et) as [Hl Hs]. destruct (valid k v) eqn:Ev; [destruct local|]; cbn [fst is_ti]; try exact HB.
        * binv_fields. rewrite Hl. cbn [pdel]. auto.
        * binv_fields.
      + destruct (valid k v) eqn:Ev; [destruct local|]; cbn [fst is_ti]; binv_fields.
    - (* SReset *) destruct (b_txn b) eqn:Et; cbn [fst]; try exact HB; binv_fields.
      destruct (bi_ti b HB Et) as [Hl Hs]. rewrite Hl. auto.
    - (* SResetAll *) destruct (b_txn b) eqn:Et; cbn [fst]; try exact HB; binv_fields.
      destruct (bi_ti b HB Et) as [Hl Hs]. auto.
    - (* SSelect *) destruct (b_txn b); cbn [fst]; exact HB.
    - (* SFail *) destruct (b_txn b) eqn:Et; cbn [fst]; try exact HB; binv_fields.
    - (* SNoop *) destruct (b_txn b); cbn [fst]; exact HB.
    - (* SDiscardAll *) destruct (b_txn b) eqn:Et; cbn [fst]; try exact HB; binv_fields.
      destruct (bi_ti b HB Et) as [Hl Hs]. auto.
  Qed.

  (** *** what one statement does to a map that agrees with the backend *)
  Lemma frames_done : forall b b' t, frames (snd (done b b' t)) = frames (report b b').
  Proof. intros. unfold done. cbn [snd]. rewrite frames_app. cbn. apply app_nil_r. Qed.

  Definition Quiet (b : backend) (r : backend * list revent) : Prop :=
    frames (snd r) = [] /\ forall k, eff (fst r) k = eff b k.

  Lemma be_stmt_shape : forall b s,
    (exists b' t, be_stmt valid bdef b s = done b b' t) \/ Quiet b (be_stmt valid bdef b s).
  Proof.
    intros b s. destruct s; cbn [be_stmt];
      try (destruct (b_txn b) eqn:Et); try (destruct (valid k v) eqn:Ev); try (destruct local);
      cbn [is_ti]; eauto;
      right; unfold Quiet, fail; cbn [fst snd frames flat_map app]; split; auto.
  Qed.

  Lemma be_stmt_agree : forall b s m, BInv b -> Agree m b ->
    Agree (set_from_list m (frames (snd (be_stmt valid bdef b s))) false) (fst (be_stmt valid bdef b s)).
  Proof.
    intros b s m HB Ha. pose proof (be_stmt_binv b s HB) as HB'.
    destruct (be_stmt_shape b s) as [[b' [t E]]|[Hf He]].
    - rewrite E in *. rewrite frames_done. cbn [fst done] in *. apply agree_report; auto.
      apply binv_effsome. auto.
    - rewrite Hf. cbn. intros k Hk. rewrite He. auto.
  Qed.

  Lemma be_stmt_keys : forall b s k v, In (k, v) (frames (snd (be_stmt valid bdef b s))) -> In k REPORTED.
  Proof.
    intros b s k v H. destruct (be_stmt_shape b s) as [[b' [t E]]|[Hf He]].
    - rewrite E in H. rewrite frames_done in H. eapply frames_keys_report; eauto.
    - rewrite Hf in H. destruct H.
  Qed.

  Lemma be_msg_cons : forall b s r,
    be_msg valid bdef b (s :: r) =
    if has_err (snd (be_stmt valid bdef b s)) then be_stmt valid bdef b s
    else (fst (be_msg valid bdef (fst (be_stmt valid bdef b s)) r),
          snd (be_stmt valid bdef b s) ++ snd (be_msg valid bdef (fst (be_stmt valid bdef b s)) r)).
  Proof.
    intros. cbn [be_msg]. destruct (be_stmt valid bdef b s) as [b1 e1]. cbn [fst snd].
    destruct (has_err e1); auto. destruct (be_msg valid bdef b1 r); auto.
  Qed.

  Lemma be_msg_agree : forall ss b m, BInv b -> Agree m b ->
    BInv (fst (be_msg valid bdef b ss)) /\
    Agree (set_from_list m (frames (snd (be_msg valid bdef b ss))) false) (fst (be_msg valid bdef b ss)).
  Proof.
    induction ss as [|s r IH]; intros b m HB Ha.
    - cbn. auto.
    - rewrite be_msg_cons. destruct (has_err (snd (be_stmt valid bdef b s))).
      + split; [apply be_stmt_binv|apply be_stmt_agree]; auto.
      + cbn [fst snd]. rewrite frames_app. rewrite set_from_list_app.
        apply IH; [apply be_stmt_binv|apply be_stmt_agree]; auto.
  Qed.

  Lemma be_msg_keys : forall ss b k v, In (k, v) (frames (snd (be_msg valid bdef b ss))) -> In k REPORTED.
  Proof.
    induction ss as [|s r IH]; intros b k v H.
    - cbn in H. destruct H.
    - rewrite be_msg_cons in H. destruct (has_err (snd (be_stmt valid bdef b s))).
      + eapply be_stmt_keys; eauto.
      + cbn [snd] in H. rewrite frames_app in H. apply in_app_or in H. destruct H.
        * eapply be_stmt_keys; eauto.
        * eapply IH; eauto.
  Qed.

  Lemma be_query_eq : forall b ss,
    be_query valid bdef b ss =
    (fst (be_msg valid bdef b ss), snd (be_msg valid bdef b ss) ++ [RZ (b_txn (fst (be_msg valid bdef b ss)))]).
  Proof. intros. unfold be_query. destruct (be_msg valid bdef b ss). reflexivity. Qed.

  Lemma be_query_frames : forall b ss,
    frames (snd (be_query valid bdef b ss)) = frames (snd (be_msg valid bdef b ss)).
  Proof. intros. rewrite be_query_eq. cbn [snd]. rewrite frames_app. cbn. apply app_nil_r. Qed.

  Lemma be_query_agree : forall ss b m, BInv b -> Agree m b ->
    BInv (fst (be_query valid bdef b ss)) /\
    Agree (set_from_list m (frames (snd (be_query valid bdef b ss))) false) (fst (be_query valid bdef b ss)).
  Proof.
    intros. rewrite be_query_frames. rewrite be_query_eq. cbn [fst]. apply be_msg_agree; auto.
  Qed.

  Lemma be_query_keys : forall ss b k v, In (k, v) (frames (snd (be_query valid bdef b ss))) -> In k REPORTED.
  Proof. intros ss b k v H. rewrite be_query_frames in H. eapply be_msg_keys; eauto. Qed.

  (** *** flags: in_transaction belief and needs_cleanup_set *)
  Definition Clean (m : pmap) : Prop := forall k, tracked k = false -> pget k m = pget k bdef.
  Definition InOK (b : backend) (st : bool * bool) : Prop := b_txn b = TI -> snd st = false.
  Definition CleanOK (b : backend) (st : bool * bool) : Prop :=
    fst st = false -> Clean (b_sess b) /\ (forall m, b_snap b = Some m -> Clean m).

  Lemma flags_after_app : forall st a b, flags_after st (a ++ b) = flags_after (flags_after st a) b.
  Proof. intros. unfold flags_after. apply fold_left_app. Qed.

  Lemma flags_after_report : forall b b' st, flags_after st (report b b') = st.
  Proof.
    intros b b'. unfold report. generalize REPORTED. induction l as [|k l IH]; intros st; auto.
    cbn [flat_map]. rewrite flags_after_app. rewrite IH.
    destruct (opt_beq (eff b k) (eff b' k)); reflexivity.
  Qed.

  Lemma flags_done : forall b b' t st,
    flags_after st (snd (done b b' t)) = flag_step st (RC t).
  Proof. intros. unfold done. cbn [snd]. rewrite flags_after_app. rewrite flags_after_report. reflexivity. Qed.

  Lemma clean_pset_tracked : forall m k v, tracked k = true -> Clean m -> Clean (pset k v m).
  Proof.
    intros m k v Hk H k0 H0. rewrite pget_pset_neq; auto.
    apply beq_neq. intros E. subst. congruence.
  Qed.

  Lemma clean_reset : forall m k, Clean m ->
    Clean (match pget k bdef with Some d => pset k d m | None => pdel k m end).
  Proof.
    intros m k H k0 H0. destruct (beq k0 k) eqn:E.
    - apply beq_eq in E. subst. destruct (pget k bdef) eqn:Ed.
      + apply pget_pset_eq.
      + apply pget_pdel_eq.
    - destruct (pget k bdef); [rewrite pget_pset_neq by auto|rewrite pget_pdel_neq by auto]; auto.
  Qed.

  Lemma clean_bdef : Clean bdef.
  Proof. intros k _. reflexivity. Qed.

  Lemma be_stmt_flags : forall b s st, BInv b -> InOK b st -> CleanOK b st -> (stmt_oos b s = false \/ fst st = true) ->
    InOK (fst (be_stmt valid bdef b s)) (flags_after st (snd (be_stmt valid bdef b s))) /\
    CleanOK (fst (be_stmt valid bdef b s)) (flags_after st (snd (be_stmt valid bdef b s))) /\
    (fst (flags_after st (snd (be_stmt valid bdef b s))) = false -> fst st = false).
  Proof.
    intros b s [n i] HB Hin Hcl Hoos. unfold InOK, CleanOK in *. cbn [fst snd] in *.
    assert (Hsnapc : n = false -> Clean (match b_snap b with Some m => m | None => b_sess b end)).
    { intros Hn. destruct (Hcl Hn) as [H1 H2]. destruct (b_snap b) eqn:Es; auto. }
    assert (Hsame : (b_txn b = TI -> i = false) /\
                    (n = false -> Clean (b_sess b) /\ (forall m, b_snap b = Some m -> Clean m)) /\
                    (n = false -> n = false)) by auto.
    destruct s; cbn [be_stmt].
    - (* SBegin *) case_eq (b_txn b); intros Et;
        cbn [fst snd flags_after fold_left flag_step b_txn b_sess b_snap]; auto.
      split; [discriminate|]. split; auto. intros Hn. destruct (Hcl Hn) as [H1 H2]. split; auto.
      intros m Hm. inversion Hm; subst. auto.
    - (* SCommit *) case_eq (b_txn b); intros Et; rewrite flags_done; unfold done, do_rollback;
        cbn [fst snd flag_step b_txn b_sess b_snap]; (split; [try discriminate; auto|]); (split; [|auto]);
        intros Hn; destruct (Hcl Hn) as [H1 H2]; split; auto; intros; discriminate.
    - (* SRollback *) rewrite flags_done; unfold done, do_rollback;
        cbn [fst snd flag_step b_txn b_sess b_snap]. split; [auto|]. split; [|auto].
      intros Hn. split; auto. intros; discriminate.
    - (* SSet *) case_eq (b_txn b); intros Et.
      + (* TI *) destruct (valid k v) eqn:Ev.
        * destruct local; cbn [is_ti].
          -- cbn [fst snd flags_after fold_left flag_step].
             split; [auto|]. split.
             ++ intros Hn. apply orb_false_iff in Hn. destruct Hn. auto.
             ++ intros Hn. apply orb_false_iff in Hn. tauto.
          -- rewrite flags_done. unfold done. cbn [fst snd flag_step b_txn b_sess b_snap].
             split; [auto|]. rewrite (Hin Et). cbn [negb]. rewrite orb_true_r.
             split; intros; discriminate.
        * unfold fail. rewrite Et. cbn [fst snd flags_after fold_left flag_step b_txn b_sess b_snap]. auto.
      + (* TT *) destruct (valid k v) eqn:Ev.
        * destruct local; cbn [is_ti]; rewrite flags_done; unfold done;
            cbn [fst snd flag_step b_txn b_sess b_snap]; (split; [try discriminate; auto|]).
          -- split; intros Hn; apply orb_false_iff in Hn; destruct Hn as [Hn _]; auto.
          -- split; intros Hn; apply orb_false_iff in Hn; destruct Hn as [Hn _]; auto.
             destruct Hoos as [Hoos|Hoos]; [|congruence].
             cbn [stmt_oos] in Hoos. rewrite Et in Hoos. cbn [is_ti negb] in Hoos. rewrite andb_true_r in Hoos.
             apply negb_false_iff in Hoos.
             destruct (Hcl Hn) as [H1 H2]. split; auto. apply clean_pset_tracked; auto.
        * unfold fail. rewrite Et. cbn [fst snd flags_after fold_left flag_step b_txn b_sess b_snap].
          split; [discriminate|]. auto.
      + (* TE *) cbn [fst snd flags_after fold_left flag_step]. auto.
    - (* SReset *) case_eq (b_txn b); intros Et; try rewrite flags_done; unfold done;
        cbn [fst snd flags_after fold_left flag_step b_txn b_sess b_snap]; auto;
        (split; [try discriminate; auto|]); (split; [|auto]);
        intros Hn; destruct (Hcl Hn) as [H1 H2]; split; auto; apply clean_reset; auto.
    - (* SResetAll *) case_eq (b_txn b); intros Et; try rewrite flags_done; unfold done;
        cbn [fst snd flags_after fold_left flag_step b_txn b_sess b_snap]; auto;
        (split; [try discriminate; auto|]); (split; [|auto]);
        intros Hn; destruct (Hcl Hn) as [H1 H2]; split; auto; apply clean_bdef.
    - (* SSelect *) case_eq (b_txn b); intros Et; cbn [fst snd flags_after fold_left flag_step]; auto.
    - (* SFail *) case_eq (b_txn b); intros Et; unfold fail; rewrite ?Et;
        cbn [fst snd flags_after fold_left flag_step b_txn b_sess b_snap]; auto.
      split; [discriminate|]. auto.
    - (* SNoop *) case_eq (b_txn b); intros Et; cbn [fst snd flags_after fold_left]; auto;
        destruct t; cbn [flag_step fst snd]; auto;
        try (split; [auto|]; split; intros Hn; apply orb_false_iff in Hn; destruct Hn as [Hn _]; auto; fail);
        try (split; [auto|]; split; auto; fail).
    - (* SDiscardAll *) case_eq (b_txn b); intros Et; try rewrite flags_done; unfold done, fail; rewrite ?Et;
        cbn [fst snd flags_after fold_left flag_step b_txn b_sess b_snap]; auto.
      + split; [auto|]. split; [|auto]. intros Hn. destruct (Hcl Hn) as [H1 H2]. split; auto. apply clean_bdef.
      + split; [discriminate|]. auto.
  Qed.

  Lemma msg_oos_cons : forall b s r,
    msg_oos valid bdef b (s :: r) =
    stmt_oos b s || (if has_err (snd (be_stmt valid bdef b s)) then false
                     else msg_oos valid bdef (fst (be_stmt valid bdef b s)) r).
  Proof. intros. cbn [msg_oos]. destruct (be_stmt valid bdef b s). reflexivity. Qed.

  Lemma be_msg_flags : forall ss b st, BInv b -> InOK b st -> CleanOK b st ->
    (msg_oos valid bdef b ss = false \/ fst st = true) ->
    InOK (fst (be_msg valid bdef b ss)) (flags_after st (snd (be_msg valid bdef b ss))) /\
    CleanOK (fst (be_msg valid bdef b ss)) (flags_after st (snd (be_msg valid bdef b ss))) /\
    (fst (flags_after st (snd (be_msg valid bdef b ss))) = false -> fst st = false).
  Proof.
    induction ss as [|s r IH]; intros b st HB Hin Hcl Hoos.
    - cbn. auto.
    - assert (Hs : stmt_oos b s = false \/ fst st = true).
      { destruct Hoos as [Hoos|Hoos]; auto. rewrite msg_oos_cons in Hoos. apply orb_false_iff in Hoos. tauto. }
      destruct (be_stmt_flags b s st HB Hin Hcl Hs) as (H1 & H2 & H3).
      rewrite be_msg_cons. destruct (has_err (snd (be_stmt valid bdef b s))) eqn:Ee; auto.
      cbn [fst snd]. rewrite flags_after_app.
      assert (Hr : msg_oos valid bdef (fst (be_stmt valid bdef b s)) r = false \/
                   fst (flags_after st (snd (be_stmt valid bdef b s))) = true).
      { destruct Hoos as [Hoos|Hoos].
        - rewrite msg_oos_cons in Hoos. apply orb_false_iff in Hoos. rewrite Ee in Hoos. tauto.
        - right. destruct (fst (flags_after st (snd (be_stmt valid bdef b s)))) eqn:Ef; auto.
          rewrite H3 in Hoos by auto. discriminate. }
      destruct (IH _ _ (be_stmt_binv b s HB) H1 H2 Hr) as (I1 & I2 & I3). auto.
  Qed.

  Definition Quies (b : backend) (st : bool * bool) : Prop := snd st = negb (is_ti (b_txn b)).

  Lemma be_query_flags : forall ss b st, BInv b -> InOK b st -> CleanOK b st ->
    (msg_oos valid bdef b ss = false \/ fst st = true) ->
    Quies (fst (be_query valid bdef b ss)) (flags_after st (snd (be_query valid bdef b ss))) /\
    CleanOK (fst (be_query valid bdef b ss)) (flags_after st (snd (be_query valid bdef b ss))) /\
    (fst (flags_after st (snd (be_query valid bdef b ss))) = false -> fst st = false).
  Proof.
    intros ss b st HB Hin Hcl Hoos. destruct (be_msg_flags ss b st HB Hin Hcl Hoos) as (H1 & H2 & H3).
    rewrite be_query_eq. cbn [fst snd]. rewrite flags_after_app.
    unfold flags_after at 1 3 5. cbn [fold_left flag_step]. unfold Quies, CleanOK in *. cbn [fst snd]. auto.
  Qed.

  Lemma flags_snd_indep : forall evs n n' i, snd (flags_after (n, i) evs) = snd (flags_after (n', i) evs).
  Proof.
    induction evs as [|e evs IH]; intros; auto. unfold flags_after in *. cbn [fold_left].
    destruct e as [k v|t| |t]; cbn [flag_step fst snd]; auto. destruct t; cbn [fst snd]; auto.
  Qed.

  Lemma be_query_quies : forall ss b n i, BInv b -> InOK b (n, i) ->
    Quies (fst (be_query valid bdef b ss)) (flags_after (n, i) (snd (be_query valid bdef b ss))).
  Proof.
    intros ss b n i HB Hin.
    assert (Hin' : InOK b (true, i)) by exact Hin.
    assert (Hcl : CleanOK b (true, i)) by (intros H; discriminate H).
    destruct (be_query_flags ss b (true, i) HB Hin' Hcl (or_intror eq_refl)) as (H1 & _ & _).
    unfold Quies in *. rewrite (flags_snd_indep _ n true i). auto.
  Qed.

  (** *** server-level facts *)
  Definition flags (p : pgs) : bool * bool := (need_set p, in_txn p).
  Definition BelOK (sv : srv) : Prop := Agree (bel (pg sv)) (truth sv).
  Record SrvInv (sv : srv) : Prop := { si_b : BInv (truth sv); si_bel : BelOK sv }.
  Record Idle (sv : srv) : Prop := {
    id_ti : b_txn (truth sv) = TI; id_need : need_set (pg sv) = false; id_in : in_txn (pg sv) = false }.

  Lemma quies_inok : forall b st, Quies b st -> InOK b st.
  Proof. unfold Quies, InOK. intros b st H Ht. rewrite H, Ht. reflexivity. Qed.

  Lemma agree_valid : forall m b, BInv b -> Agree m b -> AllValid m.
  Proof.
    intros m b HB Ha k v Hk Hg. rewrite Ha in Hg by auto. unfold eff in Hg.
    destruct (pget k (b_loc b)) eqn:El.
    - inversion Hg; subst. eapply (bi_vl b HB); eauto.
    - eapply (bi_vs b HB); eauto.
  Qed.

  Lemma srv_query_spec : forall sv ss,
    srv_query valid bdef sv ss =
    mkS (fst (be_query valid bdef (truth sv) ss))
        (mkP (set_from_list (bel (pg sv)) (frames (snd (be_query valid bdef (truth sv) ss))) false)
             (fst (flags_after (flags (pg sv)) (snd (be_query valid bdef (truth sv) ss))))
             (snd (flags_after (flags (pg sv)) (snd (be_query valid bdef (truth sv) ss))))
             (prep_after (need_prep (pg sv)) (snd (be_query valid bdef (truth sv) ss)))).
  Proof.
    intros. unfold srv_query. destruct (be_query valid bdef (truth sv) ss) as [b' evs] eqn:E.
    rewrite recv_all_spec. reflexivity.
  Qed.

  Lemma srv_query_inv : forall sv ss, SrvInv sv -> SrvInv (srv_query valid bdef sv ss).
  Proof.
    intros sv ss [HB Hb]. rewrite srv_query_spec.
    destruct (be_query_agree ss (truth sv) (bel (pg sv)) HB Hb) as [H1 H2].
    constructor; cbn [truth pg bel]; auto.
  Qed.

  Lemma fresh_inv : SrvInv (fresh_srv bdef) /\ Idle (fresh_srv bdef) /\ Clean (b_sess (truth (fresh_srv bdef))).
  Proof.
    split; [|split].
    - constructor; cbn [fresh_srv truth pg bel]; [apply binv_fresh|].
      intros k Hk. rewrite pool_bdef by auto. reflexivity.
    - constructor; reflexivity.
    - apply clean_bdef.
  Qed.

  Lemma has_err_report : forall b b', has_err (report b b') = false.
  Proof.
    intros. unfold report, has_err. generalize REPORTED. induction l as [|k l IH]; auto.
    cbn [flat_map]. rewrite existsb_app. rewrite IH.
    destruct (opt_beq (eff b k) (eff b' k)); reflexivity.
  Qed.

  Lemma has_err_done : forall b b' t, has_err (snd (done b b' t)) = false.
  Proof.
    intros. unfold done. cbn [snd]. unfold has_err. rewrite existsb_app.
    fold (has_err (report b b')). rewrite has_err_report. reflexivity.
  Qed.

  Lemma be_msg_one : forall b s, fst (be_msg valid bdef b [s]) = fst (be_stmt valid bdef b s).
  Proof. intros. rewrite be_msg_cons. destruct (has_err (snd (be_stmt valid bdef b s))); reflexivity. Qed.

  Lemma msg_oos_one : forall b s, stmt_oos b s = false -> msg_oos valid bdef b [s] = false.
  Proof.
    intros. rewrite msg_oos_cons. rewrite H. cbn [orb msg_oos].
    destruct (has_err (snd (be_stmt valid bdef b s))); reflexivity.
  Qed.

  Lemma be_msg_cleanup : forall b ra da, b_txn b = TI -> b_loc b = [] ->
    fst (be_msg valid bdef b (cleanup_stmts ra da)) = mkB (if ra then bdef else b_sess b) [] (b_snap b) TI.
  Proof.
    intros [se lo sn tx] ra da Ht Hl. cbn [b_txn b_loc] in *. subst tx lo.
    destruct ra, da; unfold cleanup_stmts; cbn [app];
      repeat (rewrite be_msg_cons; cbn [be_stmt b_txn b_sess b_loc b_snap has_err existsb is_re snd fst orb];
              rewrite ?has_err_done; unfold done; cbn [fst snd b_txn b_sess b_loc b_snap]);
      cbn [be_msg fst]; reflexivity.
  Qed.

  Lemma msg_oos_cleanup : forall b ra da, msg_oos valid bdef b (cleanup_stmts ra da) = false.
  Proof.
    intros b ra da. unfold cleanup_stmts.
    assert (H : forall ss b0, (forall s, In s ss -> forall b1, stmt_oos b1 s = false) -> msg_oos valid bdef b0 ss = false).
    { induction ss as [|s ss IH]; intros b0 Hs; auto. rewrite msg_oos_cons. rewrite (Hs s (or_introl eq_refl)). cbn [orb].
      destruct (has_err (snd (be_stmt valid bdef b0 s))); auto. apply IH. intros. apply Hs. right. auto. }
    apply H. intros s Hin b1. destruct ra, da; cbn [app In] in Hin; intuition; subst; reflexivity.
  Qed.

  (** checkin_cleanup leaves the connection idle, in agreement with pgcat's belief, and (if the
      flags were sound) clean *)
  Lemma checkin_lemma : forall sv, SrvInv sv -> Quies (truth sv) (flags (pg sv)) ->
    let sv' := fst (checkin valid bdef sv) in
    SrvInv sv' /\ Idle sv' /\
    (CleanOK (truth sv) (flags (pg sv)) -> Clean (b_sess (truth sv'))).
  Proof.
    intros sv HI HQ. unfold checkin. cbn zeta.
    (* step 1: ROLLBACK if in transaction *)
    set (s1 := if in_txn (pg sv) then srv_query valid bdef sv [SRollback] else sv).
    assert (H1 : SrvInv s1 /\ b_txn (truth s1) = TI /\ in_txn (pg s1) = false /\
                 (CleanOK (truth sv) (flags (pg sv)) -> CleanOK (truth s1) (flags (pg s1)))).
    { unfold s1. destruct (in_txn (pg sv)) eqn:Ei.
      - split; [apply srv_query_inv; auto|].
        rewrite srv_query_spec. cbn [truth pg in_txn need_set flags].
        assert (Ht : b_txn (fst (be_query valid bdef (truth sv) [SRollback])) = TI).
        { rewrite be_query_eq. cbn [fst]. rewrite be_msg_one. reflexivity. }
        split; [exact Ht|].
        destruct HI as [HB Hb].
        split.
        + pose proof (be_query_quies [SRollback] (truth sv) (need_set (pg sv)) (in_txn (pg sv)) HB (quies_inok _ _ HQ)) as Hq.
          unfold Quies in Hq. unfold flags. rewrite Hq. rewrite Ht. reflexivity.
        + intros Hc.
          destruct (be_query_flags [SRollback] (truth sv) (flags (pg sv)) HB (quies_inok _ _ HQ) Hc
                      (or_introl (msg_oos_one (truth sv) SRollback eq_refl))) as (_ & H2 & _).
          unfold CleanOK in *. cbn [fst snd] in *. exact H2.
      - split; auto. unfold Quies in HQ. unfold flags in HQ. cbn [snd] in HQ. rewrite Ei in HQ.
        destruct (b_txn (truth sv)) eqn:Et; try discriminate. auto. }
    destruct H1 as (HI1 & Ht1 & Hi1 & Hc1).
    destruct (need_set (pg s1) || need_prep (pg s1)) eqn:En; cbn [fst].
    - (* RESET ROLE; [RESET ALL;] [DEALLOCATE ALL;] *)
      set (cs := cleanup_stmts (need_set (pg s1)) (need_prep (pg s1))).
      pose proof (srv_query_inv s1 cs HI1) as HI2.
      rewrite srv_query_spec in *. cbn [truth pg bel need_set in_txn] in *.
      pose proof HI1 as [HB1 _]. destruct (bi_ti _ HB1 Ht1) as [Hl1 Hs1].
      assert (Hb2 : fst (be_query valid bdef (truth s1) cs) =
                    mkB (if need_set (pg s1) then bdef else b_sess (truth s1)) [] (b_snap (truth s1)) TI).
      { rewrite be_query_eq. cbn [fst]. apply be_msg_cleanup; auto. }
      destruct HI2 as [HB2 Hbel2]. cbn [truth pg bel] in *.
      split; [constructor; cbn [truth pg bel]; auto|].
      split.
      + constructor; cbn [truth pg need_set in_txn]; auto.
        * rewrite Hb2. reflexivity.
        * assert (Hin1 : InOK (truth s1) (need_set (pg s1), in_txn (pg s1))).
          { intros _. exact Hi1. }
          pose proof (be_query_quies cs (truth s1) (need_set (pg s1)) (in_txn (pg s1)) HB1 Hin1) as Hq.
          unfold Quies in Hq. unfold flags. rewrite Hq. rewrite Hb2. reflexivity.
      + intros Hc. rewrite Hb2. cbn [b_sess]. destruct (need_set (pg s1)) eqn:Ens; [apply clean_bdef|].
        apply Hc1 in Hc. unfold CleanOK, flags in Hc. cbn [fst] in Hc. destruct (Hc Ens) as [Hx _]. exact Hx.
    - apply orb_false_iff in En. destruct En as [En Ep].
      split; [auto|]. split.
      + constructor; auto.
      + intros Hc. apply Hc1 in Hc. unfold CleanOK, flags in Hc. cbn [fst] in Hc. destruct (Hc En) as [Hx _]. exact Hx.
  Qed.

  (** *** sync_parameters *)
  Lemma compare_in : forall self inc k v, In (k, v) (compare_params self inc) ->
    tracked k = true /\ pget k inc = Some v.
  Proof.
    intros self inc k v H. unfold compare_params in H. apply in_flat_map in H.
    destruct H as [x [Hx Hi]]. destruct (pget x inc) eqn:E1; [|destruct Hi].
    destruct (pget x self) eqn:E2; [|destruct Hi].
    destruct (beq b0 b); [destruct Hi|]. destruct Hi as [Hi|[]]. inversion Hi; subst.
    split; auto. apply tracked_in. auto.
  Qed.

  Lemma compare_notin : forall self inc k, Has5 self -> Has5 inc -> tracked k = true ->
    ~ In k (map fst (compare_params self inc)) -> pget k inc = pget k self.
  Proof.
    intros self inc k Hs Hi Hk Hn. specialize (Hs k Hk). specialize (Hi k Hk).
    destruct (pget k inc) as [iv|] eqn:E1; [|congruence].
    destruct (pget k self) as [v|] eqn:E2; [|congruence].
    destruct (beq v iv) eqn:E; [apply beq_eq in E; congruence|].
    exfalso. apply Hn. apply in_map_iff. exists (k, iv). split; auto.
    unfold compare_params. apply in_flat_map. exists k. split; [apply tracked_in; auto|].
    rewrite E1, E2, E. left. auto.
  Qed.

  Lemma compare_keys_nodup : forall self inc, NoDup (map fst (compare_params self inc)).
  Proof.
    intros. unfold compare_params. pose proof nodup_tracked as Hd. revert Hd. generalize TRACKED.
    induction l as [|k l IH]; intros Hd; [constructor|].
    inversion Hd as [|? ? Hn Hl]; subst. cbn [flat_map]. rewrite map_app. 
    destruct (pget k inc) as [iv|]; [|cbn [map app]; auto].
    destruct (pget k self) as [v|]; [|cbn [map app]; auto].
    destruct (beq v iv); cbn [map app fst]; auto.
    constructor; auto. intros Hc. apply Hn. apply in_map_iff in Hc. destruct Hc as [[k2 v2] [Hf Hi]].
    cbn [fst] in Hf. subst k2. apply in_flat_map in Hi. destruct Hi as [x [Hx Hi]].
    destruct (pget x inc); [|destruct Hi]. destruct (pget x self); [|destruct Hi].
    destruct (beq b0 b); [destruct Hi|]. destruct Hi as [Hi|[]]. inversion Hi; subst. auto.
  Qed.

  Lemma tracked_ident : forall k, tracked k = true -> ident_key k = true.
  Proof. intros k H. apply tracked_cases in H. intuition; subst; reflexivity. Qed.

  Lemma pset_all_notin : forall d m k, ~ In k (map fst d) -> pget k (pset_all m d) = pget k m.
  Proof.
    induction d as [|[k1 v1] d IH]; intros m k Hn; auto.
    unfold pset_all in *. cbn [fold_left fst snd]. rewrite IH.
    - apply pget_pset_neq. apply beq_neq. intros E. apply Hn. left. auto.
    - intros Hc. apply Hn. right. auto.
  Qed.

  Lemma pset_all_in : forall d m k v, NoDup (map fst d) -> In (k, v) d -> pget k (pset_all m d) = Some v.
  Proof.
    induction d as [|[k1 v1] d IH]; intros m k v Hd Hi; [destruct Hi|].
    cbn [map fst] in Hd. inversion Hd as [|? ? Hn Hl]; subst.
    unfold pset_all in *. cbn [fold_left fst snd]. destruct Hi as [Hi|Hi].
    - inversion Hi; subst. fold (pset_all (pset k v m) d). rewrite pset_all_notin by auto. apply pget_pset_eq.
    - apply IH; auto.
  Qed.

  Lemma clean_pset_all : forall d m, (forall k v, In (k, v) d -> tracked k = true) -> Clean m -> Clean (pset_all m d).
  Proof.
    induction d as [|[k1 v1] d IH]; intros m Hk Hc; auto.
    unfold pset_all in *. cbn [fold_left fst snd]. apply IH.
    - intros. eapply Hk. right. eauto.
    - apply clean_pset_tracked; auto. eapply Hk. left. eauto.
  Qed.

  Lemma be_msg_sets : forall d b, b_txn b = TI -> b_loc b = [] ->
    (forall k v, In (k, v) d -> valid k v = true) ->
    fst (be_msg valid bdef b (map (fun kv => SSet false (fst kv) (snd kv)) d)) =
    mkB (pset_all (b_sess b) d) [] (b_snap b) TI.
  Proof.
    induction d as [|[k v] d IH]; intros b Ht Hl Hv.
    - cbn. destruct b. cbn in *. subst. reflexivity.
    - cbn [map fst snd]. rewrite be_msg_cons.
      assert (E : be_stmt valid bdef b (SSet false k v) =
                  done b (mkB (pset k v (b_sess b)) [] (b_snap b) TI) TgSet).
      { cbn [be_stmt]. rewrite Ht. rewrite (Hv k v) by (left; auto). rewrite Hl. reflexivity. }
      rewrite E. rewrite has_err_done. cbn [fst done]. rewrite IH; auto.
      intros. eapply Hv. right. eauto.
  Qed.

  Lemma sync_lemma : forall sv cm, SrvInv sv -> Idle sv -> Has5 cm -> AllValid cm ->
    let sv' := sync_parameters valid bdef sv cm in
    SrvInv sv' /\ Idle sv' /\ Agree cm (truth sv') /\
    (Clean (b_sess (truth sv)) -> Clean (b_sess (truth sv'))).
  Proof.
    intros sv cm HI Hid Hh Hv. cbn zeta. unfold sync_parameters, sync_diff.
    pose proof HI as [HB Hbel]. pose proof Hid as [Ht Hn Hi].
    assert (Hhb5 : Has5 (bel (pg sv))).
    { intros k Hk. rewrite Hbel by auto. apply binv_effsome; auto. }
    destruct (bi_ti _ HB Ht) as [Hloc Hsnap].
    destruct (compare_params (bel (pg sv)) cm) as [|p0 d0] eqn:Ed.
    - split; auto. split; auto. split; auto.
      intros k Hk. rewrite <- Hbel by auto. apply compare_notin; auto. rewrite Ed. auto.
    - set (d := p0 :: d0) in *.
      assert (D1 : forall k v, In (k, v) d -> tracked k = true /\ pget k cm = Some v).
      { intros k v Hin. rewrite <- Ed in Hin. eapply compare_in; eauto. }
      assert (D3 : NoDup (map fst d)). { rewrite <- Ed. apply compare_keys_nodup. }
      assert (Hko : keys_ok d = true).
      { unfold keys_ok. apply forallb_forall. intros [k v] Hin. cbn [fst]. apply tracked_ident. apply (D1 k v); auto. }
      assert (Hval : forall k v, In (k, v) d -> valid k v = true).
      { intros k v Hin. destruct (D1 k v Hin) as [Hk Hg]. eapply Hv; eauto. }
      assert (Hwire : apply_set_batch (scs_off (truth sv)) (gen_batch d) = Some d) by (apply no_injection; auto).
      (* the model hands the generated text to the backend as is (values are C strings) *)
      assert (Hvf : forallb (fun kv => valid (fst kv) (snd kv)) d = true).
      { apply forallb_forall. intros [k v] Hin. cbn [fst snd]. auto. }
      set (ss := map (fun kv => SSet false (fst kv) (snd kv)) d).
      assert (Esql : be_sql valid bdef (truth sv) (gen_batch d) = be_query valid bdef (truth sv) ss).
      { unfold be_sql. rewrite Hwire. rewrite Hvf. reflexivity. }
      rewrite Esql.
      destruct (be_query valid bdef (truth sv) ss) as [b' evs] eqn:Eq.
      assert (Eb : b' = fst (be_query valid bdef (truth sv) ss)) by (rewrite Eq; auto).
      assert (Ee : evs = snd (be_query valid bdef (truth sv) ss)) by (rewrite Eq; auto).
      rewrite recv_all_spec. cbn [snd bel in_txn].
      assert (Hb' : b' = mkB (pset_all (b_sess (truth sv)) d) [] (b_snap (truth sv)) TI).
      { rewrite Eb. rewrite be_query_eq. cbn [fst]. apply be_msg_sets; auto. }
      destruct (be_query_agree ss (truth sv) (bel (pg sv)) HB Hbel) as [HB2 Hbel2].
      rewrite <- Eb, <- Ee in *.
      split; [constructor; cbn [truth pg bel]; auto|].
      split.
      + constructor; cbn [truth pg need_set in_txn]; auto.
        * rewrite Hb'. reflexivity.
        * assert (Hin : InOK (truth sv) (need_set (pg sv), in_txn (pg sv))) by (intros _; exact Hi).
          pose proof (be_query_quies ss (truth sv) _ _ HB Hin) as Hq. rewrite <- Eb, <- Ee in Hq.
          unfold Quies in Hq. rewrite Hq. rewrite Hb'. reflexivity.
      + split.
        * intros k Hk. cbn [truth]. rewrite Hb'. unfold eff. cbn [b_loc b_sess pget].
          destruct (in_dec (list_eq_dec N.eq_dec) k (map fst d)) as [Hin|Hnin].
          -- apply in_map_iff in Hin. destruct Hin as [[k2 v2] [Hf Hin]]. cbn [fst] in Hf. subst k2.
             rewrite (pset_all_in d _ k v2) by auto. apply (D1 k v2). auto.
          -- rewrite pset_all_notin by auto.
             rewrite (compare_notin (bel (pg sv)) cm k) by (auto; rewrite Ed; auto).
             rewrite Hbel by auto. unfold eff. rewrite Hloc. reflexivity.
        * intros Hc. cbn [truth]. rewrite Hb'. cbn [b_sess]. apply clean_pset_all; auto.
          intros k v Hin. apply (D1 k v). auto.
  Qed.

  (** *** one client message relayed to the server the client holds *)
  Lemma exchange : forall sv1 cm ss, SrvInv sv1 -> Has5 cm -> Agree cm (truth sv1) ->
    InOK (truth sv1) (flags (pg sv1)) ->
    let b' := fst (be_query valid bdef (truth sv1) ss) in
    let evs := snd (be_query valid bdef (truth sv1) ss) in
    let cm2 := set_from_list cm (frames evs) false in
    let p' := snd (recv_all (Some cm) (pg sv1) evs) in
    recv_all (Some cm) (pg sv1) evs = (Some cm2, p') /\
    SrvInv (mkS b' p') /\ Agree cm2 b' /\ Has5 cm2 /\ AllValid cm2 /\ Quies b' (flags p') /\
    (CleanOK (truth sv1) (flags (pg sv1)) -> msg_oos valid bdef (truth sv1) ss = false -> CleanOK b' (flags p')) /\
    (forall k v, In (k, v) (frames evs) -> In k REPORTED).
  Proof.
    intros sv1 cm ss [HB Hbel] Hh Ha Hin. cbn zeta.
    rewrite recv_all_spec. cbn [snd fst].
    destruct (be_query_agree ss (truth sv1) cm HB Ha) as [HB2 Ha2].
    destruct (be_query_agree ss (truth sv1) (bel (pg sv1)) HB Hbel) as [_ Hbel2].
    split; [reflexivity|].
    split; [constructor; cbn [truth pg bel]; auto|].
    split; [auto|]. split; [apply has5_set_from_list; auto|].
    split; [eapply agree_valid; eauto|].
    split.
    - unfold flags at 1. cbn [need_set in_txn]. 
      pose proof (be_query_quies ss (truth sv1) (need_set (pg sv1)) (in_txn (pg sv1)) HB Hin) as Hq.
      unfold Quies in *. cbn [snd]. exact Hq.
    - split.
      + intros Hc Ho.
        destruct (be_query_flags ss (truth sv1) (flags (pg sv1)) HB Hin Hc (or_introl Ho)) as (_ & H2 & _).
        unfold CleanOK, flags in *. cbn [fst snd need_set in_txn] in *. exact H2.
      + intros k v. apply be_query_keys.
  Qed.

  (** *** what the client was told *)
  Definition ToldOK (cl : cli) : Prop := forall k, tracked k = true -> pget k (c_map cl) = pget k (c_told cl).

  Lemma told_step : forall fr m t, (forall k v, In (k, v) fr -> In k REPORTED) ->
    (forall k, tracked k = true -> pget k m = pget k t) ->
    forall k, tracked k = true -> pget k (set_from_list m fr false) = pget k (pset_all t fr).
  Proof.
    induction fr as [|[k1 v1] fr IH]; intros m t Hr Hmt k Hk; auto.
    unfold set_from_list, pset_all in *. cbn [fold_left fst snd]. apply IH; auto.
    - intros. eapply Hr. right. eauto.
    - intros k0 H0. rewrite pget_set_param by auto. rewrite (recase_reported k1) by (eapply Hr; left; eauto).
      destruct (beq k0 k1) eqn:E.
      + apply beq_eq in E. subst. rewrite pget_pset_eq. auto.
      + rewrite pget_pset_neq by auto. auto.
  Qed.

  Lemma allvalid_set_from_list : forall ps m, AllValid m ->
    (forall k v, In (k, v) ps -> tracked (recase k) = true -> valid (recase k) v = true) ->
    AllValid (set_from_list m ps false).
  Proof.
    induction ps as [|[k v] ps IH]; intros m Hm Hp; auto.
    unfold set_from_list in *. cbn [fold_left fst snd]. apply IH.
    - unfold set_param. rewrite orb_false_r. destruct (tracked (recase k)) eqn:Et; auto.
      apply allvalid_pset; auto. intros _. apply (Hp k v); auto. left. auto.
    - intros. eapply Hp; eauto. right. auto.
  Qed.

  Lemma pool_has5 : Has5 (pool bdef).
  Proof. intros k Hk. rewrite pool_bdef by auto. apply bdef_has5. auto. Qed.

  Lemma pool_valid : AllValid (pool bdef).
  Proof. intros k v Hk Hg. rewrite pool_bdef in Hg by auto. eapply bdef_valid; eauto. Qed.

  Lemma upd_eq : forall A (f : nat -> A) i x, upd f i x i = x.
  Proof. intros. unfold upd. rewrite Nat.eqb_refl. auto. Qed.

  Lemma upd_neq : forall A (f : nat -> A) i j x, j <> i -> upd f i x j = f j.
  Proof. intros. unfold upd. destruct (Nat.eqb j i) eqn:E; auto. apply Nat.eqb_eq in E. contradiction. Qed.

  Lemma in_log_if : forall b e l x, In x (log_if b e l) -> x = e \/ In x l.
  Proof. intros. unfold log_if in H. destruct b; auto. destruct H; auto. Qed.

  Lemma dirty_clean : forall b, Clean (b_sess b) -> b_loc b = [] -> dirty_keys bdef b = [].
  Proof.
    intros b Hc Hl. unfold dirty_keys.
    assert (H : forall l, filter (fun k => negb (tracked k) && negb (opt_beq (eff b k) (pget k bdef))) l = []).
    { induction l as [|k l IH]; auto. cbn [filter]. rewrite IH.
      destruct (tracked k) eqn:Et; auto. cbn [negb andb].
      unfold eff. rewrite Hl. cbn [pget]. rewrite Hc by auto. rewrite opt_beq_refl. reflexivity. }
    apply H.
  Qed.

  Lemma tvals_ext : forall f g, (forall k, tracked k = true -> f k = g k) -> tvals f = tvals g.
  Proof. intros. unfold tvals. apply map_ext_in. intros k Hk. apply H. apply tracked_in. auto. Qed.

End WithParams.

(** ** The world: per-connection defaults [bdefs], the pool snapshot taken from connection [psrc] *)
Section World.
  Variable valid : bytes -> bytes -> bool.
  Variable bdefs : nat -> pmap.
  Variable psrc : nat.
  Variable hb : pgs -> bool.
  Variable session : nat -> bool.
  Hypothesis Hbdefs : forall s, bdef_ok valid (bdefs s) = true.
  Hypothesis Hhb : forall p, is_unclean p = true -> hb p = true.

  (** *** the world invariant *)
  Record Inv (w : world) : Prop := {
    inv_srv : forall s, SrvInv valid (w_srv w s);
    inv_idle : forall s, w_owner w s = None ->
      Idle (w_srv w s) /\ (w_oos w = false -> Clean (bdefs s) (b_sess (truth (w_srv w s))));
    inv_held : forall s c, w_owner w s = Some c ->
      exists cl, w_cli w c = Some cl /\ c_held cl = Some s /\
        Agree (c_map cl) (truth (w_srv w s)) /\ (in_txn (pg (w_srv w s)) = true \/ session c = true) /\
        Quies (truth (w_srv w s)) (flags (pg (w_srv w s))) /\
        (w_oos w = false -> CleanOK (bdefs s) (truth (w_srv w s)) (flags (pg (w_srv w s))));
    inv_cli : forall c cl, w_cli w c = Some cl ->
      Has5 (c_map cl) /\ AllValid valid (c_map cl) /\ ToldOK cl /\
      (forall s, c_held cl = Some s -> w_owner w s = Some c);
    inv_log : forall c s co dk bv cv evv, In (EvStmt c s co dk bv cv evv) (w_log w) ->
      bv = cv /\ (co = true -> w_oos w = false -> dk = []) }.

  Lemma inv_init : Inv (init bdefs).
  Proof.
    constructor; cbn [init w_srv w_cli w_owner w_oos w_log]; try (intros; discriminate).
    - intros s. apply (fresh_inv valid (bdefs s) (Hbdefs s)).
    - intros s _. destruct (fresh_inv valid (bdefs s) (Hbdefs s)) as (H1 & H2 & H3). auto.
    - intros. contradiction.
  Qed.

  Definition op_ok (o : op) : Prop :=
    match o with OConnect _ raw => connect_valid valid raw = true | _ => True end.

  Lemma release_spec : forall w c s sv cl oos lg,
    release valid bdefs w c s sv cl oos lg =
    mkW (upd (w_srv w) s (fst (checkin valid (bdefs s) sv))) (upd (w_cli w) c cl) (upd (w_owner w) s None) oos
        (log_if (fst (snd (checkin valid (bdefs s) sv)) || fst (snd (snd (checkin valid (bdefs s) sv)))
                 || snd (snd (snd (checkin valid (bdefs s) sv))))
                (EvClean s (fst (snd (checkin valid (bdefs s) sv))) (fst (snd (snd (checkin valid (bdefs s) sv))))
                         (snd (snd (snd (checkin valid (bdefs s) sv))))) lg).
  Proof. intros. unfold release. destruct (checkin valid (bdefs s) sv) as [sv' [rb [ra da]]]. reflexivity. Qed.

  Lemma inv_ext : forall w1 w2, (forall s, w_srv w1 s = w_srv w2 s) -> (forall c, w_cli w1 c = w_cli w2 c) ->
    (forall s, w_owner w1 s = w_owner w2 s) -> w_oos w1 = w_oos w2 -> w_log w1 = w_log w2 -> Inv w1 -> Inv w2.
  Proof.
    intros w1 w2 E1 E2 E3 E4 E5 H. constructor.
    - intros s. rewrite <- E1. apply (inv_srv w1 H).
    - intros s Ho. rewrite <- E1, <- E4. apply (inv_idle w1 H). rewrite E3. auto.
    - intros s c Ho. rewrite <- E3 in Ho. destruct (inv_held w1 H s c Ho) as [cl Hx]. exists cl.
      rewrite <- E1, <- E2, <- E4. exact Hx.
    - intros c cl Hc. rewrite <- E2 in Hc. destruct (inv_cli w1 H c cl Hc) as (A & B0 & C & D).
      split; auto. split; auto. split; auto. intros s Hs. rewrite <- E3. auto.
    - intros c s co dk bv cv evv Hin. rewrite <- E5 in Hin. rewrite <- E4. eapply (inv_log w1 H); eauto.
  Qed.

  Lemma step_inv : forall w o, op_ok o -> Inv w -> Inv (step valid bdefs psrc hb session w o).
  Proof.
    intros w o Hok HI. destruct o as [c raw|c s0 ss|c|c]; cbn [step].
    - (* OConnect *)
      destruct (w_cli w c) eqn:Ec; auto.
      destruct (startup_decode raw) as [ps|] eqn:Ed.
      + constructor; cbn [w_srv w_cli w_owner w_oos w_log].
        * apply (inv_srv w HI).
        * apply (inv_idle w HI).
        * intros s c' Ho. destruct (inv_held w HI s c' Ho) as [cl H]. exists cl.
          assert (c' <> c). { intros E. subst. destruct H as [H _]. congruence. }
          rewrite upd_neq by auto. exact H.
        * intros c' cl Hc. destruct (Nat.eq_dec c' c) as [E|E].
          -- subst. rewrite upd_eq in Hc. inversion Hc; subst. cbn [c_map c_told c_held].
             split; [apply has5_set_from_list; apply (pool_has5 valid (bdefs psrc) (Hbdefs psrc))|].
             split.
             { apply allvalid_set_from_list; [apply (pool_valid valid (bdefs psrc) (Hbdefs psrc))|].
               unfold op_ok, connect_valid in Hok. rewrite Ed in Hok. rewrite forallb_forall in Hok.
               intros k v Hin Ht. specialize (Hok (k, v) Hin). cbn [fst snd] in Hok. rewrite Ht in Hok.
               cbn [negb orb] in Hok. auto. }
             split; [intros k _; reflexivity|]. intros s Hs. discriminate.
          -- rewrite upd_neq in Hc by auto. apply (inv_cli w HI c' cl Hc).
        * intros c0 s co dk bv cv evv Hin. destruct Hin as [Hin|Hin]; [discriminate|].
          apply (inv_log w HI _ _ _ _ _ _ _ Hin).
      + constructor; cbn [w_srv w_cli w_owner w_oos w_log]; try apply HI.
        intros c0 s co dk bv cv evv Hin. destruct Hin as [Hin|Hin]; [discriminate|].
        apply (inv_log w HI _ _ _ _ _ _ _ Hin).
    - (* OQuery *)
      destruct (w_cli w c) as [cl|] eqn:Ec; auto.
      destruct (inv_cli w HI c cl Ec) as (Hh5 & Hav & Htold & Hown).
      set (tgt := match c_held cl with
                  | Some s => Some (s, false)
                  | None => match w_owner w s0 with None => Some (s0, true) | Some _ => None end
                  end).
      destruct tgt as [[s checkout]|] eqn:Etgt; auto.
      (* facts about the server right before the client's message reaches it *)
      set (sv0 := w_srv w s).
      set (sv1 := if checkout then sync_parameters valid (bdefs s) sv0 (c_map cl) else sv0).
      assert (Hpre : SrvInv valid sv1 /\ Agree (c_map cl) (truth sv1) /\ InOK (truth sv1) (flags (pg sv1)) /\
                     (w_oos w = false -> CleanOK (bdefs s) (truth sv1) (flags (pg sv1))) /\
                     (checkout = true -> w_oos w = false -> dirty_keys (bdefs s) (truth sv1) = []) /\
                     (w_owner w s = Some c \/ (w_owner w s = None /\ c_held cl = None))).
      { unfold tgt in Etgt. destruct (c_held cl) as [s'|] eqn:Eh.
        - inversion Etgt; subst s' checkout. unfold sv1, sv0.
          pose proof (Hown s eq_refl) as Ho.
          destruct (inv_held w HI s c Ho) as [cl' (Hc' & Hheld & Hag & Hit & Hq & Hcl)].
          rewrite Ec in Hc'. inversion Hc'; subst cl'.
          split; [apply (inv_srv w HI)|]. split; auto. split; [apply quies_inok; auto|].
          split; auto. split; [discriminate|]. left. auto.
        - destruct (w_owner w s0) eqn:Eo; [discriminate|]. inversion Etgt; subst s checkout.
          unfold sv1, sv0. destruct (inv_idle w HI s0 Eo) as [Hid Hcl].
          destruct (sync_lemma valid (bdefs s0) (Hbdefs s0) (w_srv w s0) (c_map cl) (inv_srv w HI s0) Hid Hh5 Hav) as (S1 & S2 & S3 & S4).
          split; auto. split; auto.
          destruct S2 as [St Sn Si].
          split; [intros _; unfold flags; cbn [snd]; exact Si|].
          split.
          + intros Hoo. unfold CleanOK, flags. cbn [fst]. intros _. split; [apply S4; auto|].
            intros m Hm. destruct S1 as [SB _]. destruct (bi_ti _ _ SB St) as [_ Hsn]. congruence.
          + split.
            * intros _ Hoo. destruct S1 as [SB _]. destruct (bi_ti _ _ SB St) as [Hl _].
              apply dirty_clean; auto.
            * right. auto. }
      destruct Hpre as (HS1 & Hag1 & Hin1 & Hcl1 & Hdk1 & Hown1).
      destruct (exchange valid (bdefs s) (Hbdefs s) sv1 (c_map cl) ss HS1 Hh5 Hag1 Hin1) as (Erecv & HS2 & Hag2 & Hh2 & Hav2 & Hq2 & Hcl2 & Hkeys).
      destruct (be_query valid (bdefs s) (truth sv1) ss) as [b' evs] eqn:Eq. cbn [fst snd] in *.
      rewrite Erecv.
      set (cm2 := set_from_list (c_map cl) (frames evs) false) in *.
      set (p' := snd (recv_all (Some (c_map cl)) (pg sv1) evs)) in *.
      set (oos := w_oos w || msg_oos valid (bdefs s) (truth sv1) ss).
      assert (Hoos : oos = false -> w_oos w = false /\ msg_oos valid (bdefs s) (truth sv1) ss = false).
      { unfold oos. intros H. apply orb_false_iff in H. auto. }
      assert (Htold2 : forall k, tracked k = true -> pget k cm2 = pget k (pset_all (c_told cl) (frames evs))).
      { apply told_step; auto. }
      (* the log *)
      assert (Hlog : forall lg0, (forall x, In x lg0 -> In x (w_log w) \/ (forall a b c d e f g, x <> EvStmt a b c d e f g)) ->
                forall c1 s1 co dk bv cv evv,
                In (EvStmt c1 s1 co dk bv cv evv)
                   (log_if (negb (is_nil_l (frames evs))) (EvTold c (frames evs))
                      (EvStmt c s checkout (dirty_keys (bdefs s) (truth sv1)) (tvals (eff (truth sv1)))
                              (tvals (fun k => pget k (c_map cl))) (tvals (fun k => pget k (c_est cl))) :: lg0)) ->
                bv = cv /\ (co = true -> oos = false -> dk = [])).
      { intros lg0 Hlg0 c1 s1 co dk bv cv evv Hin.
        apply in_log_if in Hin. destruct Hin as [Hin|Hin]; [discriminate|].
        destruct Hin as [Hin|Hin].
        - inversion Hin; subst. split.
          + apply tvals_ext. intros k Hk. symmetry. apply Hag1. auto.
          + intros Hco Ho. apply Hdk1; auto. apply Hoos. auto.
        - destruct (Hlg0 _ Hin) as [Hl|Hl]; [|exfalso; eapply Hl; eauto].
          destruct (inv_log w HI _ _ _ _ _ _ _ Hl) as [L1 L2]. split; auto.
          intros Hco Ho. apply L2; auto. apply Hoos. auto. }
      assert (Hlg1 : forall x, In x (log_if (negb (is_nil_l (if checkout then sync_diff sv0 (c_map cl) else [])))
                                       (EvSync c s (if checkout then sync_diff sv0 (c_map cl) else [])) (w_log w)) ->
                     In x (w_log w) \/ (forall a b c d e f g, x <> EvStmt a b c d e f g)).
      { intros x Hx. apply in_log_if in Hx. destruct Hx as [Hx|Hx]; auto. right. intros. subst. discriminate. }
      destruct (in_txn p' || session c) eqn:Eit.
      + (* the client keeps the server *)
        apply orb_true_iff in Eit.
        constructor; cbn [w_srv w_cli w_owner w_oos w_log].
        * intros s'. destruct (Nat.eq_dec s' s) as [E|E]; [subst; rewrite upd_eq; auto|rewrite upd_neq by auto; apply (inv_srv w HI)].
        * intros s' Ho. destruct (Nat.eq_dec s' s) as [E|E]; [subst; rewrite upd_eq in Ho; discriminate|].
          rewrite upd_neq in Ho by auto. rewrite upd_neq by auto.
          destruct (inv_idle w HI s' Ho) as [I1 I2]. split; auto. intros Hx. apply I2. apply Hoos. auto.
        * intros s' c' Ho. destruct (Nat.eq_dec s' s) as [E|E].
          -- subst. rewrite upd_eq in Ho. inversion Ho; subst c'. rewrite !upd_eq.
             eexists. split; [reflexivity|]. cbn [c_map c_held truth pg].
             split; auto. split; auto. split; auto. split; auto.
             intros Hx. destruct (Hoos Hx). apply Hcl2; auto.
          -- rewrite upd_neq in Ho by auto. rewrite (upd_neq _ (w_srv w)) by auto.
             destruct (inv_held w HI s' c' Ho) as [cl' (Hc' & Hheld & Hrest)].
             assert (c' <> c).
             { intros Ex. subst c'. rewrite Ec in Hc'. inversion Hc'; subst cl'.
               destruct Hown1 as [Ho1|[Ho1 Hn1]]; [|congruence].
               pose proof (Hown s' Hheld) as Hx. unfold tgt in Etgt. rewrite Hheld in Etgt. inversion Etgt. congruence. }
             exists cl'. rewrite upd_neq by auto. split; auto. split; auto.
             destruct Hrest as (R1 & R2 & R3 & R4). split; auto. split; auto. split; auto.
             intros Hx. apply R4. apply Hoos. auto.
        * intros c' cl' Hc'. destruct (Nat.eq_dec c' c) as [E|E].
          -- subst. rewrite upd_eq in Hc'. inversion Hc'; subst cl'. cbn [c_map c_told c_held].
             split; auto. split; auto. split; [exact Htold2|].
             intros s' Hs'. inversion Hs'; subst. apply upd_eq.
          -- rewrite upd_neq in Hc' by auto. destruct (inv_cli w HI c' cl' Hc') as (C1 & C2 & C3 & C4).
             split; auto. split; auto. split; auto. intros s' Hs'.
             destruct (Nat.eq_dec s' s) as [E2|E2].
             ++ subst s'. pose proof (C4 s Hs') as Hx. destruct Hown1 as [Ho1|[Ho1 _]]; congruence.
             ++ rewrite upd_neq by auto. auto.
        * intros c1 s1 co dk bv cv evv Hin. eapply Hlog; eauto.
      + (* the transaction is over: check-in and release *)
        rewrite release_spec.
        assert (Hq2' : Quies (truth (mkS b' p')) (flags (pg (mkS b' p')))) by exact Hq2.
        destruct (checkin_lemma valid (bdefs s) (Hbdefs s) (mkS b' p') HS2 Hq2') as (K1 & K2 & K3).
        constructor; cbn [w_srv w_cli w_owner w_oos w_log].
        * intros s'. destruct (Nat.eq_dec s' s) as [E|E]; [subst; rewrite upd_eq; auto|rewrite upd_neq by auto; apply (inv_srv w HI)].
        * intros s' Ho. destruct (Nat.eq_dec s' s) as [E|E].
          -- subst. rewrite upd_eq. split; auto. intros Hx. destruct (Hoos Hx). apply K3. apply Hcl2; auto.
          -- rewrite upd_neq in Ho by auto. rewrite upd_neq by auto.
             destruct (inv_idle w HI s' Ho) as [I1 I2]. split; auto. intros Hx. apply I2. apply Hoos. auto.
        * intros s' c' Ho. destruct (Nat.eq_dec s' s) as [E|E]; [subst; rewrite upd_eq in Ho; discriminate|].
          rewrite upd_neq in Ho by auto. rewrite (upd_neq _ (w_srv w)) by auto.
          destruct (inv_held w HI s' c' Ho) as [cl' (Hc' & Hheld & Hrest)].
          assert (c' <> c).
          { intros Ex. subst c'. rewrite Ec in Hc'. inversion Hc'; subst cl'.
            destruct Hown1 as [Ho1|[Ho1 Hn1]]; [|congruence].
            unfold tgt in Etgt. rewrite Hheld in Etgt. inversion Etgt. congruence. }
          exists cl'. rewrite upd_neq by auto. split; auto. split; auto.
          destruct Hrest as (R1 & R2 & R3 & R4). split; auto. split; auto. split; auto.
          intros Hx. apply R4. apply Hoos. auto.
        * intros c' cl' Hc'. destruct (Nat.eq_dec c' c) as [E|E].
          -- subst. rewrite upd_eq in Hc'. inversion Hc'; subst cl'. cbn [c_map c_told c_held].
             split; auto. split; auto. split; [exact Htold2|]. intros s' Hs'. discriminate.
          -- rewrite upd_neq in Hc' by auto. destruct (inv_cli w HI c' cl' Hc') as (C1 & C2 & C3 & C4).
             split; auto. split; auto. split; auto. intros s' Hs'.
             destruct (Nat.eq_dec s' s) as [E2|E2].
             ++ subst s'. pose proof (C4 s Hs') as Hx. destruct Hown1 as [Ho1|[Ho1 _]]; congruence.
             ++ rewrite upd_neq by auto. auto.
        * intros c1 s1 co dk bv cv evv Hin. apply in_log_if in Hin. destruct Hin as [Hin|Hin]; [discriminate|].
          eapply Hlog; eauto.
    - (* ODisconnect *)
      destruct (w_cli w c) as [cl|] eqn:Ec; auto.
      destruct (inv_cli w HI c cl Ec) as (Hh5 & Hav & Htold & Hown).
      destruct (c_held cl) as [s|] eqn:Eh.
      + rewrite release_spec. pose proof (Hown s eq_refl) as Ho.
        destruct (inv_held w HI s c Ho) as [cl' (Hc' & Hheld & Hag & Hit & Hq & Hcl)].
        destruct (checkin_lemma valid (bdefs s) (Hbdefs s) (w_srv w s) (inv_srv w HI s) Hq) as (K1 & K2 & K3).
        constructor; cbn [w_srv w_cli w_owner w_oos w_log].
        * intros s'. destruct (Nat.eq_dec s' s) as [E|E]; [subst; rewrite upd_eq; auto|rewrite upd_neq by auto; apply (inv_srv w HI)].
        * intros s' Ho'. destruct (Nat.eq_dec s' s) as [E|E].
          -- subst. rewrite upd_eq. split; auto.
          -- rewrite upd_neq in Ho' by auto. rewrite upd_neq by auto. apply (inv_idle w HI s' Ho').
        * intros s' c' Ho'. destruct (Nat.eq_dec s' s) as [E|E]; [subst; rewrite upd_eq in Ho'; discriminate|].
          rewrite upd_neq in Ho' by auto. rewrite (upd_neq _ (w_srv w)) by auto.
          destruct (inv_held w HI s' c' Ho') as [cl2 (Hc2 & Hheld2 & Hrest)].
          assert (c' <> c). { intros Ex. subst c'. rewrite Ec in Hc2. inversion Hc2; subst cl2. congruence. }
          exists cl2. rewrite upd_neq by auto. auto.
        * intros c' cl2 Hc2. destruct (Nat.eq_dec c' c) as [E|E]; [subst; rewrite upd_eq in Hc2; discriminate|].
          rewrite upd_neq in Hc2 by auto. destruct (inv_cli w HI c' cl2 Hc2) as (C1 & C2 & C3 & C4).
          split; auto. split; auto. split; auto. intros s' Hs'.
          destruct (Nat.eq_dec s' s) as [E2|E2].
          -- subst s'. pose proof (C4 s Hs'). congruence.
          -- rewrite upd_neq by auto. auto.
        * intros c1 s1 co dk bv cv evv Hin. apply in_log_if in Hin. destruct Hin as [Hin|Hin]; [discriminate|].
          apply (inv_log w HI _ _ _ _ _ _ _ Hin).
      + constructor; cbn [w_srv w_cli w_owner w_oos w_log]; try apply HI.
        * intros s' c' Ho'. destruct (inv_held w HI s' c' Ho') as [cl2 (Hc2 & Hheld2 & Hrest)].
          assert (c' <> c). { intros Ex. subst c'. rewrite Ec in Hc2. inversion Hc2; subst cl2. congruence. }
          exists cl2. rewrite upd_neq by auto. auto.
        * intros c' cl2 Hc2. destruct (Nat.eq_dec c' c) as [E|E]; [subst; rewrite upd_eq in Hc2; discriminate|].
          rewrite upd_neq in Hc2 by auto. apply (inv_cli w HI c' cl2 Hc2).
    - (* OAbort *)
      destruct (w_cli w c) as [cl|] eqn:Ec; auto.
      destruct (inv_cli w HI c cl Ec) as (Hh5 & Hav & Htold & Hown).
      destruct (c_held cl) as [s|] eqn:Eh.
      + pose proof (Hown s eq_refl) as Ho.
        destruct (inv_held w HI s c Ho) as [cl' (Hc' & Hheld & Hag & Hit & Hq & Hcl)].
        destruct (fresh_inv valid (bdefs s) (Hbdefs s)) as (F1 & F2 & F3).
        (* either the connection is replaced, or it goes back as it is: then its flags are clear *)
        assert (Hnew : exists sv', (if hb (pg (w_srv w s)) then sv' = fresh_srv (bdefs s) else sv' = w_srv w s) /\
                       SrvInv valid sv' /\ Idle sv' /\ (w_oos w = false -> Clean (bdefs s) (b_sess (truth sv')))).
        { destruct (hb (pg (w_srv w s))) eqn:Hb.
          - exists (fresh_srv (bdefs s)). auto.
          - exists (w_srv w s). split; auto. split; [apply (inv_srv w HI)|].
            assert (Hu : is_unclean (pg (w_srv w s)) = false).
            { destruct (is_unclean (pg (w_srv w s))) eqn:E; auto. rewrite (Hhb _ E) in Hb. discriminate. }
            unfold is_unclean in Hu. apply orb_false_iff in Hu. destruct Hu as [Hu _].
            apply orb_false_iff in Hu. destruct Hu as [Hu1 Hu2].
            assert (Hti : b_txn (truth (w_srv w s)) = TI).
            { unfold Quies, flags in Hq. cbn [snd] in Hq. rewrite Hu1 in Hq.
              destruct (b_txn (truth (w_srv w s))); auto; discriminate. }
            split; [constructor; auto|].
            intros Ho0. specialize (Hcl Ho0). unfold CleanOK, flags in Hcl. cbn [fst] in Hcl.
            destruct (Hcl Hu2) as [Hx _]. exact Hx. }
        destruct Hnew as (sv' & Hsv' & N1 & N2 & N3).
        apply (inv_ext (mkW (upd (w_srv w) s sv') (upd (w_cli w) c None) (upd (w_owner w) s None) (w_oos w)
                            (if hb (pg (w_srv w s)) then EvReplaced s :: w_log w else w_log w))).
        { intros s'. destruct (hb (pg (w_srv w s))); subst sv'; cbn [w_srv]; auto.
          unfold upd. destruct (Nat.eqb s' s) eqn:E; auto. apply Nat.eqb_eq in E. subst. auto. }
        { intros c'. destruct (hb (pg (w_srv w s))); auto. }
        { intros s'. destruct (hb (pg (w_srv w s))); auto. }
        { destruct (hb (pg (w_srv w s))); auto. }
        { destruct (hb (pg (w_srv w s))); auto. }
        assert (F1' := N1). assert (F2' := N2). assert (F3' := N3). clear F1 F2 F3.
        rename F1' into F1. rename F2' into F2. rename F3' into F3.
        constructor; cbn [w_srv w_cli w_owner w_oos w_log].
        * intros s'. destruct (Nat.eq_dec s' s) as [E|E]; [subst; rewrite upd_eq; auto|rewrite upd_neq by auto; apply (inv_srv w HI)].
        * intros s' Ho'. destruct (Nat.eq_dec s' s) as [E|E].
          -- subst. rewrite upd_eq. split; auto.
          -- rewrite upd_neq in Ho' by auto. rewrite upd_neq by auto. apply (inv_idle w HI s' Ho').
        * intros s' c' Ho'. destruct (Nat.eq_dec s' s) as [E|E]; [subst; rewrite upd_eq in Ho'; discriminate|].
          rewrite upd_neq in Ho' by auto. rewrite (upd_neq _ (w_srv w)) by auto.
          destruct (inv_held w HI s' c' Ho') as [cl2 (Hc2 & Hheld2 & Hrest)].
          assert (c' <> c). { intros Ex. subst c'. rewrite Ec in Hc2. inversion Hc2; subst cl2. congruence. }
          exists cl2. rewrite upd_neq by auto. auto.
        * intros c' cl2 Hc2. destruct (Nat.eq_dec c' c) as [E|E]; [subst; rewrite upd_eq in Hc2; discriminate|].
          rewrite upd_neq in Hc2 by auto. destruct (inv_cli w HI c' cl2 Hc2) as (C1 & C2 & C3 & C4).
          split; auto. split; auto. split; auto. intros s' Hs'.
          destruct (Nat.eq_dec s' s) as [E2|E2].
          -- subst s'. pose proof (C4 s Hs'). congruence.
          -- rewrite upd_neq by auto. auto.
        * intros c1 s1 co dk bv cv evv Hin. destruct (hb (pg (w_srv w s))); [destruct Hin as [Hin|Hin]; [discriminate|]|];
            apply (inv_log w HI _ _ _ _ _ _ _ Hin).
      + constructor; cbn [w_srv w_cli w_owner w_oos w_log]; try apply HI.
        * intros s' c' Ho'. destruct (inv_held w HI s' c' Ho') as [cl2 (Hc2 & Hheld2 & Hrest)].
          assert (c' <> c). { intros Ex. subst c'. rewrite Ec in Hc2. inversion Hc2; subst cl2. congruence. }
          exists cl2. rewrite upd_neq by auto. auto.
        * intros c' cl2 Hc2. destruct (Nat.eq_dec c' c) as [E|E]; [subst; rewrite upd_eq in Hc2; discriminate|].
          rewrite upd_neq in Hc2 by auto. apply (inv_cli w HI c' cl2 Hc2).
  Qed.

  Lemma run_from_inv : forall ops w, startup_valid valid ops = true -> Inv w -> Inv (run_from valid bdefs psrc hb session w ops).
  Proof.
    induction ops as [|o ops IH]; intros w Hv HI; auto.
    unfold startup_valid in Hv. cbn [forallb] in Hv. apply andb_true_iff in Hv. destruct Hv as [Ho Hv].
    unfold run_from. cbn [fold_left]. apply IH; auto. apply step_inv; auto.
    destruct o; cbn [op_ok]; auto.
  Qed.

  Lemma run_inv : forall ops, startup_valid valid ops = true -> Inv (run valid bdefs psrc hb session ops).
  Proof. intros. apply run_from_inv; auto. apply inv_init. Qed.

  Lemma synced_before_statement : forall ops, startup_valid valid ops = true ->
    forall c s co dk bv cv evv, In (EvStmt c s co dk bv cv evv) (w_log (run valid bdefs psrc hb session ops)) -> bv = cv.
  Proof. intros ops H c s co dk bv cv evv Hin. eapply (inv_log _ (run_inv ops H)); eauto. Qed.

  Lemma handoff_clean : forall ops, startup_valid valid ops = true -> w_oos (run valid bdefs psrc hb session ops) = false ->
    forall c s dk bv cv evv, In (EvStmt c s true dk bv cv evv) (w_log (run valid bdefs psrc hb session ops)) -> dk = [].
  Proof. intros ops H Ho c s dk bv cv evv Hin. eapply (inv_log _ (run_inv ops H)); eauto. Qed.

  Lemma told_same : forall ops, startup_valid valid ops = true ->
    forall c cl, w_cli (run valid bdefs psrc hb session ops) c = Some cl ->
    forall k, tracked k = true -> pget k (c_map cl) = pget k (c_told cl).
  Proof. intros ops H c cl Hc. apply (inv_cli _ (run_inv ops H) c cl Hc). Qed.

  (** *** what the client established (specification side) vs. pgcat's client map *)
  Lemma canon_in : forall k K, canon_tracked k = Some K -> tracked K = true.
  Proof. intros k K H. unfold canon_tracked in H. apply find_some in H. apply tracked_in. tauto. Qed.

  Lemma canon_none : forall k, canon_tracked k = None -> tracked (recase k) = false.
  Proof.
    intros k H. unfold recase. rewrite H.
    destruct (tracked k) eqn:Et; auto. apply tracked_cases in Et.
    destruct Et as [Et|[Et|[Et|[Et|Et]]]]; subst; discriminate.
  Qed.

  Lemma est_startup_agree : forall ps m e,
    (forall k, tracked k = true -> pget k m = pget k e) ->
    forall k, tracked k = true ->
    pget k (set_from_list m ps false) =
    pget k (fold_left (fun m kv => match canon_tracked (fst kv) with Some K => pset K (snd kv) m | None => m end) ps e).
  Proof.
    induction ps as [|[k1 v1] ps IH]; intros m e Hme k Hk; auto.
    unfold set_from_list in *. cbn [fold_left fst snd]. apply IH; auto.
    intros k0 H0. unfold set_param. rewrite orb_false_r.
    destruct (canon_tracked k1) as [K|] eqn:Ec.
    - unfold recase. rewrite Ec. rewrite (canon_in k1 K Ec).
      destruct (beq k0 K) eqn:E.
      + apply beq_eq in E. subst. rewrite !pget_pset_eq. auto.
      + rewrite !pget_pset_neq by auto. auto.
    - rewrite (canon_none k1 Ec). auto.
  Qed.

  Lemma startup_decode_pairs : forall raw ps, startup_decode raw = Some ps -> ps = take_pairs raw.
  Proof.
    intros raw ps H. unfold startup_decode in H. destruct (take_pairs raw) as [|p l]; [discriminate|].
    destruct (existsb (fun kv => beq (fst kv) k_user) (p :: l)); inversion H; auto.
  Qed.

  Definition EstOK (cl : cli) : Prop := forall k, tracked k = true -> pget k (c_map cl) = pget k (c_est cl).

  Record Inv2 (w : world) : Prop := {
    inv2_cli : forall c cl, w_cli w c = Some cl -> EstOK cl;
    inv2_log : forall c s co dk bv cv evv, In (EvStmt c s co dk bv cv evv) (w_log w) -> cv = evv }.

  Lemma step_inv2 : forall w o, Inv2 w -> Inv2 (step valid bdefs psrc hb session w o).
  Proof.
    intros w o [HC HL]. destruct o as [c raw|c s0 ss|c|c]; cbn [step].
    - destruct (w_cli w c) eqn:Ec; [constructor; auto|].
      destruct (startup_decode raw) as [ps|] eqn:Ed.
      + apply startup_decode_pairs in Ed. subst ps.
        constructor; cbn [w_cli w_log].
        * intros c' cl Hc. destruct (Nat.eq_dec c' c) as [E|E].
          -- subst. rewrite upd_eq in Hc. inversion Hc; subst. intros k Hk. cbn [c_map c_est].
             unfold est_startup. apply est_startup_agree; auto.
          -- rewrite upd_neq in Hc by auto. eauto.
        * intros c0 s co dk bv cv evv Hin. destruct Hin as [Hin|Hin]; [discriminate|]. eauto.
      + constructor; cbn [w_cli w_log]; auto.
        intros c0 s co dk bv cv evv Hin. destruct Hin as [Hin|Hin]; [discriminate|]. eauto.
    - destruct (w_cli w c) as [cl|] eqn:Ec; [|constructor; auto].
      destruct (match c_held cl with
                | Some s => Some (s, false)
                | None => match w_owner w s0 with None => Some (s0, true) | Some _ => None end
                end) as [[s checkout]|]; [|constructor; auto].
      set (sv1 := if checkout then sync_parameters valid (bdefs s) (w_srv w s) (c_map cl) else w_srv w s).
      pose proof (be_query_keys valid (bdefs s) ss (truth sv1)) as Hkeys.
      destruct (be_query valid (bdefs s) (truth sv1) ss) as [b' evs] eqn:Eq. cbn [snd] in Hkeys.
      rewrite recv_all_spec. cbn [fst snd].
      assert (Hest : EstOK (mkC (set_from_list (c_map cl) (frames evs) false) (pset_all (c_told cl) (frames evs))
                                (pset_all (c_est cl) (frames evs)) None) /\
                     forall h, EstOK (mkC (set_from_list (c_map cl) (frames evs) false) (pset_all (c_told cl) (frames evs))
                                (pset_all (c_est cl) (frames evs)) h)).
      { assert (forall h, EstOK (mkC (set_from_list (c_map cl) (frames evs) false) (pset_all (c_told cl) (frames evs))
                                (pset_all (c_est cl) (frames evs)) h)).
        { intros h k Hk. cbn [c_map c_est]. apply told_step; auto. apply (HC c cl Ec). }
        split; auto. }
      destruct Hest as [He1 He2].
      assert (Hlog : forall lg0, (forall x, In x lg0 -> In x (w_log w) \/ (forall a b c d e f g, x <> EvStmt a b c d e f g)) ->
                forall c1 s1 co dk bv cv evv,
                In (EvStmt c1 s1 co dk bv cv evv)
                   (log_if (negb (is_nil_l (frames evs))) (EvTold c (frames evs))
                      (EvStmt c s checkout (dirty_keys (bdefs s) (truth sv1)) (tvals (eff (truth sv1)))
                              (tvals (fun k => pget k (c_map cl))) (tvals (fun k => pget k (c_est cl))) :: lg0)) ->
                cv = evv).
      { pose proof (HC c cl Ec) as HE.
        intros lg0 Hlg0 c1 s1 co dk bv cv evv Hin.
        apply in_log_if in Hin. destruct Hin as [Hin|Hin]; [discriminate|].
        destruct Hin as [Hin|Hin].
        - inversion Hin; subst. apply tvals_ext. exact HE.
        - destruct (Hlg0 _ Hin) as [Hl|Hl]; [eauto|exfalso; eapply Hl; eauto]. }
      assert (Hlg1 : forall x, In x (log_if (negb (is_nil_l (if checkout then sync_diff (w_srv w s) (c_map cl) else [])))
                                       (EvSync c s (if checkout then sync_diff (w_srv w s) (c_map cl) else [])) (w_log w)) ->
                     In x (w_log w) \/ (forall a b c d e f g, x <> EvStmt a b c d e f g)).
      { intros x Hx. apply in_log_if in Hx. destruct Hx as [Hx|Hx]; auto. right. intros. subst. discriminate. }
      cbn [in_txn].
      destruct (snd (flags_after (need_set (pg sv1), in_txn (pg sv1)) evs) || session c) eqn:Eit.
      + constructor; cbn [w_cli w_log].
        * intros c' cl' Hc. destruct (Nat.eq_dec c' c) as [E|E].
          -- subst. rewrite upd_eq in Hc. inversion Hc; subst. apply He2.
          -- rewrite upd_neq in Hc by auto. eauto.
        * intros. eapply Hlog; eauto.
      + rewrite release_spec. constructor; cbn [w_cli w_log].
        * intros c' cl' Hc. destruct (Nat.eq_dec c' c) as [E|E].
          -- subst. rewrite upd_eq in Hc. inversion Hc; subst. apply He2.
          -- rewrite upd_neq in Hc by auto. eauto.
        * intros c1 s1 co dk bv cv evv Hin. apply in_log_if in Hin. destruct Hin as [Hin|Hin]; [discriminate|].
          eapply Hlog; eauto.
    - destruct (w_cli w c) as [cl|] eqn:Ec; [|constructor; auto].
      destruct (c_held cl) as [s|].
      + rewrite release_spec. constructor; cbn [w_cli w_log].
        * intros c' cl' Hc. destruct (Nat.eq_dec c' c) as [E|E]; [subst; rewrite upd_eq in Hc; discriminate|].
          rewrite upd_neq in Hc by auto. eauto.
        * intros c1 s1 co dk bv cv evv Hin. apply in_log_if in Hin. destruct Hin as [Hin|Hin]; [discriminate|]. eauto.
      + constructor; cbn [w_cli w_log]; auto.
        intros c' cl' Hc. destruct (Nat.eq_dec c' c) as [E|E]; [subst; rewrite upd_eq in Hc; discriminate|].
        rewrite upd_neq in Hc by auto. eauto.
    - destruct (w_cli w c) as [cl|] eqn:Ec; [|constructor; auto].
      destruct (c_held cl) as [s|]; [destruct (hb (pg (w_srv w s)))|]; constructor; cbn [w_cli w_log]; auto;
        try (intros c' cl' Hc; destruct (Nat.eq_dec c' c) as [E|E]; [subst; rewrite upd_eq in Hc; discriminate|];
             rewrite upd_neq in Hc by auto; eauto).
      intros c1 s1 co dk bv cv evv Hin. destruct Hin as [Hin|Hin]; [discriminate|]. eauto.
  Qed.

  Lemma run_from_inv2 : forall ops w, Inv2 w -> Inv2 (run_from valid bdefs psrc hb session w ops).
  Proof.
    induction ops as [|o ops IH]; intros w HI; auto.
    unfold run_from. cbn [fold_left]. apply IH; auto. apply step_inv2; auto.
  Qed.

  Lemma established : forall ops,
    forall c s co dk bv cv evv, In (EvStmt c s co dk bv cv evv) (w_log (run valid bdefs psrc hb session ops)) -> cv = evv.
  Proof.
    intros ops. apply (inv2_log (run valid bdefs psrc hb session ops)). apply run_from_inv2; auto.
    constructor; cbn [init w_cli w_log]; intros; [discriminate|contradiction].
  Qed.

  (** *** other clients' steps never touch a client's maps *)
  Definition op_client (o : op) : nat :=
    match o with OConnect c _ => c | OQuery c _ _ => c | ODisconnect c => c | OAbort c => c end.

  Lemma step_frame : forall w o c, op_client o <> c -> w_cli (step valid bdefs psrc hb session w o) c = w_cli w c.
  Proof.
    intros w o c Hne. destruct o as [c0 raw|c0 s0 ss|c0|c0]; cbn [op_client] in Hne; cbn [step].
    - destruct (w_cli w c0); auto. destruct (startup_decode raw); cbn [w_cli]; auto. apply upd_neq. auto.
    - destruct (w_cli w c0) as [cl|]; auto.
      destruct (match c_held cl with
                | Some s => Some (s, false)
                | None => match w_owner w s0 with None => Some (s0, true) | Some _ => None end
                end) as [[s checkout]|]; auto.
      destruct (be_query valid _ _ ss) as [b' evs].
      destruct (recv_all _ _ evs) as [cm' p'].
      destruct (in_txn p' || session c0); [|rewrite release_spec]; cbn [w_cli]; apply upd_neq; auto.
    - destruct (w_cli w c0) as [cl|]; auto. destruct (c_held cl); [rewrite release_spec|]; cbn [w_cli]; apply upd_neq; auto.
    - destruct (w_cli w c0) as [cl|]; auto.
      destruct (c_held cl); [destruct (hb _)|]; cbn [w_cli]; apply upd_neq; auto.
  Qed.

  (** the ParameterStatus frames sent at startup are exactly the client's map *)
  Lemma connect_told : forall w c raw ps, w_cli w c = None -> startup_decode raw = Some ps ->
    let w' := step valid bdefs psrc hb session w (OConnect c raw) in
    exists cl, w_cli w' c = Some cl /\ c_told cl = c_map cl /\ c_map cl = set_from_list (wpool bdefs psrc) ps false /\
               w_log w' = EvTold c (c_map cl) :: w_log w.
  Proof.
    intros w c raw ps Hc Hd. cbn [step]. rewrite Hc, Hd. cbn [w_cli w_log].
    eexists. rewrite upd_eq. split; [reflexivity|]. cbn [c_told c_map]. auto.
  Qed.
End World.

(** the order in which the statements of the batch are generated (HashMap order) is irrelevant *)
From Coq Require Import Permutation.
Lemma batch_order : forall scs d d', Permutation d d' -> keys_ok d = true -> NoDup (map fst d) ->
  apply_set_batch scs (gen_batch d') = Some d' /\
  forall m k, pget k (pset_all m d') = pget k (pset_all m d).
Proof.
  intros scs d d' Hp Hk Hd. split.
  - apply no_injection. unfold keys_ok in *. rewrite forallb_forall in *. intros x Hx. apply Hk.
    eapply Permutation_in; [apply Permutation_sym|]; eauto.
  - assert (Hd' : NoDup (map fst d')). { eapply Permutation_NoDup; [apply Permutation_map|]; eauto. }
    intros m k. destruct (in_dec (list_eq_dec N.eq_dec) k (map fst d)) as [Hin|Hnin].
    + apply in_map_iff in Hin. destruct Hin as [[k2 v2] [Hf Hin]]. cbn [fst] in Hf. subst k2.
      rewrite (pset_all_in d m k v2) by auto.
      apply pset_all_in; auto. eapply Permutation_in; eauto.
    + rewrite (pset_all_notin d) by auto. apply pset_all_notin.
      intros Hc. apply Hnin. eapply Permutation_in; [apply Permutation_sym; apply Permutation_map|]; eauto.
Qed.

Lemma told_same_all : forall valid bdefs psrc hb session,
  (forall s, bdef_ok valid (bdefs s) = true) -> (forall p, is_unclean p = true -> hb p = true) ->
  (forall w c raw ps, w_cli w c = None -> startup_decode raw = Some ps ->
     exists cl, w_cli (step valid bdefs psrc hb session w (OConnect c raw)) c = Some cl /\ c_told cl = c_map cl /\
                c_map cl = set_from_list (wpool bdefs psrc) ps false /\
                w_log (step valid bdefs psrc hb session w (OConnect c raw)) = EvTold c (c_map cl) :: w_log w) /\
  (forall ops, startup_valid valid ops = true ->
     forall c cl, w_cli (run valid bdefs psrc hb session ops) c = Some cl ->
     forall k, tracked k = true -> pget k (c_map cl) = pget k (c_told cl)).
Proof.
  intros valid bdefs psrc hb session H1 H2.
  split; [exact (connect_told valid bdefs psrc hb session)|exact (told_same valid bdefs psrc hb session H1 H2)].
Qed.

Lemma no_cross_client : forall valid bdefs psrc hb session,
  (forall s, bdef_ok valid (bdefs s) = true) -> (forall p, is_unclean p = true -> hb p = true) ->
  forall ops, startup_valid valid ops = true ->
  forall c s dk bv cv evv,
    In (EvStmt c s true dk bv cv evv) (w_log (run valid bdefs psrc hb session ops)) ->
    bv = cv /\ (w_oos (run valid bdefs psrc hb session ops) = false -> dk = []).
Proof.
  intros valid bdefs psrc hb session H1 H2 ops H3 c s dk bv cv evv Hin. split.
  - exact (synced_before_statement valid bdefs psrc hb session H1 H2 ops H3 c s true dk bv cv evv Hin).
  - intros Ho. exact (handoff_clean valid bdefs psrc hb session H1 H2 ops H3 Ho c s dk bv cv evv Hin).
Qed.
