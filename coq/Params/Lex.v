(** C12 — byte strings, PostgreSQL's string-literal lexer, pgcat's [quote_literal], the
    statement splitter and the parser of the SET batch.  Definitions only (executable).

    Code modelled:
      /repo/src/server.rs  fn quote_literal (the repair of finding F6): pushes 'E' when the
                           value contains a backslash, then ' , every char (doubling ' and \),
                           then ' .  Rust iterates [char]s of a valid UTF-8 [String]; the bytes
                           0x27 and 0x5C occur in UTF-8 only as the ASCII characters, so the
                           byte-level transcription below is the same function on every valid
                           UTF-8 input (and is defined on every byte list).
      /repo/src/server.rs  sync_parameters: [query.push_str(&format!("SET {} TO {};", key,
                           quote_literal(&value)))] for every entry of the diff = [gen_batch].
      /repo/src/messages.rs simple_query: 'Q', len, text, NUL  — the backend reads the text as
                           a C string = [cstr].
    Environment modelled (PostgreSQL src/backend/parser/scan.l, ASSUMED faithful, exercised by
    the wire harness' mock backend):
      * [xq]  standard string  '...'   : '' is a quote, nothing else is special
                                         (standard_conforming_strings = on);
      * [xe]  extended string  E'...'  and  '...' when standard_conforming_strings = off :
                                         '' is a quote, backslash escapes  \\ \' \b \f \n \r \t,
                                         \ooo (1-3 octal digits), \xh[h], any other \c = c;
                                         \u / \U are NOT modelled (the lexer answers [None]);
                                         an escape producing byte 0 is an error;
      * statements are separated by ; outside literals, "identifiers", -- line comments and
        nested /* */ comments.
      Not modelled: the continuation of a literal across a newline ('a' <newline> 'b'),
      dollar quoting, B'..' X'..' N'..' U&'..' prefixes.  None of them can occur in text
      produced by [gen_batch] outside a literal: that text is "SET <key> TO " and ";" only. *)
From Coq Require Import NArith List Bool String Ascii Arith.
Import ListNotations.
Local Open Scope N_scope.

Definition bytes := list N.

Definition B (s : string) : bytes := map N_of_ascii (list_ascii_of_string s).

Fixpoint beq (a b : bytes) : bool :=
  match a, b with
  | [], [] => true
  | x :: a', y :: b' => (x =? y) && beq a' b'
  | _, _ => false
  end.

(** linear-time reversal (List.rev is quadratic) *)
Definition frev {A : Type} (l : list A) : list A := rev_append l [].

Definition is_nil (s : bytes) : bool := match s with [] => true | _ => false end.

Definition no_nul (s : bytes) : bool := forallb (fun c => negb (c =? 0)) s.

(** The C string at the start of a buffer (everything before the first NUL). *)
Fixpoint cstr (s : bytes) : bytes :=
  match s with
  | [] => []
  | c :: r => if c =? 0 then [] else c :: cstr r
  end.

(** ** quote_literal (server.rs) *)
Fixpoint q_body (v : bytes) : bytes :=
  match v with
  | [] => []
  | c :: r => if (c =? 39) || (c =? 92) then c :: c :: q_body r else c :: q_body r
  end.

Definition has_bslash (v : bytes) : bool := existsb (N.eqb 92) v.

Definition quote_literal (v : bytes) : bytes :=
  (if has_bslash v then [69] else []) ++ 39 :: q_body v ++ [39].

(** The quoting the code used before the repair: format!("'{}'", value). *)
Definition old_quote (v : bytes) : bytes := 39 :: v ++ [39].

(** ** PostgreSQL's literal lexer *)
Definition is_oct (c : N) : bool := (48 <=? c) && (c <=? 55).

Definition hexval (c : N) : option N :=
  if (48 <=? c) && (c <=? 57) then Some (c - 48)
  else if (97 <=? c) && (c <=? 102) then Some (c - 87)
  else if (65 <=? c) && (c <=? 70) then Some (c - 55)
  else None.

Definition simple_esc (c : N) : N :=
  if c =? 98 then 8 else if c =? 102 then 12 else if c =? 110 then 10
  else if c =? 114 then 13 else if c =? 116 then 9 else c.

(** [lex_body esc s acc]: [s] is the text after the opening quote; returns the value and the
    text after the closing quote.  [esc]: backslash escapes are active. *)
Fixpoint lex_body (esc : bool) (s : bytes) (acc : bytes) : option (bytes * bytes) :=
  match s with
  | [] => None
  | c :: r =>
    if c =? 39 then
      match r with
      | c2 :: r2 => if c2 =? 39 then lex_body esc r2 (39 :: acc) else Some (frev acc, r)
      | [] => Some (frev acc, [])
      end
    else if esc && (c =? 92) then
      match r with
      | [] => None
      | e :: r2 =>
        if is_oct e then
          match r2 with
          | d2 :: r3 =>
            if is_oct d2 then
              match r3 with
              | d3 :: r4 =>
                if is_oct d3 then
                  let v := ((e - 48) * 64 + (d2 - 48) * 8 + (d3 - 48)) mod 256 in
                  if v =? 0 then None else lex_body esc r4 (v :: acc)
                else
                  let v := (e - 48) * 8 + (d2 - 48) in
                  if v =? 0 then None else lex_body esc r3 (v :: acc)
              | [] =>
                let v := (e - 48) * 8 + (d2 - 48) in
                if v =? 0 then None else lex_body esc r3 (v :: acc)
              end
            else
              let v := e - 48 in if v =? 0 then None else lex_body esc r2 (v :: acc)
          | [] => let v := e - 48 in if v =? 0 then None else lex_body esc r2 (v :: acc)
          end
        else if e =? 120 then
          match r2 with
          | h1 :: r3 =>
            match hexval h1 with
            | Some a =>
              match r3 with
              | h2 :: r4 =>
                match hexval h2 with
                | Some b => let v := a * 16 + b in if v =? 0 then None else lex_body esc r4 (v :: acc)
                | None => if a =? 0 then None else lex_body esc r3 (a :: acc)
                end
              | [] => if a =? 0 then None else lex_body esc r3 (a :: acc)
              end
            | None => lex_body esc r2 (120 :: acc)
            end
          | [] => lex_body esc r2 (120 :: acc)
          end
        else if (e =? 117) || (e =? 85) then None
        else lex_body esc r2 (simple_esc e :: acc)
      end
    else lex_body esc r (c :: acc)
  end.

(** A string literal at the start of [s]: '...' (escapes iff [scs_off]) or E'...' / e'...'. *)
Definition lex_literal (scs_off : bool) (s : bytes) : option (bytes * bytes) :=
  match s with
  | c :: r =>
    if c =? 39 then lex_body scs_off r []
    else if (c =? 69) || (c =? 101) then
      match r with
      | c2 :: r2 => if c2 =? 39 then lex_body true r2 [] else None
      | [] => None
      end
    else None
  | [] => None
  end.

(** ** Statement splitter *)
Inductive prev := POther | PE | PIdent.

Definition is_letter (c : N) : bool :=
  ((65 <=? c) && (c <=? 90)) || ((97 <=? c) && (c <=? 122)) || (c =? 95) || (128 <=? c).
Definition is_digit (c : N) : bool := (48 <=? c) && (c <=? 57).
Definition is_ident_cont (c : N) : bool := is_letter c || is_digit c || (c =? 36).

Definition next_prev (p : prev) (c : N) : prev :=
  match p with
  | POther => if (c =? 69) || (c =? 101) then PE else if is_letter c then PIdent else POther
  | _ => if is_ident_cont c then PIdent else POther
  end.

Inductive lst := LNorm (p : prev) | LStr (esc : bool) | LLine | LBlock (depth : nat) | LDq.

Definition hd_is (x : N) (s : bytes) : bool := match s with c :: _ => c =? x | [] => false end.

Definition is_space (c : N) : bool := (c =? 32) || (c =? 9) || (c =? 10) || (c =? 13) || (c =? 12).
Definition blank (s : bytes) : bool := forallb is_space s.

(** [cur] is the current statement reversed, [out] the finished statements reversed. *)
Fixpoint split_go (scs_off : bool) (st : lst) (s cur : bytes) (out : list bytes) : option (list bytes) :=
  match s with
  | [] =>
    match st with
    | LNorm _ | LLine => Some (frev (frev cur :: out))
    | _ => None
    end
  | c :: r =>
    match st with
    | LNorm p =>
      if c =? 59 then split_go scs_off (LNorm POther) r [] (frev cur :: out)
      else if c =? 39 then
        split_go scs_off (LStr (match p with PE => true | _ => scs_off end)) r (c :: cur) out
      else if c =? 34 then split_go scs_off LDq r (c :: cur) out
      else if (c =? 45) && hd_is 45 r then split_go scs_off LLine r (32 :: cur) out
      else if (c =? 47) && hd_is 42 r then
        match r with
        | _ :: r2 => split_go scs_off (LBlock 0) r2 (32 :: cur) out
        | [] => None
        end
      else split_go scs_off (LNorm (next_prev p c)) r (c :: cur) out
    | LStr esc =>
      if c =? 39 then
        if hd_is 39 r then
          match r with
          | _ :: r2 => split_go scs_off (LStr esc) r2 (39 :: 39 :: cur) out
          | [] => None
          end
        else split_go scs_off (LNorm POther) r (c :: cur) out
      else if esc && (c =? 92) then
        match r with
        | e :: r2 => split_go scs_off (LStr esc) r2 (e :: c :: cur) out
        | [] => None
        end
      else split_go scs_off (LStr esc) r (c :: cur) out
    | LLine =>
      if c =? 10 then split_go scs_off (LNorm POther) r cur out
      else split_go scs_off LLine r cur out
    | LBlock d =>
      if (c =? 42) && hd_is 47 r then
        match r with
        | _ :: r2 =>
          match d with
          | O => split_go scs_off (LNorm POther) r2 cur out
          | S d' => split_go scs_off (LBlock d') r2 cur out
          end
        | [] => None
        end
      else if (c =? 47) && hd_is 42 r then
        match r with
        | _ :: r2 => split_go scs_off (LBlock (S d)) r2 cur out
        | [] => None
        end
      else split_go scs_off (LBlock d) r cur out
    | LDq =>
      if c =? 34 then split_go scs_off (LNorm POther) r (c :: cur) out
      else split_go scs_off LDq r (c :: cur) out
    end
  end.

(** The statements of a query string (empty statements are dropped, as PostgreSQL does);
    [None] = lexical error (unterminated literal / comment / quoted identifier). *)
Definition split_stmts (scs_off : bool) (sql : bytes) : option (list bytes) :=
  match split_go scs_off (LNorm POther) sql [] [] with
  | Some ss => Some (filter (fun s => negb (blank s)) ss)
  | None => None
  end.

(** ** Recogniser of one statement of the form  SET <identifier> TO <literal>  *)
Fixpoint strip_prefix (p s : bytes) : option bytes :=
  match p with
  | [] => Some s
  | x :: p' => match s with y :: s' => if x =? y then strip_prefix p' s' else None | [] => None end
  end.

Fixpoint skip_spaces (s : bytes) : bytes :=
  match s with
  | c :: r => if is_space c then skip_spaces r else s
  | [] => []
  end.

Fixpoint span_ident (s : bytes) : bytes * bytes :=
  match s with
  | c :: r => if is_ident_cont c then let (a, b) := span_ident r in (c :: a, b) else ([], s)
  | [] => ([], [])
  end.

Definition KW_SET : bytes := Eval vm_compute in B "SET ".
Definition KW_TO : bytes := Eval vm_compute in B "TO ".
Definition SEP_TO : bytes := Eval vm_compute in B " TO ".

Definition parse_set (scs_off : bool) (s : bytes) : option (bytes * bytes) :=
  match strip_prefix KW_SET (skip_spaces s) with
  | None => None
  | Some r =>
    let (k, r1) := span_ident (skip_spaces r) in
    if is_nil k then None else
    match strip_prefix KW_TO (skip_spaces r1) with
    | None => None
    | Some r2 =>
      match lex_literal scs_off (skip_spaces r2) with
      | Some (v, r3) => if blank r3 then Some (k, v) else None
      | None => None
      end
    end
  end.

Fixpoint sequence {A} (l : list (option A)) : option (list A) :=
  match l with
  | [] => Some []
  | Some x :: r => match sequence r with Some xs => Some (x :: xs) | None => None end
  | None :: _ => None
  end.

(** What the backend makes of a query text that is expected to be a SET batch:
    [Some sets] = it consists of exactly these SET statements; [None] = lexical error or some
    statement is not of that form (PostgreSQL parses the whole string before it executes
    anything, with the [standard_conforming_strings] in force when the message arrives). *)
Definition apply_set_batch (scs_off : bool) (sql : bytes) : option (list (bytes * bytes)) :=
  match split_stmts scs_off sql with
  | None => None
  | Some ss => sequence (map (parse_set scs_off) ss)
  end.

(** ** The batch pgcat generates (server.rs sync_parameters) *)
Definition gen_stmt (q : bytes -> bytes) (kv : bytes * bytes) : bytes :=
  KW_SET ++ fst kv ++ SEP_TO ++ q (snd kv) ++ [59].

Definition gen_batch_with (q : bytes -> bytes) (d : list (bytes * bytes)) : bytes :=
  flat_map (gen_stmt q) d.

Definition gen_batch := gen_batch_with quote_literal.
Definition old_batch := gen_batch_with old_quote.

(** The body of the Query message that carries [sql], as the backend reads it. *)
Definition on_wire (sql : bytes) : bytes := cstr (sql ++ [0]).

(** Identifier-like keys (every tracked key is one). *)
Definition ident_key (k : bytes) : bool := negb (is_nil k) && forallb is_ident_cont k.
