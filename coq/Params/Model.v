(** C12 — a client's session parameters follow it across server connections.

    Executable model (definitions only; lemmas in Proofs.v, theorems in Props.v).  The byte
    level (PostgreSQL's literal lexer, [quote_literal], the SET batch) is in Lex.v.

    Code modelled, read line by line (/repo at the checked tree):

    src/server.rs  TRACKED_PARAMETERS                       = [TRACKED]
    src/server.rs  ServerParameters::new                    = [sp_new] (five defaults)
    src/server.rs  ServerParameters::set_param              = [set_param]: a key that equals a tracked
                     name ignoring ASCII case is replaced by that name (repair 68af9b4 of D2; before
                     it only "timezone"/"datestyle" were re-cased = [old_recase]), then insert iff
                     the key is tracked or [startup]
    src/server.rs  ServerParameters::set_from_hashmap       = [set_from_list] (HashMap order is
                     unspecified; the model folds in list order, which is the same map whenever no
                     two startup keys re-case to the same key)
    src/server.rs  ServerParameters::compare_params         = [compare_params]: for every tracked key
                     present in BOTH maps with different values: (key, incoming value)
    src/server.rs  Server::startup arm 'S'                  = [fresh_bel]: set_param(k, v, true) for
                     every ParameterStatus of the backend's startup, over [sp_new]
    src/server.rs  Server::recv arm 'S'                     = [on_param_status]: client map (when
                     given) and server map both [set_param k v false]
    src/server.rs  Server::recv arm 'C'                     = [on_event (RC ..)]: tag "SET" marks
                     needs_cleanup_set iff [!in_transaction]; tags "COMMIT"/"ROLLBACK" clear
                     [in_transaction] (repair of F18)
    src/server.rs  Server::recv arm 'Z'                     = [on_event (RZ ..)]
    src/server.rs  Server::query                            = [srv_query]: every frame of the reply
                     goes through [recv(None)]: the SERVER map is updated, no client map
    src/server.rs  Server::sync_parameters                  = [sync_parameters]: diff; if non-empty
                     "SET k TO <quote_literal v>;" per entry, run with [query], whose only errors
                     are I/O errors (an ErrorResponse of the backend is NOT an error here: the
                     reply is read to ReadyForQuery and dropped), then [cleanup_state.reset()]
    src/server.rs  Server::checkin_cleanup                  = [checkin]: ROLLBACK if in_transaction;
                     "RESET ROLE;[RESET ALL;]" if needs_cleanup (cleanup_server_connections = true)
    src/server.rs  Server::is_unclean + src/pool.rs has_broken = [is_unclean] (repair of F1); the
                     model is parametric in [hb] so that the dependency on it is explicit
    src/messages.rs parse_params (via parse_startup)         = [startup_decode] (repair 5c1953d of
                     D1/D3): name/value C strings in order, UTF-8 (from_utf8_lossy: the identity on the
                     valid UTF-8 the model ranges over), a value may be empty, the list ends at an
                     empty NAME; no pair or no "user" key => the connection is refused.  The code
                     before the repair (every byte pushed as a char = Latin-1 -> UTF-8, empty
                     strings skipped, the rest paired up) is kept as [old_startup_decode].
    src/client.rs  startup (~742-751)                        = [OConnect]: clone of the pool's map
                     ([pool] = the map of the first validated server connection), overlaid with
                     the client's startup parameters [set_from_hashmap(&parameters, false)], then
                     sent to the client as ParameterStatus frames
    src/client.rs  ~1160 [server.sync_parameters(&self.server_parameters)] at checkout
    src/client.rs  ~2072 [server.recv(Some(&mut self.server_parameters))] for the client's own
                     statements; every frame is forwarded to the client unchanged
    src/client.rs  [self.transaction_mode = pool.settings.pool_mode == PoolMode::Transaction] is read at
                     every checkout; [session c] = the client's pool is in session mode.  Session
                     mode: the server is kept from the client's first message until the client
                     leaves ([if self.transaction_mode && .. { break }] is the ONLY release inside
                     the transaction loop); [sync_parameters] runs at that one checkout (it is
                     not conditional on the mode); check-in cleanup at 'X' / read error.
    src/client.rs  ~1283-1297 release when [!server.in_transaction()] (transaction mode), then
                     [checkin_cleanup] (~1621); 'X'/read error: [checkin_cleanup] (~1194, ~1304)

    Environment (ASSUMED, = harness/src/mockpg.rs, exercised on every run): a PostgreSQL session:
    GUC table with session values, SET LOCAL values, the snapshot taken at BEGIN that ROLLBACK
    restores; ParameterStatus for every reported GUC whose effective value changed, with the new
    value; RESET ALL = back to the session defaults; a statement in a failed transaction is
    refused; an invalid value is refused ([valid], abstract); a multi-statement Query made of
    SETs is parsed as a whole and is atomic.  Every server connection has the same defaults
    [bdef].  SET LOCAL outside a transaction block has no effect. *)
From Coq Require Import NArith List Bool String Ascii Arith.
From PV Require Export Params.Lex.
Import ListNotations.
Local Open Scope N_scope.

(** ** Maps *)
Definition pmap := list (bytes * bytes).

Fixpoint pget (k : bytes) (m : pmap) : option bytes :=
  match m with
  | [] => None
  | (k', v) :: r => if beq k k' then Some v else pget k r
  end.

Fixpoint pset (k v : bytes) (m : pmap) : pmap :=
  match m with
  | [] => [(k, v)]
  | (k', v') :: r => if beq k k' then (k, v) :: r else (k', v') :: pset k v r
  end.

Fixpoint pdel (k : bytes) (m : pmap) : pmap :=
  match m with
  | [] => []
  | (k', v') :: r => if beq k k' then pdel k r else (k', v') :: pdel k r
  end.

Definition opt_beq (a b : option bytes) : bool :=
  match a, b with
  | Some x, Some y => beq x y
  | None, None => true
  | _, _ => false
  end.

(** ** Keys *)
Definition K_enc : bytes := Eval vm_compute in B "client_encoding".
Definition K_date : bytes := Eval vm_compute in B "DateStyle".
Definition K_tz : bytes := Eval vm_compute in B "TimeZone".
Definition K_scs : bytes := Eval vm_compute in B "standard_conforming_strings".
Definition K_app : bytes := Eval vm_compute in B "application_name".
Definition K_interval : bytes := Eval vm_compute in B "IntervalStyle".
Definition k_timezone : bytes := Eval vm_compute in B "timezone".
Definition k_datestyle : bytes := Eval vm_compute in B "datestyle".
Definition k_user : bytes := Eval vm_compute in B "user".
Definition V_off : bytes := Eval vm_compute in B "off".

Definition TRACKED : list bytes := [K_enc; K_date; K_tz; K_scs; K_app].
Definition tracked (k : bytes) : bool := existsb (beq k) TRACKED.
(** the GUCs the backend reports (GUC_REPORT): the tracked ones and some that pgcat ignores *)
Definition REPORTED : list bytes := TRACKED ++ [K_interval].

(** ** ServerParameters (server.rs) *)
Definition lower (s : bytes) : bytes :=
  map (fun c => if (65 <=? c) && (c <=? 90) then c + 32 else c) s.

(** the tracked name that equals [k] ignoring ASCII case (PostgreSQL resolves GUC names that way) *)
Definition canon_tracked (k : bytes) : option bytes :=
  find (fun t => beq (lower t) (lower k)) TRACKED.

Definition recase (k : bytes) : bytes :=
  match canon_tracked k with Some K => K | None => k end.

(** before repair 68af9b4 *)
Definition old_recase (k : bytes) : bytes :=
  if beq k k_timezone then K_tz else if beq k k_datestyle then K_date else k.

Definition set_param (m : pmap) (k v : bytes) (startup : bool) : pmap :=
  let k' := recase k in if tracked k' || startup then pset k' v m else m.

Definition set_from_list (m : pmap) (l : list (bytes * bytes)) (startup : bool) : pmap :=
  fold_left (fun m kv => set_param m (fst kv) (snd kv) startup) l m.

Definition sp_new : pmap := Eval vm_compute in
  [(K_enc, B "UTF8"); (K_date, B "ISO, MDY"); (K_tz, B "Etc/UTC"); (K_scs, B "on"); (K_app, B "pgcat")].

Definition compare_params (self incoming : pmap) : list (bytes * bytes) :=
  flat_map (fun k =>
    match pget k incoming, pget k self with
    | Some iv, Some v => if beq v iv then [] else [(k, iv)]
    | _, _ => []
    end) TRACKED.

(** ** Startup packet decoding (messages.rs parse_params) *)
Fixpoint take_pairs (raw : list (bytes * bytes)) : list (bytes * bytes) :=
  match raw with
  | [] => []
  | (k, v) :: r => if is_nil k then [] else (k, v) :: take_pairs r
  end.

Definition startup_decode (raw : list (bytes * bytes)) : option (list (bytes * bytes)) :=
  match take_pairs raw with
  | [] => None
  | ps => if existsb (fun kv => beq (fst kv) k_user) ps then Some ps else None
  end.

(** before repair 5c1953d *)
Definition latin1_utf8 (s : bytes) : bytes :=
  flat_map (fun b => if b <? 128 then [b] else [192 + b / 64; 128 + b mod 64]) s.

Fixpoint pair_up (l : list bytes) : option (list (bytes * bytes)) :=
  match l with
  | [] => Some []
  | k :: v :: r => match pair_up r with Some ps => Some ((k, v) :: ps) | None => None end
  | _ => None
  end.

Definition old_startup_decode (raw : list (bytes * bytes)) : option (list (bytes * bytes)) :=
  let strs := filter (fun s => negb (is_nil s))
                     (map latin1_utf8 (flat_map (fun kv => [fst kv; snd kv]) raw)) in
  if (List.length strs <? 2)%nat then None else
  match pair_up strs with
  | Some ps => if existsb (fun kv => beq (fst kv) k_user) ps then Some ps else None
  | None => None
  end.

(** ** Specification side: what the client established with its startup packet: the pairs up to
    the terminating empty name, names resolved ignoring case, over the pool's values *)
Definition est_startup (pool : pmap) (raw : list (bytes * bytes)) : pmap :=
  fold_left (fun m kv => match canon_tracked (fst kv) with
                         | Some K => pset K (snd kv) m
                         | None => m
                         end) (take_pairs raw) pool.

(** ** Backend *)
Inductive txn := TI | TT | TE.
Definition is_ti (t : txn) : bool := match t with TI => true | _ => false end.

Record backend := mkB { b_sess : pmap; b_loc : pmap; b_snap : option pmap; b_txn : txn }.

Definition eff (b : backend) (k : bytes) : option bytes :=
  match pget k (b_loc b) with Some v => Some v | None => pget k (b_sess b) end.

Inductive tag := TgSet | TgBegin | TgCommit | TgRollback | TgReset | TgSelect
  | TgPrepare | TgDeallocAll | TgDiscardAll | TgOther.
Inductive revent := RS (k v : bytes) | RC (t : tag) | RE | RZ (t : txn).

Definition is_re (e : revent) : bool := match e with RE => true | _ => false end.
Definition has_err (ev : list revent) : bool := existsb is_re ev.

Definition report (b b' : backend) : list revent :=
  flat_map (fun k => if opt_beq (eff b k) (eff b' k) then []
                     else [RS k (match eff b' k with Some v => v | None => [] end)]) REPORTED.

Inductive stmt :=
| SBegin | SCommit | SRollback
| SSet (local : bool) (k v : bytes)
| SReset (k : bytes) | SResetAll | SSelect | SFail
| SNoop (t : tag)      (* a statement without effect on the GUC table, answered with this tag: SET ROLE (TgSet),
                          RESET ROLE (TgReset), PREPARE (TgPrepare), DEALLOCATE x / COPY (TgOther), DEALLOCATE ALL *)
| SDiscardAll.         (* DISCARD ALL: every GUC back to its default; refused inside a transaction block *)

Definition scs_off (b : backend) : bool :=
  match eff b K_scs with Some v => beq v V_off | None => false end.

Definition frames (evs : list revent) : list (bytes * bytes) :=
  flat_map (fun e => match e with RS k v => [(k, v)] | _ => [] end) evs.

Definition pset_all (m : pmap) (l : list (bytes * bytes)) : pmap :=
  fold_left (fun m kv => pset (fst kv) (snd kv) m) l m.

(** ** pgcat's view of one server connection *)
Record pgs := mkP { bel : pmap; need_set : bool; in_txn : bool; need_prep : bool }.
Record srv := mkS { truth : backend; pg : pgs }.

Definition on_param_status (cm : option pmap) (p : pgs) (k v : bytes) : option pmap * pgs :=
  (match cm with Some m => Some (set_param m k v false) | None => None end,
   mkP (set_param (bel p) k v false) (need_set p) (in_txn p) (need_prep p)).

Definition on_event (cm : option pmap) (p : pgs) (e : revent) : option pmap * pgs :=
  match e with
  | RS k v => on_param_status cm p k v
  | RC TgSet => (cm, mkP (bel p) (need_set p || negb (in_txn p)) (in_txn p) (need_prep p))
  | RC TgCommit => (cm, mkP (bel p) (need_set p) false (need_prep p))
  | RC TgRollback => (cm, mkP (bel p) (need_set p) false (need_prep p))
  | RC TgPrepare => (cm, mkP (bel p) (need_set p) (in_txn p) true)
  | RZ t => (cm, mkP (bel p) (need_set p) (negb (is_ti t)) (need_prep p))
  | _ => (cm, p)
  end.

Definition recv_all (cm : option pmap) (p : pgs) (evs : list revent) : option pmap * pgs :=
  fold_left (fun st e => on_event (fst st) (snd st) e) evs (cm, p).

Definition is_unclean (p : pgs) : bool := in_txn p || need_set p || need_prep p.

Definition tvals (f : bytes -> option bytes) : list (option bytes) := map f TRACKED.

(** ** Clients, world, operations *)
Record cli := mkC { c_map : pmap; c_told : pmap; c_est : pmap; c_held : option nat }.

Inductive ev :=
| EvRefused (c : nat)
| EvTold (c : nat) (fr : list (bytes * bytes))
| EvSync (c s : nat) (d : list (bytes * bytes))
| EvStmt (c s : nat) (checkout : bool) (dirty : list bytes)
         (backend_vals client_vals est_vals : list (option bytes))
| EvClean (s : nat) (rollback reset_all dealloc_all : bool)
| EvReplaced (s : nat).

Record world := mkW {
  w_srv : nat -> srv;
  w_cli : nat -> option cli;
  w_owner : nat -> option nat;
  w_oos : bool;            (* ghost: an untracked SET ran inside a transaction block *)
  w_log : list ev }.       (* newest first *)

Definition is_nil_l {A} (l : list A) : bool := match l with [] => true | _ => false end.

Definition upd {A} (f : nat -> A) (i : nat) (x : A) : nat -> A :=
  fun j => if Nat.eqb j i then x else f j.

Inductive op :=
| OConnect (c : nat) (raw : list (bytes * bytes))
| OQuery (c s : nat) (ss : list stmt)
| ODisconnect (c : nat)
| OAbort (c : nat).

(** *** One server connection (its backend has the session defaults [bdef]) *)
Section Server.
  Variable valid : bytes -> bytes -> bool.     (* the backend's check of a value *)
  Variable bdef : pmap.                         (* this backend's session defaults and read-only reports *)

  Definition fail (b : backend) : backend * list revent :=
    (mkB (b_sess b) (b_loc b) (b_snap b) (match b_txn b with TT => TE | t => t end), [RE]).

  Definition done (b b' : backend) (t : tag) : backend * list revent :=
    (b', report b b' ++ [RC t]).

  Definition do_rollback (b : backend) : backend :=
    mkB (match b_snap b with Some m => m | None => b_sess b end) [] None TI.

  Definition be_stmt (b : backend) (s : stmt) : backend * list revent :=
    match s with
    | SRollback => done b (do_rollback b) TgRollback
    | SCommit =>
      match b_txn b with
      | TE => done b (do_rollback b) TgRollback
      | _ => done b (mkB (b_sess b) [] None TI) TgCommit
      end
    | SBegin =>
      match b_txn b with
      | TE => (b, [RE])
      | TI => (mkB (b_sess b) (b_loc b) (Some (b_sess b)) TT, [RC TgBegin])
      | TT => (b, [RC TgBegin])
      end
    | SSet local k v =>
      match b_txn b with
      | TE => (b, [RE])
      | _ =>
        if valid k v then
          if local then
            if is_ti (b_txn b) then (b, [RC TgSet])
            else done b (mkB (b_sess b) (pset k v (b_loc b)) (b_snap b) (b_txn b)) TgSet
          else done b (mkB (pset k v (b_sess b)) (pdel k (b_loc b)) (b_snap b) (b_txn b)) TgSet
        else fail b
      end
    | SReset k =>
      match b_txn b with
      | TE => (b, [RE])
      | _ => done b (mkB (match pget k bdef with Some d => pset k d (b_sess b) | None => pdel k (b_sess b) end)
                         (pdel k (b_loc b)) (b_snap b) (b_txn b)) TgReset
      end
    | SResetAll =>
      match b_txn b with
      | TE => (b, [RE])
      | _ => done b (mkB bdef [] (b_snap b) (b_txn b)) TgReset
      end
    | SSelect => match b_txn b with TE => (b, [RE]) | _ => (b, [RC TgSelect]) end
    | SFail => match b_txn b with TE => (b, [RE]) | _ => fail b end
    | SNoop t => match b_txn b with TE => (b, [RE]) | _ => (b, [RC t]) end
    | SDiscardAll =>
      match b_txn b with
      | TE => (b, [RE])
      | TT => fail b
      | TI => done b (mkB bdef [] (b_snap b) (b_txn b)) TgDiscardAll
      end
    end.

  (** a SET of an untracked GUC that PostgreSQL runs inside a transaction block: outside the
      property ("set outside a transaction") and outside C02's scope *)
  Definition stmt_oos (b : backend) (s : stmt) : bool :=
    match s with
    | SSet false k _ => negb (tracked k) && negb (is_ti (b_txn b))
    | _ => false
    end.

  Fixpoint be_msg (b : backend) (ss : list stmt) : backend * list revent :=
    match ss with
    | [] => (b, [])
    | s :: r =>
      let '(b1, e1) := be_stmt b s in
      if has_err e1 then (b1, e1) else
      let '(b2, e2) := be_msg b1 r in (b2, e1 ++ e2)
    end.

  Fixpoint msg_oos (b : backend) (ss : list stmt) : bool :=
    match ss with
    | [] => false
    | s :: r =>
      stmt_oos b s || (let '(b1, e1) := be_stmt b s in if has_err e1 then false else msg_oos b1 r)
    end.

  Definition be_query (b : backend) (ss : list stmt) : backend * list revent :=
    let '(b', e) := be_msg b ss in (b', e ++ [RZ (b_txn b')]).

  (** the backend receives a query TEXT that pgcat generated.  (The text travels as a C string;
      parameter values are C strings themselves - startup packet, ParameterStatus - so they are
      NUL-free and [on_wire sql = sql]: LexProofs.on_wire_gen.) *)
  Definition be_sql (b : backend) (sql : bytes) : backend * list revent :=
    match apply_set_batch (scs_off b) sql with
    | Some sets =>
      if forallb (fun kv => valid (fst kv) (snd kv)) sets
      then be_query b (map (fun kv => SSet false (fst kv) (snd kv)) sets)
      else be_query b [SFail]
    | None => be_query b [SFail]
    end.

  (** Server::query: reply consumed with recv(None) *)
  Definition srv_query (s : srv) (ss : list stmt) : srv :=
    let '(b', evs) := be_query (truth s) ss in mkS b' (snd (recv_all None (pg s) evs)).

  Definition sync_diff (s : srv) (cm : pmap) : list (bytes * bytes) := compare_params (bel (pg s)) cm.

  Definition sync_parameters (s : srv) (cm : pmap) : srv :=
    match sync_diff s cm with
    | [] => s
    | d =>
      let '(b', evs) := be_sql (truth s) (gen_batch d) in
      let p' := snd (recv_all None (pg s) evs) in
      mkS b' (mkP (bel p') false (in_txn p') false)
    end.

  (** "RESET ROLE;[RESET ALL;][DEALLOCATE ALL;]" *)
  Definition cleanup_stmts (ra da : bool) : list stmt :=
    SNoop TgReset :: (if ra then [SResetAll] else []) ++ (if da then [SNoop TgDeallocAll] else []).

  Definition checkin (s : srv) : srv * (bool * (bool * bool)) :=
    let rb := in_txn (pg s) in
    let s1 := if rb then srv_query s [SRollback] else s in
    let ra := need_set (pg s1) in
    let da := need_prep (pg s1) in
    let s2 := if ra || da then (let s' := srv_query s1 (cleanup_stmts ra da) in
                                mkS (truth s') (mkP (bel (pg s')) false (in_txn (pg s')) false))
              else s1 in
    (s2, (rb, (ra, da))).

  (** untracked GUCs whose effective value is not the session default *)
  Definition dirty_keys (b : backend) : list bytes :=
    filter (fun k => negb (tracked k) && negb (opt_beq (eff b k) (pget k bdef)))
           (map fst (b_sess b ++ b_loc b ++ bdef)).

  Definition fresh_backend : backend := mkB bdef [] None TI.
  Definition pool : pmap := set_from_list sp_new bdef true.
  Definition fresh_srv : srv := mkS fresh_backend (mkP pool false false false).

  (** computable guards used by the theorems *)
  Definition has5 (m : pmap) : bool :=
    forallb (fun k => match pget k m with Some _ => true | None => false end) TRACKED.

  Definition all_valid (m : pmap) : bool :=
    forallb (fun k => match pget k m with Some v => valid k v | None => true end) TRACKED.

  (** the backend's defaults are usable: the five tracked GUCs are there, under their canonical
      names, and their values pass the backend's own check *)
  Definition bdef_ok : bool :=
    has5 bdef && all_valid bdef &&
    forallb (fun k => opt_beq (pget k pool) (pget k bdef)) TRACKED.

  Definition connect_valid (raw : list (bytes * bytes)) : bool :=
    match startup_decode raw with
    | Some ps => forallb (fun kv => negb (tracked (recase (fst kv))) || valid (recase (fst kv)) (snd kv)) ps
    | None => true
    end.

End Server.

(** *** The world: server connection [s] talks to a backend with defaults [bdefs s] (servers of a pool,
    or connections of one server after an upgrade / a configuration change, may differ both in the
    defaults of tracked GUCs and in read-only reports such as server_version, in_hot_standby);
    [psrc] is the connection whose startup reports became the pool's snapshot (pool.rs validate:
    the last server validated wins) *)
Section World.
  Variable valid : bytes -> bytes -> bool.
  Variable bdefs : nat -> pmap.
  Variable psrc : nat.
  Variable hb : pgs -> bool.                    (* pool.rs has_broken on a returned connection *)
  Variable session : nat -> bool.               (* client c talks to a pool in session mode *)

  Definition wpool : pmap := pool (bdefs psrc).

  Definition init : world := mkW (fun s => fresh_srv (bdefs s)) (fun _ => None) (fun _ => None) false [].

  Definition log_if (b : bool) (e : ev) (l : list ev) : list ev := if b then e :: l else l.

  (** release of server [s] by client [c] through checkin_cleanup *)
  Definition release (w : world) (c s : nat) (sv : srv) (cl : option cli) (oos : bool) (lg : list ev) : world :=
    let '(sv', (rb, (ra, da))) := checkin valid (bdefs s) sv in
    mkW (upd (w_srv w) s sv') (upd (w_cli w) c cl) (upd (w_owner w) s None) oos
        (log_if (rb || ra || da) (EvClean s rb ra da) lg).

  Definition step (w : world) (o : op) : world :=
    match o with
    | OConnect c raw =>
      match w_cli w c with
      | Some _ => w
      | None =>
        match startup_decode raw with
        | None => mkW (w_srv w) (w_cli w) (w_owner w) (w_oos w) (EvRefused c :: w_log w)
        | Some ps =>
          let cm := set_from_list wpool ps false in
          mkW (w_srv w) (upd (w_cli w) c (Some (mkC cm cm (est_startup wpool raw) None)))
              (w_owner w) (w_oos w) (EvTold c cm :: w_log w)
        end
      end
    | OQuery c s0 ss =>
      match w_cli w c with
      | None => w
      | Some cl =>
        let tgt := match c_held cl with
                   | Some s => Some (s, false)
                   | None => match w_owner w s0 with None => Some (s0, true) | Some _ => None end
                   end in
        match tgt with
        | None => w
        | Some (s, checkout) =>
          let sv0 := w_srv w s in
          let d := if checkout then sync_diff sv0 (c_map cl) else [] in
          let sv1 := if checkout then sync_parameters valid (bdefs s) sv0 (c_map cl) else sv0 in
          let lg1 := log_if (negb (is_nil_l d)) (EvSync c s d) (w_log w) in
          let lg2 := EvStmt c s checkout (dirty_keys (bdefs s) (truth sv1))
                            (tvals (eff (truth sv1))) (tvals (fun k => pget k (c_map cl)))
                            (tvals (fun k => pget k (c_est cl))) :: lg1 in
          let oos := w_oos w || msg_oos valid (bdefs s) (truth sv1) ss in
          let '(b', evs) := be_query valid (bdefs s) (truth sv1) ss in
          let '(cm', p') := recv_all (Some (c_map cl)) (pg sv1) evs in
          let cm2 := match cm' with Some m => m | None => c_map cl end in
          let fr := frames evs in
          let lg3 := log_if (negb (is_nil_l fr)) (EvTold c fr) lg2 in
          let sv2 := mkS b' p' in
          if in_txn p' || session c then
            mkW (upd (w_srv w) s sv2)
                (upd (w_cli w) c (Some (mkC cm2 (pset_all (c_told cl) fr) (pset_all (c_est cl) fr) (Some s))))
                (upd (w_owner w) s (Some c)) oos lg3
          else
            release w c s sv2 (Some (mkC cm2 (pset_all (c_told cl) fr) (pset_all (c_est cl) fr) None)) oos lg3
        end
      end
    | ODisconnect c =>
      match w_cli w c with
      | None => w
      | Some cl =>
        match c_held cl with
        | Some s => release w c s (w_srv w s) None (w_oos w) (w_log w)
        | None => mkW (w_srv w) (upd (w_cli w) c None) (w_owner w) (w_oos w) (w_log w)
        end
      end
    | OAbort c =>
      match w_cli w c with
      | None => w
      | Some cl =>
        match c_held cl with
        | Some s =>
          if hb (pg (w_srv w s))
          then mkW (upd (w_srv w) s (fresh_srv (bdefs s))) (upd (w_cli w) c None) (upd (w_owner w) s None)
                   (w_oos w) (EvReplaced s :: w_log w)
          else mkW (w_srv w) (upd (w_cli w) c None) (upd (w_owner w) s None) (w_oos w) (w_log w)
        | None => mkW (w_srv w) (upd (w_cli w) c None) (w_owner w) (w_oos w) (w_log w)
        end
      end
    end.

  Definition run_from (w : world) (ops : list op) : world := fold_left step ops w.
  Definition run (ops : list op) : world := run_from init ops.

  (** every tracked value a client supplies in its startup packet is one the backend accepts *)
  Definition startup_valid (ops : list op) : bool :=
    forallb (fun o => match o with OConnect _ raw => connect_valid valid raw | _ => true end) ops.

End World.

(** ** Concrete instances (the mock backend of the wire harness) *)
Fixpoint is_prefix (p s : bytes) : bool :=
  match p with
  | [] => true
  | x :: p' => match s with y :: s' => (x =? y) && is_prefix p' s' | [] => false end
  end.

Definition INVALID_MARK : bytes := Eval vm_compute in B "!invalid!".
Definition marker_valid (k v : bytes) : bool := negb (is_prefix INVALID_MARK v).

Definition MOCK_DEF : pmap := Eval vm_compute in
  [(K_date, B "ISO, MDY"); (K_interval, B "postgres"); (K_tz, B "Etc/UTC"); (K_app, B "pgcat");
   (K_enc, B "UTF8"); (K_scs, B "on");
   (B "server_version", B "14.0 (mock)"); (B "server_encoding", B "UTF8");
   (B "integer_datetimes", B "on"); (B "is_superuser", B "off")].

Definition no_session (c : nat) : bool := false.
Definition all_session (c : nat) : bool := true.
(** transaction-mode pool / session-mode pool of the harness *)
Definition run_mock (ops : list op) : list ev := rev (w_log (run marker_valid (fun _ => MOCK_DEF) 0 is_unclean no_session ops)).
Definition run_mock_s (ops : list op) : list ev := rev (w_log (run marker_valid (fun _ => MOCK_DEF) 0 is_unclean all_session ops)).

(** ** Checkers over a log (used by the refutation witnesses and by the correspondence) *)
Definition vals_eqb (a b : list (option bytes)) : bool :=
  (Nat.eqb (List.length a) (List.length b)) && forallb (fun p => opt_beq (fst p) (snd p)) (combine a b).

(** some statement ran while the backend's tracked values differed from the client's map *)
Definition stmt_mismatch (l : list ev) : bool :=
  existsb (fun e => match e with EvStmt _ _ _ _ bv cv _ => negb (vals_eqb bv cv) | _ => false end) l.

(** pgcat's client map differs from what the client established *)
Definition est_mismatch (l : list ev) : bool :=
  existsb (fun e => match e with EvStmt _ _ _ _ _ cv evv => negb (vals_eqb cv evv) | _ => false end) l.

(** a connection was handed to a client with an untracked GUC off its default *)
Definition dirty_handoff (l : list ev) : bool :=
  existsb (fun e => match e with EvStmt _ _ true dk _ _ _ => negb (is_nil_l dk) | _ => false end) l.

Definition count_stmts (l : list ev) : nat :=
  List.length (filter (fun e => match e with EvStmt _ _ _ _ _ _ _ => true | _ => false end) l).

(** ** Compact printing of a log for the correspondence: every distinct byte string is printed
    once (table), events refer to it by position. *)
Fixpoint find_idx (v : bytes) (tbl : list bytes) (i : nat) : option nat :=
  match tbl with
  | [] => None
  | x :: r => if beq v x then Some i else find_idx v r (S i)
  end.

Definition intern (tbl : list bytes) (v : bytes) : list bytes * nat :=
  match find_idx v tbl 0 with
  | Some i => (tbl, i)
  | None => (tbl ++ [v], List.length tbl)
  end.

Fixpoint intern_list (tbl : list bytes) (l : list bytes) : list bytes * list nat :=
  match l with
  | [] => (tbl, [])
  | v :: r => let '(t1, i) := intern tbl v in let '(t2, is) := intern_list t1 r in (t2, i :: is)
  end.

Fixpoint intern_optl (tbl : list bytes) (l : list (option bytes)) : list bytes * list (option nat) :=
  match l with
  | [] => (tbl, [])
  | None :: r => let '(t2, is) := intern_optl tbl r in (t2, None :: is)
  | Some v :: r => let '(t1, i) := intern tbl v in let '(t2, is) := intern_optl t1 r in (t2, Some i :: is)
  end.

Fixpoint intern_pairs (tbl : list bytes) (l : list (bytes * bytes)) : list bytes * list (nat * nat) :=
  match l with
  | [] => (tbl, [])
  | (k, v) :: r =>
    let '(t1, i) := intern tbl k in let '(t2, j) := intern t1 v in
    let '(t3, is) := intern_pairs t2 r in (t3, (i, j) :: is)
  end.

Inductive cev :=
| CRefused (c : nat)
| CTold (c : nat) (fr : list (nat * nat))
| CSync (c s : nat) (d : list (nat * nat))
| CStmt (c s : nat) (checkout : bool) (dirty : list nat) (backend_vals : list (option nat))
        (backend_eq_client client_eq_est : bool)
| CClean (s : nat) (rollback reset_all dealloc_all : bool)
| CReplaced (s : nat).

Fixpoint compact (tbl : list bytes) (l : list ev) : list bytes * list cev :=
  match l with
  | [] => (tbl, [])
  | e :: r =>
    match e with
    | EvRefused c => let '(t, cs) := compact tbl r in (t, CRefused c :: cs)
    | EvTold c fr => let '(t1, f) := intern_pairs tbl fr in let '(t, cs) := compact t1 r in (t, CTold c f :: cs)
    | EvSync c s d => let '(t1, f) := intern_pairs tbl d in let '(t, cs) := compact t1 r in (t, CSync c s f :: cs)
    | EvStmt c s co dk bv cv evv =>
      let '(t1, d) := intern_list tbl dk in let '(t2, b) := intern_optl t1 bv in
      let '(t, cs) := compact t2 r in (t, CStmt c s co d b (vals_eqb bv cv) (vals_eqb cv evv) :: cs)
    | EvClean s rb ra da => let '(t, cs) := compact tbl r in (t, CClean s rb ra da :: cs)
    | EvReplaced s => let '(t, cs) := compact tbl r in (t, CReplaced s :: cs)
    end
  end.

Definition run_mock_c (ops : list op) : list bytes * list cev := compact [] (run_mock ops).
Definition run_mock_sc (ops : list op) : list bytes * list cev := compact [] (run_mock_s ops).

(** byte strings written as lower-case hex text (long list literals are slow to parse) *)
Definition hexd (a : ascii) : N := let n := N_of_ascii a in if n <? 58 then n - 48 else n - 87.
Fixpoint unhex (s : string) : bytes :=
  match s with
  | String a (String b r) => (hexd a * 16 + hexd b) :: unhex r
  | _ => []
  end.

(** heterogeneous pools of the harness: server connection s has the defaults [defs_of l s] *)
Definition defs_of (l : list (nat * pmap)) (s : nat) : pmap :=
  match find (fun p => Nat.eqb (fst p) s) l with Some p => snd p | None => MOCK_DEF end.
Definition run_het (l : list (nat * pmap)) (psrc : nat) (sess : bool) (ops : list op) : list ev :=
  rev (w_log (run marker_valid (defs_of l) psrc is_unclean (fun _ => sess) ops)).
Definition run_het_c (l : list (nat * pmap)) (psrc : nat) (sess : bool) (ops : list op) : list bytes * list cev :=
  compact [] (run_het l psrc sess ops).
