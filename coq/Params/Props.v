(** C12 — a client's session parameters follow it across server connections.
    Property theorems only: each is closed by [exact <lemma>] and audited with
    [Print Assumptions]; [Example]s are refutation witnesses (the guards are needed) and
    non-vacuity checks, all by computation. *)
From Coq Require Import NArith List Bool String Permutation.
From PV Require Import Params.Lex Params.LexProofs Params.Model Params.Proofs.
Import ListNotations.
Local Open Scope N_scope.

(** ** Byte level: quoting and PostgreSQL's lexer *)

(** The heart: every value survives [quote_literal] + PostgreSQL's literal lexer, whether
    standard_conforming_strings is on or off. *)
Theorem c12_quote_roundtrip : forall scs_off v, no_nul v = true ->
  lex_literal scs_off (quote_literal v) = Some (v, []).
Proof. exact quote_roundtrip_nonul. Qed.
Print Assumptions c12_quote_roundtrip.

(** Hence the two modes agree: a batch that changes standard_conforming_strings and sets a value
    with a backslash reads the same in either statement order. *)
Theorem c12_quote_mode_independent : forall v,
  lex_literal true (quote_literal v) = lex_literal false (quote_literal v).
Proof. exact quote_mode_independent. Qed.
Print Assumptions c12_quote_mode_independent.

(** The Query message pgcat sends for n differences is read by the backend as exactly those n
    SET statements, whatever the values contain and in both modes. *)
Theorem c12_no_injection : forall scs_off d, keys_ok d = true -> vals_ok d = true ->
  apply_set_batch scs_off (on_wire (gen_batch d)) = Some d.
Proof. exact no_injection_wire. Qed.
Print Assumptions c12_no_injection.

(** HashMap iteration order: any permutation of the differences yields a batch that is read as
    that permutation and leaves every GUC with the same value. *)
Theorem c12_batch_order_irrelevant : forall scs d d', Permutation d d' -> keys_ok d = true ->
  NoDup (map fst d) ->
  apply_set_batch scs (gen_batch d') = Some d' /\
  forall m k, pget k (pset_all m d') = pget k (pset_all m d).
Proof. exact batch_order. Qed.
Print Assumptions c12_batch_order_irrelevant.

(** Regression: the quoting used before the repair (F6, [format!("'{}'", v)]). *)
Example c12_old_quote_breaks :
  apply_set_batch false (old_batch [(K_app, B "it's")]) = None.
Proof. vm_compute. reflexivity. Qed.

Example c12_old_quote_injects :
  split_stmts false (old_batch [(K_app, B "x'; DROP TABLE t; --")]) =
  Some [B "SET application_name TO 'x'"; B " DROP TABLE t"].
Proof. vm_compute. reflexivity. Qed.

Example c12_new_quote_same_values :
  apply_set_batch false (gen_batch [(K_app, B "it's"); (K_tz, B "x'; DROP TABLE t; --"); (K_date, B "a\b'c")]) =
    Some [(K_app, B "it's"); (K_tz, B "x'; DROP TABLE t; --"); (K_date, B "a\b'c")] /\
  apply_set_batch true (gen_batch [(K_scs, B "off"); (K_app, B "a\\b''\")]) =
    Some [(K_scs, B "off"); (K_app, B "a\\b''\")].
Proof. vm_compute. split; reflexivity. Qed.

(** ** Session level.  [valid] = the backend's own check of a value, [bdef] = its session
    defaults, [hb] = what pool.rs has_broken answers for a connection returned without
    check-in, [bdefs s] = the session defaults and read-only reports of the backend behind
    server connection s (servers of a pool - primary, replicas - and even connections of one
    server may differ in tracked defaults and in server_version, in_hot_standby, ...), [psrc] =
    the connection whose reports became the pool's snapshot, [session c] = client c's pool is in session mode (the server is kept from the
    first message until the client leaves) - any assignment of modes to clients, so both
    transaction-mode and session-mode pools (and mixtures) are covered.  All of them are
    arbitrary; the hypotheses are stated. *)

(** Before each of a client's messages reaches a server connection, that connection's values of
    the five tracked parameters equal the client's map — for every history of connects, queries
    (any statements, any values), disconnects and aborted client tasks, any number of clients
    and server connections.  Needs: every tracked startup value is one the backend accepts
    ([startup_valid], see [c12_invalid_startup_refuted]) and C02's hand-off rule ([hb]). *)
Theorem c12_synced_before_statement : forall valid bdefs psrc hb session,
  (forall s, bdef_ok valid (bdefs s) = true) -> (forall p, is_unclean p = true -> hb p = true) ->
  forall ops, startup_valid valid ops = true ->
  forall c s co dk bv cv evv,
    In (EvStmt c s co dk bv cv evv) (w_log (run valid bdefs psrc hb session ops)) -> bv = cv.
Proof. exact synced_before_statement. Qed.
Print Assumptions c12_synced_before_statement.

(** The ParameterStatus frames sent at startup are the client's map, and every later forwarded
    frame keeps "what the client was told" equal to the client's map on the tracked keys. *)
Theorem c12_client_told_same : forall valid bdefs psrc hb session,
  (forall s, bdef_ok valid (bdefs s) = true) -> (forall p, is_unclean p = true -> hb p = true) ->
  (forall w c raw ps, w_cli w c = None -> startup_decode raw = Some ps ->
     exists cl, w_cli (step valid bdefs psrc hb session w (OConnect c raw)) c = Some cl /\ c_told cl = c_map cl /\
                c_map cl = set_from_list (wpool bdefs psrc) ps false /\
                w_log (step valid bdefs psrc hb session w (OConnect c raw)) = EvTold c (c_map cl) :: w_log w) /\
  (forall ops, startup_valid valid ops = true ->
     forall c cl, w_cli (run valid bdefs psrc hb session ops) c = Some cl ->
     forall k, tracked k = true -> pget k (c_map cl) = pget k (c_told cl)).
Proof. exact told_same_all. Qed.
Print Assumptions c12_client_told_same.

(** The client's map is what the client established: its startup parameters (the pairs up to the
    terminating empty name; names resolved ignoring case as PostgreSQL does; values as sent:
    empty, non-ASCII ...), then the server's reports - for every history, no guard (the guards
    that findings D1-D3 needed are gone with repairs 5c1953d and 68af9b4). *)
Theorem c12_established : forall valid bdefs psrc hb session ops,
  forall c s co dk bv cv evv,
    In (EvStmt c s co dk bv cv evv) (w_log (run valid bdefs psrc hb session ops)) -> cv = evv.
Proof. exact established. Qed.
Print Assumptions c12_established.

(** No cross-client visibility, part 1: nothing another client does touches a client's map, the
    record of what it was told, or what it established. *)
Theorem c12_no_cross_client_frame : forall valid bdefs psrc hb session w o c,
  op_client o <> c -> w_cli (step valid bdefs psrc hb session w o) c = w_cli w c.
Proof. exact step_frame. Qed.
Print Assumptions c12_no_cross_client_frame.

(** No cross-client visibility, part 2: when a connection is handed to a client (first message
    after a checkout) its tracked values are that client's own (by sync) and no untracked GUC
    is off its default (by RESET ALL at check-in), given C02's hand-off rule [hb] and the
    property's scope (no SET of an untracked GUC inside a transaction block: [w_oos]). *)
Theorem c12_no_cross_client : forall valid bdefs psrc hb session,
  (forall s, bdef_ok valid (bdefs s) = true) -> (forall p, is_unclean p = true -> hb p = true) ->
  forall ops, startup_valid valid ops = true ->
  forall c s dk bv cv evv,
    In (EvStmt c s true dk bv cv evv) (w_log (run valid bdefs psrc hb session ops)) ->
    bv = cv /\ (w_oos (run valid bdefs psrc hb session ops) = false -> dk = []).
Proof. exact no_cross_client. Qed.
Print Assumptions c12_no_cross_client.

(** ** Witnesses: every guard above is needed (computed on the model instance of the harness:
    [marker_valid], [MOCK_DEF], [is_unclean]). *)
Definition u := (k_user, B "u").
Definition q1 := [SSelect].

Example c12_mock_instance_ok : bdef_ok marker_valid MOCK_DEF = true.
Proof. vm_compute. reflexivity. Qed.

(** non-vacuity: a history inside all guards, with statements, syncs and a RESET ALL *)
Definition ops_good : list op :=
  [OConnect 0 [u; (K_app, B "it's \ a"); (k_datestyle, B "German")];
   OConnect 1 [u; (K_scs, B "off")];
   OQuery 0 0 q1; OQuery 1 0 q1;
   OQuery 0 0 [SSet false (B "statement_timeout") (B "5")];
   OQuery 1 0 [SBegin]; OQuery 1 0 [SSet false K_tz (B "X\Y")]; OQuery 0 1 q1; OQuery 1 0 [SRollback];
   OQuery 0 0 q1; ODisconnect 1; OQuery 0 0 q1].
Example c12_nonvacuous :
  startup_valid marker_valid ops_good = true /\
  count_stmts (run_mock ops_good) = 9%nat /\
  stmt_mismatch (run_mock ops_good) = false /\ est_mismatch (run_mock ops_good) = false /\
  dirty_handoff (run_mock ops_good) = false /\
  w_oos (run marker_valid (fun _ => MOCK_DEF) 0 is_unclean no_session ops_good) = false.
Proof. vm_compute. repeat split; reflexivity. Qed.

(** session mode: one checkout (with sync) at the first message, the server is kept across
    messages outside transactions, a client that needs the same connection waits, check-in
    (RESET ALL) when the session client leaves, the next client is synced and gets a clean
    connection *)
Definition ops_sess : list op :=
  [OConnect 0 [u; (K_app, B "sess'app"); (B "TIMEZONE", B "Europe/Paris")]; OConnect 1 [u; (K_app, B "other")];
   OQuery 0 0 q1; OQuery 0 0 [SSet false K_date (B "German")]; OQuery 0 0 [SSet false (B "statement_timeout") (B "5")];
   OQuery 1 0 q1; OQuery 0 0 q1; ODisconnect 0; OQuery 1 0 q1].
Example c12_session_mode_nonvacuous :
  startup_valid marker_valid ops_sess = true /\
  count_stmts (run_mock_s ops_sess) = 5%nat /\
  stmt_mismatch (run_mock_s ops_sess) = false /\ est_mismatch (run_mock_s ops_sess) = false /\
  dirty_handoff (run_mock_s ops_sess) = false /\
  List.length (filter (fun e => match e with EvSync 0 0 _ => true | _ => false end) (run_mock_s ops_sess)) = 1%nat /\
  existsb (fun e => match e with EvClean 0 false true false => true | _ => false end) (run_mock_s ops_sess) = true /\
  existsb (fun e => match e with
                    | EvStmt 0 0 true _ bv _ _ => opt_beq (nth 2 bv None) (Some (B "Europe/Paris")) && opt_beq (nth 4 bv None) (Some (B "sess'app"))
                    | _ => false end) (run_mock_s ops_sess) = true /\
  existsb (fun e => match e with
                    | EvStmt 1 0 true dk bv _ _ => is_nil_l dk && opt_beq (nth 1 bv None) (Some (B "ISO, MDY")) && opt_beq (nth 4 bv None) (Some (B "other"))
                    | _ => false end) (run_mock_s ops_sess) = true /\
  (* in transaction mode the same operations check out five times *)
  count_stmts (run_mock ops_sess) = 6%nat.
Proof. vm_compute. repeat split; reflexivity. Qed.

(** heterogeneous servers: connection 0 = primary (TimeZone default Europe/Berlin, server_version 15.3),
    connection 1 = replica (DateStyle default SQL, DMY, in_hot_standby on, server_version 14.9), the pool's
    snapshot comes from the replica.  Every SET batch consists of tracked keys only, the client's values are
    in effect on both, and RESET ALL brings each connection back to ITS OWN defaults. *)
Definition DEF_A : pmap := pset (B "server_version") (B "15.3") (pset K_tz (B "Europe/Berlin") MOCK_DEF).
Definition DEF_B : pmap :=
  pset (B "in_hot_standby") (B "on") (pset (B "server_version") (B "14.9") (pset K_date (B "SQL, DMY") MOCK_DEF)).
Definition het_defs : list (nat * pmap) := [(0%nat, DEF_A); (1%nat, DEF_B)].
Definition ops_het : list op :=
  [OConnect 0 [u; (K_app, B "app'a"); (K_tz, B "Europe/Paris")]; OConnect 1 [u];
   OQuery 0 0 q1; OQuery 0 1 q1; OQuery 1 0 q1; OQuery 1 1 q1;
   OQuery 0 0 [SSet false (B "statement_timeout") (B "5")]; OQuery 1 0 q1; OQuery 0 1 q1; OQuery 1 1 q1].
Example c12_heterogeneous_servers :
  bdef_ok marker_valid DEF_A = true /\ bdef_ok marker_valid DEF_B = true /\
  count_stmts (run_het het_defs 1 false ops_het) = 8%nat /\
  stmt_mismatch (run_het het_defs 1 false ops_het) = false /\ est_mismatch (run_het het_defs 1 false ops_het) = false /\
  dirty_handoff (run_het het_defs 1 false ops_het) = false /\
  forallb (fun e => match e with EvSync _ _ d => forallb (fun kv => tracked (fst kv)) d | _ => true end)
          (run_het het_defs 1 false ops_het) = true /\
  (* client 1 sent no parameter: it runs with the snapshot's DateStyle on the primary too, not with Berlin time *)
  existsb (fun e => match e with
                    | EvStmt 1 0 _ _ bv _ _ => opt_beq (nth 1 bv None) (Some (B "SQL, DMY")) && opt_beq (nth 2 bv None) (Some (B "Etc/UTC"))
                    | _ => false end) (run_het het_defs 1 false ops_het) = true /\
  existsb (fun e => match e with EvSync 1 0 d => beq (snd (hd ([], []) d)) (B "SQL, DMY") | _ => false end)
          (run_het het_defs 1 false ops_het) = true.
Proof. vm_compute. repeat split; reflexivity. Qed.

(** values that differ in letter case only are different values: two clients alternating on one
    connection are re-synced every time *)
Definition ops_case : list op :=
  [OConnect 0 [u; (K_app, B "Billing"); (K_tz, B "UTC")]; OConnect 1 [u; (K_app, B "billing"); (K_tz, B "utc")];
   OQuery 0 0 q1; OQuery 1 0 q1; OQuery 0 0 q1; OQuery 1 0 q1].
Example c12_case_is_significant :
  stmt_mismatch (run_mock ops_case) = false /\
  List.length (filter (fun e => match e with EvSync _ _ d => Nat.eqb (List.length d) 2 | _ => false end) (run_mock ops_case)) = 4%nat.
Proof. vm_compute. split; reflexivity. Qed.

(** the cleanup flags are cleared by check-in only: DEALLOCATE ALL / DISCARD ALL / PREPARE after a SET (and a
    SET ROLE, whose tag is SET too) do not make pgcat forget the SET; PREPARE adds DEALLOCATE ALL to the cleanup;
    a SET after a COPY in the same query (the reply then comes in two pieces) is part of the client's map *)
Definition ops_flags : list op :=
  [OConnect 0 [u]; OConnect 1 [u];
   OQuery 0 0 [SSet false (B "statement_timeout") (B "1"); SNoop TgSet; SNoop TgDeallocAll];
   OQuery 1 0 q1;
   OQuery 0 0 [SNoop TgPrepare; SNoop TgOther];
   OQuery 1 0 q1;
   OQuery 0 0 [SSet false K_date (B "German"); SNoop TgOther; SSet false K_tz (B "Mars")];
   OQuery 1 0 q1; OQuery 0 0 q1;
   OQuery 0 0 [SSet false (B "work_mem") (B "1"); SDiscardAll]; OQuery 1 0 q1].
Example c12_flags_cleared_by_checkin_only :
  dirty_handoff (run_mock ops_flags) = false /\ stmt_mismatch (run_mock ops_flags) = false /\
  w_oos (run marker_valid (fun _ => MOCK_DEF) 0 is_unclean no_session ops_flags) = false /\
  existsb (fun e => match e with EvClean 0 false true false => true | _ => false end) (run_mock ops_flags) = true /\
  existsb (fun e => match e with EvClean 0 false false true => true | _ => false end) (run_mock ops_flags) = true /\
  existsb (fun e => match e with
                    | EvStmt 0 0 true _ bv _ _ => opt_beq (nth 1 bv None) (Some (B "German")) && opt_beq (nth 2 bv None) (Some (B "Mars"))
                    | _ => false end) (run_mock ops_flags) = true.
Proof. vm_compute. repeat split; reflexivity. Qed.

(** D-invalid: a client whose startup packet carries a value the backend refuses for ONE tracked
    parameter: the whole SET batch fails (pgcat ignores the ErrorResponse), so NONE of its
    parameters is applied and its statements run with the previous client's application_name. *)
Definition ops_invalid : list op :=
  [OConnect 0 [u; (K_app, B "app-a")];
   OConnect 1 [u; (K_app, B "app-b"); (K_enc, B "!invalid!LATIN9X")];
   OQuery 0 0 [SBegin]; OQuery 0 0 [SSet false K_tz (B "Europe/Paris")]; OQuery 0 0 [SCommit];
   OQuery 1 0 q1].
Example c12_invalid_startup_refuted :
  startup_valid marker_valid ops_invalid = false /\ stmt_mismatch (run_mock ops_invalid) = true /\
  existsb (fun e => match e with
                    | EvStmt 1 0 _ _ bv _ _ => vals_eqb bv [Some (B "UTF8"); Some (B "ISO, MDY"); Some (B "Europe/Paris"); Some (B "on"); Some (B "app-a")]
                    | _ => false end) (run_mock ops_invalid) = true.
Proof. vm_compute. repeat split; reflexivity. Qed.

(** Regressions of the repaired startup findings: the old inputs are handled right now; the
    transcriptions of the old code ([old_startup_decode], [old_recase]) show what used to happen. *)
Definition cafe : bytes := [99; 97; 102; 195; 169].
Definition ops_nonascii : list op := [OConnect 0 [u; (K_app, cafe)]; OQuery 0 0 q1].
Example c12_startup_nonascii_fixed :   (* D1, 5c1953d *)
  est_mismatch (run_mock ops_nonascii) = false /\ stmt_mismatch (run_mock ops_nonascii) = false /\
  existsb (fun e => match e with EvStmt 0 0 _ _ bv _ _ => opt_beq (nth 4 bv None) (Some cafe) | _ => false end)
          (run_mock ops_nonascii) = true /\
  startup_decode [u; (K_app, cafe)] = Some [u; (K_app, cafe)] /\
  old_startup_decode [u; (K_app, cafe)] = Some [u; (K_app, [99; 97; 102; 195; 131; 194; 169])].
Proof. vm_compute. repeat split; reflexivity. Qed.

Definition ops_spelling : list op :=
  [OConnect 0 [u; (B "TIMEZONE", B "Europe/Paris"); (B "Application_Name", B "x")]; OQuery 0 0 q1].
Example c12_startup_key_spelling_fixed :   (* D2, 68af9b4 *)
  est_mismatch (run_mock ops_spelling) = false /\ stmt_mismatch (run_mock ops_spelling) = false /\
  existsb (fun e => match e with
                    | EvStmt 0 0 _ _ bv _ _ => opt_beq (nth 2 bv None) (Some (B "Europe/Paris")) && opt_beq (nth 4 bv None) (Some (B "x"))
                    | _ => false end) (run_mock ops_spelling) = true /\
  recase (B "TIMEZONE") = K_tz /\ recase (B "Application_Name") = K_app /\ recase (B "datestyle") = K_date /\
  recase (B "server_version") = B "server_version" /\
  old_recase (B "TIMEZONE") = B "TIMEZONE".
Proof. vm_compute. repeat split; reflexivity. Qed.

Definition ops_empty : list op := [OConnect 0 [u; (B "database", B "db"); (K_app, []); (K_enc, [])]; OQuery 0 0 q1].
Example c12_startup_empty_fixed :   (* D3, 5c1953d *)
  startup_decode [u; (B "database", B "db"); (K_app, [])] = Some [u; (B "database", B "db"); (K_app, [])] /\
  startup_decode [u; (B "database", B "db"); (K_app, []); (K_enc, [])] =
    Some [u; (B "database", B "db"); (K_app, []); (K_enc, [])] /\
  est_mismatch (run_mock ops_empty) = false /\ stmt_mismatch (run_mock ops_empty) = false /\
  existsb (fun e => match e with EvStmt 0 0 _ _ bv _ _ => opt_beq (nth 4 bv None) (Some []) && opt_beq (nth 0 bv None) (Some []) | _ => false end)
          (run_mock ops_empty) = true /\
  old_startup_decode [u; (B "database", B "db"); (K_app, [])] = None /\
  old_startup_decode [u; (B "database", B "db"); (K_app, []); (K_enc, [])] = Some [u; (B "database", B "db"); (K_app, K_enc)] /\
  (* the list ends at an empty name; nothing or no user => refused *)
  startup_decode [u; ([], B "x"); (K_app, B "ignored")] = Some [u] /\ startup_decode [] = None /\
  startup_decode [(K_app, B "x")] = None.
Proof. vm_compute. repeat split; reflexivity. Qed.

(** the dependency on C02 is real: with the original has_broken (always false) a client task that
    dies in a failed transaction hands its connection on; the next client's SET batch is refused
    ("current transaction is aborted") and it runs with the dead client's TimeZone. *)
Definition ops_abort : list op :=
  [OConnect 0 [u]; OConnect 1 [u];
   OQuery 0 0 [SBegin]; OQuery 0 0 [SSet false K_tz (B "Mars/Olympus")]; OQuery 0 0 [SSet false K_app (B "a")];
   OQuery 0 0 [SFail]; OAbort 0;
   OQuery 1 0 q1].
Example c12_hb_needed_refuted :
  startup_valid marker_valid ops_abort = true /\
  stmt_mismatch (rev (w_log (run marker_valid (fun _ => MOCK_DEF) 0 (fun _ => false) no_session ops_abort))) = true /\
  stmt_mismatch (run_mock ops_abort) = false.
Proof. vm_compute. repeat split; reflexivity. Qed.

Definition ops_abort2 : list op :=
  [OConnect 0 [u]; OConnect 1 [u];
   OQuery 0 0 [SSet false (B "statement_timeout") (B "5"); SBegin]; OAbort 0;
   OQuery 1 0 [SCommit]; OQuery 1 0 q1].
Example c12_hb_needed_untracked_refuted :
  w_oos (run marker_valid (fun _ => MOCK_DEF) 0 (fun _ => false) no_session ops_abort2) = false /\
  dirty_handoff (rev (w_log (run marker_valid (fun _ => MOCK_DEF) 0 (fun _ => false) no_session ops_abort2))) = true /\
  dirty_handoff (run_mock ops_abort2) = false.
Proof. vm_compute. repeat split; reflexivity. Qed.

(** the scope guard is real (and is C02's): SET of an untracked GUC inside a committed
    transaction block is not detected (server.rs: "We don't detect set statements in
    transactions") and stays on the connection for the next client. *)
Definition ops_oos : list op :=
  [OConnect 0 [u]; OConnect 1 [u];
   OQuery 0 0 [SBegin]; OQuery 0 0 [SSet false (B "statement_timeout") (B "5")]; OQuery 0 0 [SCommit];
   OQuery 1 0 q1].
Example c12_scope_guard_needed :
  w_oos (run marker_valid (fun _ => MOCK_DEF) 0 is_unclean no_session ops_oos) = true /\ dirty_handoff (run_mock ops_oos) = true /\
  stmt_mismatch (run_mock ops_oos) = false.
Proof. vm_compute. repeat split; reflexivity. Qed.

(** the repair of F18 is in the model: COMMIT; SET in ONE query is detected *)
Definition ops_f18 : list op :=
  [OConnect 0 [u]; OConnect 1 [u];
   OQuery 0 0 [SBegin]; OQuery 0 0 [SCommit; SSet false (B "statement_timeout") (B "5")];
   OQuery 1 0 q1].
Example c12_commit_then_set_is_cleaned :
  w_oos (run marker_valid (fun _ => MOCK_DEF) 0 is_unclean no_session ops_f18) = false /\ dirty_handoff (run_mock ops_f18) = false.
Proof. vm_compute. split; reflexivity. Qed.
