(** Compact encoding of the model's event log for the correspondence check. *)
From Coq Require Import List Bool Arith.
From PV Require Import Session.Model.
Import ListNotations.

Definition sqln (s : sql) : nat :=
  match s with Begin => 0 | Commit => 1 | Rollback => 2 | Select => 3 | SetG => 4 | Prepare => 5 | Fail => 6 | CopyIn => 7 | DeallocAll => 8 end.
Definition b2n (b : bool) : nat := if b then 1 else 0.
Definition txn_n (t : tx) : nat := match t with TI => 0 | TT => 1 | TE => 2 end.

Definition ev_code (e : event) : list nat :=
  match e with
  | CheckedOut s c _ => [0; s; c]
  | Exec s c ss => 1 :: s :: c :: map sqln ss
  | Cleanup s a b d => [2; s; b2n a; b2n b; b2n d]
  | Returned s _ => [3; s]
  | ClosedS s => [4; s]
  | PoolError c => [5; c]
  | TaskEnd c => [6; c]
  end.

(** events + final state summary: per live connection (sid, idle?, txn, copy, gout, prep),
    per client (cid, 0 gone | 1 outer | 2 inner, sid) *)
Definition conn_code (p : sid * conn) : list nat :=
  let '(s, k) := p in
  [s; match loc k with Idle => 1 | Held _ => 0 end; txn_n (txn (truth k)); b2n (copy (truth k));
   b2n (gout (truth k)); b2n (prep (truth k))].
Definition client_code (p : cid * client) : list nat :=
  let '(c, cl) := p in match cst cl with Gone => [c; 0; 0] | Outer => [c; 1; 0] | Inner s => [c; 2; s] end.

Definition in_use (st : state) : nat :=
  length (filter (fun p => match loc (snd p) with Held _ => true | Idle => false end) (conns st)).

(** number of server connections in use after each op (the harness waits for the pooler to
    reach that number before it sends the next message) *)
Fixpoint in_use_trace (st : state) (ops : list op) : list nat :=
  match ops with
  | [] => []
  | o :: r => let st1 := fst (step st o) in in_use st1 :: in_use_trace st1 r
  end.

Definition observe (n : nat) (c0 : bool) (ops : list op) : list (list nat) * list (list nat) * list (list nat) * nat * list nat :=
  let '(st, ev) := run (init n c0) ops in
  (map ev_code ev, map conn_code (conns st), map client_code (clients st),
   match monitor c0 [] ev with Some _ => 1 | None => 0 end, in_use_trace (init n c0) ops).
