(** C01 and C02 — property theorems about the session model (coq/Session/Model.v), for EVERY
    sequence of client messages and faults, any number of clients, any pool size. *)
From Coq Require Import List Bool Arith.
From PV Require Import Session.Model Session.Proofs.
Import ListNotations.

(** C02: whenever a server connection is handed to a client, the backend session is not in a
    transaction block, not in COPY, has no SET left from outside a transaction and no
    prepared statement — however the previous holder stopped (COMMIT, Terminate, socket drop,
    malformed message, panic, idle-in-transaction timeout, statement timeout, write failure,
    server failure). *)
Theorem c02_clean_handoff : forall n c0 ops s c b,
  In (CheckedOut s c b) (snd (run (init n c0) ops)) -> clean c0 b = true.
Proof. exact clean_handoff. Qed.
Print Assumptions c02_clean_handoff.

(** C02: a connection goes back to the pool only clean; an unclean one is closed. *)
Theorem c02_returned_only_clean : forall n c0 ops s b,
  In (Returned s b) (snd (run (init n c0) ops)) -> clean c0 b = true.
Proof. exact returned_clean. Qed.
Print Assumptions c02_returned_only_clean.

Theorem c02_idle_is_clean : forall n c0 ops s k,
  get s (conns (fst (run (init n c0) ops))) = Some k -> loc k = Idle -> clean c0 (truth k) = true.
Proof. exact idle_is_clean. Qed.
Print Assumptions c02_idle_is_clean.

(** C01 + C02 as one statement: the whole event log of any run passes the monitor (exclusive
    holder per connection, statements only from the holder, hand-off only when clean). *)
Theorem c01_c02_log_monitor : forall n c0 ops, exists h, monitor c0 [] (snd (run (init n c0) ops)) = Some h.
Proof. exact run_monitor. Qed.
Print Assumptions c01_c02_log_monitor.

(** C01: every statement executed on a server connection comes from the client that holds
    it at that moment (so between a client's check-out and the release nobody else's
    statement runs there, and a release needs a finished transaction by c02_returned_only_clean). *)
Theorem c01_exec_by_holder : forall n c0 ops e1 s c ss e2,
  snd (run (init n c0) ops) = e1 ++ Exec s c ss :: e2 ->
  exists h1, monitor c0 [] e1 = Some h1 /\ get s h1 = Some (Some c).
Proof. exact exec_by_holder. Qed.
Print Assumptions c01_exec_by_holder.

(** C01: a server connection serves one client at a time. *)
Theorem c01_one_holder : forall n c0 ops c1 c2 cl1 cl2 s,
  get c1 (clients (fst (run (init n c0) ops))) = Some cl1 -> cst cl1 = Inner s ->
  get c2 (clients (fst (run (init n c0) ops))) = Some cl2 -> cst cl2 = Inner s -> c1 = c2.
Proof. exact holder_unique. Qed.
Print Assumptions c01_one_holder.

(** The belief pgcat keeps about a connection is right at every message boundary. *)
Theorem c02_belief_tracks_truth : forall n c0 ops s k,
  get s (conns (fst (run (init n c0) ops))) = Some k -> tracksb (belief k) (truth k) = true.
Proof.
  intros n c0 ops s k G. destruct (run_ok ops (init n c0) (init_J n c0) (init_K n c0)) as [_ [(_ & _ & T) _]].
  exact (proj1 (T _ _ G)).
Qed.
Print Assumptions c02_belief_tracks_truth.

(** Discrimination: with the code as it was before the repairs the statement is false.
    [has_broken_old] looked at [bad] only: a task that dies inside a transaction hands the
    open transaction to the next client. *)
Definition put_back_old (st : state) (s : sid) : state * list event :=
  match get s (conns st) with
  | Some k => if bad (belief k) then (drop_conn st s, [ClosedS s])
              else (set_conn st s {| truth := truth k; belief := belief k; loc := Idle |}, [Returned s (truth k)])
  | None => (st, [])
  end.
Example c02_old_has_broken_refuted :
  let st0 := fst (run (init 1 true) [Connect 1 false; Connect 2 false; Query 1 [Begin]]) in
  let '(st1, ev) := put_back_old st0 0 in
  exists b, In (Returned 0 b) ev /\ clean true b = false.
Proof. vm_compute. eexists. split; [left; reflexivity|reflexivity]. Qed.

(** With cleanup_server_connections = false the operator gave up the reset of session state; the
    transaction / COPY part still holds ([clean false]) and a panic inside a transaction
    still closes the connection. *)
Example c02_cleanup_off :
  let ev := snd (run (init 1 false) [Connect 1 false; Connect 2 false; Query 1 [SetG]; Query 2 [Begin]; PanicMsg 2; Connect 3 false; Query 3 [Select]]) in
  monitor false [] ev <> None /\ In (ClosedS 0) ev /\ monitor true [] ev = None.
Proof. vm_compute. repeat split; try discriminate. auto 10. Qed.

(** Non-vacuity: a history with three clients on a pool of one connection, with a COMMIT; SET
    in one query, a COPY abandoned by a disconnect, a panic inside a transaction, session mode. *)
Example c02_history :
  let ops := [Connect 1 false; Connect 2 false; Connect 3 true; Query 1 [Begin]; Query 1 [Commit; SetG];
              Query 2 [Select]; Query 1 [Prepare; CopyIn]; Drop 1; Query 2 [Begin]; PanicMsg 2;
              Query 3 [SetG]; Batch 3 true Select; Terminate 3] in
  let ev := snd (run (init 1 true) ops) in
  length (filter (fun e => match e with CheckedOut _ _ _ => true | _ => false end) ev) = 5 /\
  length (filter (fun e => match e with ClosedS _ => true | _ => false end) ev) = 2 /\
  monitor true [] ev <> None.
Proof. vm_compute. repeat split; discriminate. Qed.
