(** Session model: pgcat's [Client::handle] transaction loop, [Server::recv] belief
    tracking, [checkin_cleanup], bb8 put-back with [has_broken], and the PostgreSQL session
    state it is about — at MESSAGE granularity (one op = one client message or fault,
    processed up to the next point where the task waits for the client).

    Transcribed from /repo/src/client.rs (handle: outer loop 891-1134, transaction loop
    1172-1622), /repo/src/server.rs (recv 905-1115, checkin_cleanup, is_unclean),
    /repo/src/pool.rs (ServerPool::has_broken), bb8-0.8.6 inner.rs put_back.
    Scope: one (pool,user,server) address; statement caching, plugins and the query parser
    off; tracked-parameter sync is C12's subject and not modelled here.  Definitions only. *)
From Coq Require Import List Bool Arith Lia.
Import ListNotations.

(* ---------------------------------------------------------------- PostgreSQL session *)
Inductive tx := TI | TT | TE.                       (* ReadyForQuery status I / T / E *)
Definition tx_eqb (a b : tx) : bool :=
  match a, b with TI, TI | TT, TT | TE, TE => true | _, _ => false end.

(** Client statements, by their effect on session state. *)
Inductive sql :=
| Begin | Commit | Rollback | Select
| SetG        (* SET of an untracked GUC or SET ROLE: session level *)
| Prepare     (* SQL PREPARE *)
| Fail        (* a statement the server answers with ErrorResponse *)
| CopyIn      (* COPY .. FROM STDIN *)
| DeallocAll. (* DEALLOCATE ALL issued by the client: drops the SQL-prepared statements, leaves the GUCs *)

Record bt := {                 (* backend truth *)
  txn : tx;
  copy : bool;                 (* COPY IN in progress *)
  gout : bool;                 (* a SET executed OUTSIDE a transaction block, not reset since *)
  gtxn : bool;                 (* a SET executed inside the current block *)
  gin : bool;                  (* a SET executed inside a block that committed (out of the property's scope) *)
  prep : bool                  (* SQL PREPARE or named protocol statement exists *)
}.
Definition bt0 : bt := {| txn := TI; copy := false; gout := false; gtxn := false; gin := false; prep := false |}.

(** What the property calls clean (SET inside a committed block is excluded by its text:
    "session state the previous client created outside a transaction"). *)
Definition clean (cc : bool) (b : bt) : bool :=
  (* cc = cleanup_server_connections: when the operator switched the cleanup off, only the
     transaction / COPY part of the property can hold *)
  tx_eqb (txn b) TI && negb (copy b) && (negb cc || (negb (gout b) && negb (prep b))).

Inductive rtag := RBegin | RCommit | RRollback | RSelect | RSet | RPrepare | RError | RCopyIn | RDealloc | ROther.

(** One statement on the backend: new state and the reply tag. *)
Definition bexec (b : bt) (s : sql) : bt * rtag :=
  match txn b, s with
  | TE, Commit => ({| txn := TI; copy := copy b; gout := gout b; gtxn := false; gin := gin b; prep := prep b |}, RRollback)
  | TE, Rollback => ({| txn := TI; copy := copy b; gout := gout b; gtxn := false; gin := gin b; prep := prep b |}, RRollback)
  | TE, _ => (b, RError)
  | _, Begin => ({| txn := TT; copy := copy b; gout := gout b; gtxn := gtxn b; gin := gin b; prep := prep b |}, RBegin)
  | _, Commit => ({| txn := TI; copy := copy b; gout := gout b; gtxn := false; gin := gin b || gtxn b; prep := prep b |}, RCommit)
  | _, Rollback => ({| txn := TI; copy := copy b; gout := gout b; gtxn := false; gin := gin b; prep := prep b |}, RRollback)
  | _, Select => (b, RSelect)
  | TI, SetG => ({| txn := TI; copy := copy b; gout := true; gtxn := gtxn b; gin := gin b; prep := prep b |}, RSet)
  | _, SetG => ({| txn := txn b; copy := copy b; gout := gout b; gtxn := true; gin := gin b; prep := prep b |}, RSet)
  | _, Prepare => ({| txn := txn b; copy := copy b; gout := gout b; gtxn := gtxn b; gin := gin b; prep := true |}, RPrepare)
  | TT, Fail => ({| txn := TE; copy := copy b; gout := gout b; gtxn := gtxn b; gin := gin b; prep := prep b |}, RError)
  | _, Fail => (b, RError)
  | _, CopyIn => ({| txn := txn b; copy := true; gout := gout b; gtxn := gtxn b; gin := gin b; prep := prep b |}, RCopyIn)
  | _, DeallocAll => ({| txn := txn b; copy := copy b; gout := gout b; gtxn := gtxn b; gin := gin b; prep := false |}, RDealloc)
  end.

(** A simple Query with several statements: an error or a CopyInResponse ends the processing;
    ReadyForQuery follows unless COPY IN started.  Returns the tags and whether Z is sent. *)
Fixpoint bexec_list (b : bt) (ss : list sql) : bt * list rtag * bool :=
  match ss with
  | [] => (b, [], true)
  | s :: r =>
      let '(b1, t) := bexec b s in
      match t with
      | RError => (b1, [RError], true)
      | RCopyIn => (b1, [RCopyIn], false)
      | _ => let '(b2, ts, z) := bexec_list b1 r in (b2, t :: ts, z)
      end
  end.

(* ---------------------------------------------------------------- pgcat's belief (Server fields) *)
Record bel := { in_txn : bool; in_copy : bool; need_set : bool; need_prep : bool; bad : bool }.
Definition bel0 : bel := {| in_txn := false; in_copy := false; need_set := false; need_prep := false; bad := false |}.

(** Server::recv, per reply message ('C' with a tag, 'E', 'G').  server.rs 966-1070. *)
Definition on_tag (l : bel) (t : rtag) : bel :=
  match t with
  | RSet => {| in_txn := in_txn l; in_copy := false; need_set := need_set l || negb (in_txn l); need_prep := need_prep l; bad := bad l |}
  | RPrepare => {| in_txn := in_txn l; in_copy := false; need_set := need_set l; need_prep := true; bad := bad l |}
  | RCommit | RRollback => {| in_txn := false; in_copy := false; need_set := need_set l; need_prep := need_prep l; bad := bad l |}
  | RCopyIn => {| in_txn := in_txn l; in_copy := true; need_set := need_set l; need_prep := need_prep l; bad := bad l |}
  | _ => {| in_txn := in_txn l; in_copy := false; need_set := need_set l; need_prep := need_prep l; bad := bad l |}
  end.
(** ReadyForQuery with the backend's status. *)
Definition on_z (l : bel) (t : tx) : bel :=
  {| in_txn := negb (tx_eqb t TI); in_copy := in_copy l; need_set := need_set l; need_prep := need_prep l; bad := bad l |}.

Definition on_reply (l : bel) (ts : list rtag) (z : bool) (t : tx) : bel :=
  let l1 := fold_left on_tag ts l in if z then on_z l1 t else l1.

Definition mark_dirty (l : bel) : bel :=
  {| in_txn := in_txn l; in_copy := in_copy l; need_set := true; need_prep := true; bad := bad l |}.
Definition mark_bad (l : bel) : bel :=
  {| in_txn := in_txn l; in_copy := in_copy l; need_set := need_set l; need_prep := need_prep l; bad := true |}.

(** Server::is_unclean (cleanup_server_connections = true) and ServerPool::has_broken. *)
Definition unclean (cc : bool) (l : bel) : bool := in_txn l || in_copy l || (cc && (need_set l || need_prep l)).
Definition has_broken (cc : bool) (l : bel) : bool := bad l || unclean cc l.

(* ---------------------------------------------------------------- connections, clients, pool *)
Definition sid := nat.
Definition cid := nat.

Inductive cloc := Idle | Held (c : cid).
Record conn := { truth : bt; belief : bel; loc : cloc }.

Inductive cstate := Gone | Outer | Inner (s : sid).
Record client := { cst : cstate; smode : bool (* session mode *) }.

Record state := {
  conns : list (sid * conn);     (* live server connections, most recently updated first *)
  clients : list (cid * client);
  maxc : nat;                    (* pool_size *)
  next : sid;
  cc : bool                      (* cleanup_server_connections *)
}.

Inductive event :=
| CheckedOut (s : sid) (c : cid) (b : bt)        (* b = backend state at that instant *)
| Exec (s : sid) (c : cid) (ss : list sql)       (* statements of client c executed on s *)
| Cleanup (s : sid) (rollback reset dealloc : bool)
| Returned (s : sid) (b : bt)
| ClosedS (s : sid)
| PoolError (c : cid)
| TaskEnd (c : cid).

Fixpoint get {A} (k : nat) (l : list (nat * A)) : option A :=
  match l with [] => None | (k', v) :: r => if Nat.eqb k k' then Some v else get k r end.
Fixpoint del {A} (k : nat) (l : list (nat * A)) : list (nat * A) :=
  match l with [] => [] | (k', v) :: r => if Nat.eqb k k' then del k r else (k', v) :: del k r end.
Definition put {A} (k : nat) (v : A) (l : list (nat * A)) : list (nat * A) := (k, v) :: del k l.

Fixpoint first_idle (l : list (sid * conn)) : option sid :=
  match l with
  | [] => None
  | (s, c) :: r => match loc c with Idle => Some s | Held _ => first_idle r end
  end.

Definition set_client (st : state) (c : cid) (v : client) : state :=
  {| conns := conns st; clients := put c v (clients st); maxc := maxc st; next := next st; cc := cc st |}.
Definition set_conn (st : state) (s : sid) (v : conn) : state :=
  {| conns := put s v (conns st); clients := clients st; maxc := maxc st; next := next st; cc := cc st |}.
Definition drop_conn (st : state) (s : sid) : state :=
  {| conns := del s (conns st); clients := clients st; maxc := maxc st; next := next st; cc := cc st |}.

(** pool.get + bb8: an idle connection, else a new one below max_size, else (after
    connect_timeout) an error. *)
Definition checkout (st : state) (c : cid) : option (state * sid * list event) :=
  (* general.server_round_robin defaults to true => bb8 QueueStrategy::Fifo: the connection
     that has been idle longest is handed out.  Returned connections are put at the front of
     [conns], so the longest-idle one is the LAST idle entry. *)
  match first_idle (rev (conns st)) with
  | Some s =>
      match get s (conns st) with
      | Some k => Some (set_conn st s {| truth := truth k; belief := belief k; loc := Held c |}, s, [CheckedOut s c (truth k)])
      | None => None
      end
  | None =>
      if Nat.ltb (length (conns st)) (maxc st) then
        let s := next st in
        Some ({| conns := (s, {| truth := bt0; belief := bel0; loc := Held c |}) :: conns st;
                 clients := clients st; maxc := maxc st; next := S s; cc := cc st |}, s, [CheckedOut s c bt0])
      else None
  end.

(** Dropping the bb8 guard: put_back consults has_broken. *)
Definition put_back (st : state) (s : sid) : state * list event :=
  match get s (conns st) with
  | Some k =>
      if has_broken (cc st) (belief k) then (drop_conn st s, [ClosedS s])
      else (set_conn st s {| truth := truth k; belief := belief k; loc := Idle |}, [Returned s (truth k)])
  | None => (st, [])
  end.

(** Server::checkin_cleanup (server.rs): in COPY mode the connection cannot be cleaned and is
    marked bad; else ROLLBACK if in_transaction, then RESET ROLE; [RESET ALL;] [DEALLOCATE ALL;]
    if cleanup is needed.  The backend executes them; recv updates the belief; then
    cleanup_state.reset(). *)
Definition reset_truth (b : bt) (rs rp : bool) : bt :=
  {| txn := txn b; copy := copy b; gout := if rs then false else gout b; gtxn := gtxn b;
     gin := if rs then false else gin b; prep := if rp then false else prep b |}.

Definition cleanup (c0 : bool) (k : conn) (s : sid) : conn * list event :=
  let l := belief k in let b := truth k in
  if in_copy l then ({| truth := b; belief := mark_bad l; loc := loc k |}, [])
  else
  let rb := in_txn l in
  let '(b1, l1) :=
    if rb then
      let '(b', t) := bexec b Rollback in (b', on_reply l [t] true (txn b'))
    else (b, l) in
  let need := c0 && (need_set l1 || need_prep l1) in
  let '(b2, l2) :=
    if need then
      (* inside a failed transaction block the batch is rejected (25P02) and nothing is reset;
         pgcat clears its flags regardless and reads the status from ReadyForQuery *)
      let b2 := match txn b1 with TE => b1 | _ => reset_truth b1 (need_set l1) (need_prep l1) end in
      (b2, on_z {| in_txn := in_txn l1; in_copy := false; need_set := false; need_prep := false; bad := bad l1 |} (txn b2))
    else (b1, l1) in
  ({| truth := b2; belief := l2; loc := loc k |}, [Cleanup s rb (need && need_set l1) (need && need_prep l1)]).

(* ---------------------------------------------------------------- client messages *)
Inductive op :=
| Connect (c : cid) (session_mode : bool)
| Query (c : cid) (ss : list sql)          (* simple protocol, possibly several statements *)
| Batch (c : cid) (named : bool) (s : sql) (* Parse[named]/Bind/Execute/Sync of one statement *)
| CopyDone (c : cid)
| CopyFail (c : cid)
| Terminate (c : cid)                      (* 'X' *)
| Drop (c : cid)                           (* the client socket is gone *)
| BadMsg (c : cid)                         (* a message whose decoder returns Err (`?`), e.g. a malformed Close *)
| PanicMsg (c : cid)                       (* a message on which the client task panics *)
| IdleTimeout (c : cid)                    (* idle_client_in_transaction_timeout fires *)
| WriteFail (c : cid) (ss : list sql)      (* the statements run, writing the reply to the client fails *)
| StmtTimeout (c : cid) (ss : list sql)    (* the server does not answer within statement_timeout *)
| ServerDies (c : cid) (ss : list sql).    (* the server connection breaks while executing *)

Definition end_task (st : state) (c : cid) (m : bool) : state := set_client st c {| cst := Gone; smode := m |}.

(** Release at the end of a transaction (client.rs 1612-1621) and stay connected. *)
Definition release (st : state) (c : cid) (m : bool) (s : sid) (k : conn) : state * list event :=
  let '(k1, ev1) := cleanup (cc st) k s in
  let st1 := set_conn st s k1 in
  let '(st2, ev2) := put_back st1 s in
  (set_client st2 c {| cst := Outer; smode := m |}, ev1 ++ ev2).

(** After a request cycle inside the transaction loop (client.rs 1282-1296 / 1539-1550):
    release iff the server reports no transaction, we are in transaction mode and not in COPY. *)
Definition after_cycle (st : state) (c : cid) (m : bool) (s : sid) (k : conn) : state * list event :=
  if negb (in_txn (belief k)) && negb m && negb (in_copy (belief k))
  then release st c m s k
  else (set_client (set_conn st s k) c {| cst := Inner s; smode := m |}, []).

(** Run statements of client c on its server: backend executes, pgcat reads the reply. *)
Definition run_on (k : conn) (ss : list sql) : conn :=
  let '(b1, ts, z) := bexec_list (truth k) ss in
  {| truth := b1; belief := on_reply (belief k) ts z (txn b1); loc := loc k |}.

(** Task ends while holding s WITHOUT cleanup: only the guard is dropped. *)
Definition exit_holding (st : state) (c : cid) (m : bool) (s : sid) : state * list event :=
  let '(st1, ev) := put_back st s in (end_task st1 c m, ev ++ [TaskEnd c]).

(** Task ends while holding s WITH cleanup first ('X', client read error in the loop). *)
Definition exit_cleanup (st : state) (c : cid) (m : bool) (s : sid) (k : conn) : state * list event :=
  let '(k1, ev1) := cleanup (cc st) k s in
  let '(st1, ev2) := put_back (set_conn st s k1) s in
  (end_task st1 c m, ev1 ++ ev2 ++ [TaskEnd c]).

Definition with_server (st : state) (c : cid) (m : bool) (cs : cstate)
    (f : state -> sid -> conn -> state * list event) : state * list event :=
  match cs with
  | Inner s => match get s (conns st) with Some k => f st s k | None => (st, []) end
  | Outer =>
      match checkout st c with
      | Some (st1, s, ev) =>
          match get s (conns st1) with
          | Some k => let '(st2, ev2) := f st1 s k in (st2, ev ++ ev2)
          | None => (st, [])
          end
      | None => (st, [PoolError c])            (* error reply, the client stays usable *)
      end
  | Gone => (st, [])
  end.

Definition step (st : state) (o : op) : state * list event :=
  match o with
  | Connect c m =>
      match get c (clients st) with
      | Some _ => (st, [])
      | None => (set_client st c {| cst := Outer; smode := m |}, [])
      end
  | Query c ss =>
      match get c (clients st) with
      | Some cl =>
          with_server st c (smode cl) (cst cl) (fun st s k =>
            if in_copy (belief k) then (st, [])   (* not generated: a Query during COPY IN *)
            else
            let k1 := run_on k ss in
            let '(st1, ev) := after_cycle st c (smode cl) s k1 in (st1, Exec s c ss :: ev))
      | None => (st, [])
      end
  | Batch c named q =>
      match get c (clients st) with
      | Some cl =>
          with_server st c (smode cl) (cst cl) (fun st s k =>
            if in_copy (belief k) then (st, []) else
            (* a named Parse with caching off marks the connection dirty (client.rs 1406-1411);
               on the backend the named statement now exists *)
            let k0 := if named then {| truth := truth k; belief := mark_dirty (belief k); loc := loc k |} else k in
            let k1 := run_on k0 [q] in
            let k2 := if named then
                        match txn (truth k) with
                        | TE => k1
                        | _ => {| truth := {| txn := txn (truth k1); copy := copy (truth k1); gout := gout (truth k1);
                                             gtxn := gtxn (truth k1); gin := gin (truth k1); prep := true |};
                                 belief := belief k1; loc := loc k1 |}
                        end
                      else k1 in
            let '(st1, ev) := after_cycle st c (smode cl) s k2 in (st1, Exec s c [q] :: ev))
      | None => (st, [])
      end
  | CopyDone c | CopyFail c =>
      match get c (clients st) with
      | Some cl =>
          match cst cl with
          | Inner s =>
              match get s (conns st) with
              | Some k =>
                  if copy (truth k) then
                    (* backend: COPY ends (CommandComplete or ErrorResponse), ReadyForQuery *)
                    let b := truth k in
                    let failed := match o with CopyFail _ => true | _ => false end in
                    let t1 := if failed then (match txn b with TT => TE | x => x end) else txn b in
                    let b1 := {| txn := t1; copy := false; gout := gout b; gtxn := gtxn b; gin := gin b; prep := prep b |} in
                    let k1 := {| truth := b1; belief := on_reply (belief k) [if failed then RError else ROther] true t1; loc := loc k |} in
                    (* client.rs 1590-1601: release iff !in_transaction and transaction mode *)
                    if negb (in_txn (belief k1)) && negb (smode cl) then release st c (smode cl) s k1
                    else (set_conn st s k1, [])
                  else (st, [])
              | None => (st, [])
              end
          | _ => (st, [])
          end
      | None => (st, [])
      end
  | Terminate c =>
      match get c (clients st) with
      | Some cl =>
          match cst cl with
          | Inner s => match get s (conns st) with
                       | Some k => exit_cleanup st c (smode cl) s k
                       | None => (st, []) end
          | Outer => (end_task st c (smode cl), [TaskEnd c])
          | Gone => (st, [])
          end
      | None => (st, [])
      end
  | Drop c =>
      match get c (clients st) with
      | Some cl =>
          match cst cl with
          | Inner s => match get s (conns st) with
                       | Some k => exit_cleanup st c (smode cl) s k
                       | None => (st, []) end
          | Outer => (end_task st c (smode cl), [TaskEnd c])
          | Gone => (st, [])
          end
      | None => (st, [])
      end
  | BadMsg c | PanicMsg c =>
      match get c (clients st) with
      | Some cl =>
          match cst cl with
          | Inner s => exit_holding st c (smode cl) s
          | Outer => (end_task st c (smode cl), [TaskEnd c])
          | Gone => (st, [])
          end
      | None => (st, [])
      end
  | IdleTimeout c =>
      match get c (clients st) with
      | Some cl =>
          match cst cl with
          | Inner s => match get s (conns st) with
                       | Some k => release st c (smode cl) s k
                       | None => (st, []) end
          | _ => (st, [])
          end
      | None => (st, [])
      end
  | WriteFail c ss | StmtTimeout c ss | ServerDies c ss =>
      match get c (clients st) with
      | Some cl =>
          with_server st c (smode cl) (cst cl) (fun st s k =>
            if in_copy (belief k) then (st, []) else
            (* the backend may have executed any prefix; whatever it did, the connection is
               marked bad (client.rs 2003-2010, 2073-2084; server.rs 913-918) *)
            let k1 := run_on k ss in
            let k2 := {| truth := truth k1; belief := mark_bad (belief k1); loc := loc k1 |} in
            let '(st1, ev) := exit_holding (set_conn st s k2) c (smode cl) s in (st1, Exec s c ss :: ev))
      | None => (st, [])
      end
  end.

Definition init (n : nat) (c0 : bool) : state := {| conns := []; clients := []; maxc := n; next := 0; cc := c0 |}.

Fixpoint run (st : state) (ops : list op) : state * list event :=
  match ops with
  | [] => (st, [])
  | o :: r => let '(st1, e1) := step st o in let '(st2, e2) := run st1 r in (st2, e1 ++ e2)
  end.

(* ---------------------------------------------------------------- the property as a log monitor *)
(** [monitor h evs]: h maps each live server connection to its holder (None = idle).
    - a connection is checked out only when nobody holds it and the backend is clean;
    - statements are executed on a connection only for its holder;
    - a connection goes back to the pool only with a clean backend.
    This is C01 (exclusive, whole transaction) + C02 (clean hand-off) on the event log; the
    same predicate is evaluated on the implementation's log by the harness. *)
Fixpoint monitor (c0 : bool) (h : list (sid * option cid)) (evs : list event) : option (list (sid * option cid)) :=
  match evs with
  | [] => Some h
  | e :: r =>
      match e with
      | CheckedOut s c b =>
          match get s h with
          | Some (Some _) => None
          | _ => if clean c0 b then monitor c0 (put s (Some c) h) r else None
          end
      | Exec s c _ =>
          match get s h with
          | Some (Some c') => if Nat.eqb c c' then monitor c0 h r else None
          | _ => None
          end
      | Cleanup s _ _ _ => match get s h with Some (Some _) => monitor c0 h r | _ => None end
      | Returned s b =>
          match get s h with
          | Some (Some _) => if clean c0 b then monitor c0 (put s None h) r else None
          | _ => None
          end
      | ClosedS s => monitor c0 (del s h) r
      | PoolError _ | TaskEnd _ => monitor c0 h r
      end
  end.

Definition holders (st : state) : list (sid * option cid) :=
  map (fun p => (fst p, match loc (snd p) with Idle => None | Held c => Some c end)) (conns st).
