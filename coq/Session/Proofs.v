(** Invariants of the session model and the proof that every run satisfies the log monitor. *)
From Coq Require Import List Bool Arith Lia.
From PV Require Import Session.Model.
Import ListNotations.

(* ------------------------------------------------------------------ finite sweeps *)
Definition all_tx := [TI; TT; TE].
Definition all_bool := [true; false].
Definition all_bt : list bt :=
  flat_map (fun t => flat_map (fun c => flat_map (fun g => flat_map (fun gt => flat_map (fun gi =>
    map (fun p => {| txn := t; copy := c; gout := g; gtxn := gt; gin := gi; prep := p |}) all_bool)
    all_bool) all_bool) all_bool) all_bool) all_tx.
Definition all_bel : list bel :=
  flat_map (fun a => flat_map (fun b => flat_map (fun c => flat_map (fun d =>
    map (fun e => {| in_txn := a; in_copy := b; need_set := c; need_prep := d; bad := e |}) all_bool)
    all_bool) all_bool) all_bool) all_bool.
Definition all_sql := [Begin; Commit; Rollback; Select; SetG; Prepare; Fail; CopyIn; DeallocAll].
Definition all_rtag := [RBegin; RCommit; RRollback; RSelect; RSet; RPrepare; RError; RCopyIn; RDealloc; ROther].

Lemma in_all_bool x : In x all_bool. Proof. destruct x; cbn; auto. Qed.
Lemma in_all_tx x : In x all_tx. Proof. destruct x; cbn; auto. Qed.
Lemma in_all_sql x : In x all_sql. Proof. destruct x; cbn; auto 10. Qed.
Lemma in_all_bt x : In x all_bt.
Proof. destruct x as [t c g gt gi p]; destruct t, c, g, gt, gi, p; vm_compute; auto 100. Qed.
Lemma in_all_bel x : In x all_bel.
Proof. destruct x as [a b c d e]; destruct a, b, c, d, e; vm_compute; auto 40. Qed.

Lemma sweep_bt (P : bt -> bool) : forallb P all_bt = true -> forall b, P b = true.
Proof. intros H b. rewrite forallb_forall in H. apply H, in_all_bt. Qed.
Lemma sweep_bel (P : bel -> bool) : forallb P all_bel = true -> forall l, P l = true.
Proof. intros H l. rewrite forallb_forall in H. apply H, in_all_bel. Qed.
Lemma sweep_sql (P : sql -> bool) : forallb P all_sql = true -> forall s, P s = true.
Proof. intros H s. rewrite forallb_forall in H. apply H, in_all_sql. Qed.
Lemma sweep_bool (P : bool -> bool) : forallb P all_bool = true -> forall s, P s = true.
Proof. intros H s. rewrite forallb_forall in H. apply H, in_all_bool. Qed.

(* ------------------------------------------------------------------ belief tracks truth *)
(** Between the replies of one message (no ReadyForQuery yet). *)
Definition midb (l : bel) (b : bt) : bool :=
  bad l || (eqb (in_copy l) (copy b) && implb (gout b) (need_set l) && implb (prep b) (need_prep l)
            && implb (tx_eqb (txn b) TI) (negb (in_txn l))).
(** At a message boundary: exact transaction status unless COPY IN is in progress. *)
Definition tracksb (l : bel) (b : bt) : bool :=
  bad l || (eqb (in_copy l) (copy b) && implb (gout b) (need_set l) && implb (prep b) (need_prep l)
            && (if copy b then implb (tx_eqb (txn b) TI) (negb (in_txn l))
                else eqb (in_txn l) (negb (tx_eqb (txn b) TI)))).

Lemma tracks_mid l b : tracksb l b = true -> midb l b = true.
Proof.
  intros H.
  assert (G: forallb (fun b => forallb (fun l => implb (tracksb l b) (midb l b)) all_bel) all_bt = true) by (vm_compute; reflexivity).
  rewrite forallb_forall in G. specialize (G b (in_all_bt b)). rewrite forallb_forall in G.
  specialize (G l (in_all_bel l)). rewrite H in G. exact G.
Qed.

(** one statement: the backend executes it, recv sees its tag *)
Lemma step_mid l b s : copy b = false -> midb l b = true ->
  midb (on_tag l (snd (bexec b s))) (fst (bexec b s)) = true.
Proof.
  intros Hc H.
  assert (G: forallb (fun b => forallb (fun l => forallb (fun s =>
             implb (negb (copy b) && midb l b) (midb (on_tag l (snd (bexec b s))) (fst (bexec b s)))) all_sql) all_bel) all_bt = true)
    by (vm_compute; reflexivity).
  rewrite forallb_forall in G. specialize (G b (in_all_bt b)). rewrite forallb_forall in G.
  specialize (G l (in_all_bel l)). rewrite forallb_forall in G. specialize (G s (in_all_sql s)).
  rewrite Hc, H in G. exact G.
Qed.

(** after an error or CopyInResponse the message is over: copy stays false except for CopyIn *)
Lemma bexec_copy b s : copy b = false -> copy (fst (bexec b s)) = match snd (bexec b s) with RCopyIn => true | _ => false end.
Proof.
  intros Hc.
  assert (G: forallb (fun b => forallb (fun s => implb (negb (copy b))
      (eqb (copy (fst (bexec b s))) (match snd (bexec b s) with RCopyIn => true | _ => false end))) all_sql) all_bt = true)
    by (vm_compute; reflexivity).
  rewrite forallb_forall in G. specialize (G b (in_all_bt b)). rewrite forallb_forall in G.
  specialize (G s (in_all_sql s)). rewrite Hc in G. cbn [negb implb] in G. apply eqb_prop in G. exact G.
Qed.

Lemma mid_z l b : copy b = false -> midb l b = true -> tracksb (on_z l (txn b)) b = true.
Proof.
  intros Hc H.
  assert (G: forallb (fun b => forallb (fun l => implb (negb (copy b) && midb l b) (tracksb (on_z l (txn b)) b)) all_bel) all_bt = true)
    by (vm_compute; reflexivity).
  rewrite forallb_forall in G. specialize (G b (in_all_bt b)). rewrite forallb_forall in G.
  specialize (G l (in_all_bel l)). rewrite Hc, H in G. exact G.
Qed.

Lemma mid_copy l b : copy b = true -> midb l b = true -> tracksb l b = true.
Proof.
  intros Hc H. unfold tracksb, midb in *. rewrite Hc in *. exact H.
Qed.

(** a whole simple Query *)
Lemma bexec_list_tracks : forall ss l b, copy b = false -> midb l b = true ->
  let '(b1, ts, z) := bexec_list b ss in
  tracksb (on_reply l ts z (txn b1)) b1 = true.
Proof.
  induction ss as [|s r IH]; intros l b Hc H; cbn [bexec_list].
  - unfold on_reply. cbn [fold_left]. apply mid_z; assumption.
  - pose proof (step_mid l b s Hc H) as Hs. pose proof (bexec_copy b s Hc) as Hcp.
    destruct (bexec b s) as [b1 t] eqn:E. cbn [fst snd] in *.
    destruct t.
    all: try (specialize (IH (on_tag l _) b1 Hcp Hs); destruct (bexec_list b1 r) as [[b2 ts] z];
              unfold on_reply in *; cbn [fold_left]; exact IH).
    + (* RError *) unfold on_reply. cbn [fold_left]. apply mid_z; assumption.
    + (* RCopyIn *) unfold on_reply. cbn [fold_left]. apply mid_copy; assumption.
Qed.

Lemma run_on_tracks k ss : in_copy (belief k) = false -> tracksb (belief k) (truth k) = true ->
  tracksb (belief (run_on k ss)) (truth (run_on k ss)) = true.
Proof.
  intros Hic H. unfold run_on.
  destruct (bad (belief k)) eqn:Hb.
  - (* a bad connection stays bad *)
    destruct (bexec_list (truth k) ss) as [[b1 ts] z]. cbn [belief truth].
    assert (Hbad: forall ts l, bad l = true -> bad (fold_left on_tag ts l) = true).
    { induction ts0 as [|t ts0 IH]; intros l0 Hl; cbn [fold_left]; [exact Hl|]. apply IH. destruct t; exact Hl. }
    unfold tracksb, on_reply. destruct z; cbn [bad on_z]; rewrite Hbad by exact Hb; reflexivity.
  - assert (Hc: copy (truth k) = false).
    { unfold tracksb in H. rewrite Hb in H. cbn [orb] in H.
      destruct (copy (truth k)); [|reflexivity]. rewrite Hic in H. cbn in H. discriminate. }
    pose proof (bexec_list_tracks ss (belief k) (truth k) Hc (tracks_mid _ _ H)) as G.
    destruct (bexec_list (truth k) ss) as [[b1 ts] z]. cbn [belief truth]. exact G.
Qed.

(** what has_broken lets through is clean *)
Lemma not_broken_clean c0 l b : tracksb l b = true -> has_broken c0 l = false -> clean c0 b = true.
Proof.
  intros H1 H2.
  assert (G: forallb (fun c0 => forallb (fun b => forallb (fun l => implb (tracksb l b && negb (has_broken c0 l)) (clean c0 b)) all_bel) all_bt) all_bool = true)
    by (vm_compute; reflexivity).
  rewrite forallb_forall in G. specialize (G c0 (in_all_bool c0)). rewrite forallb_forall in G. specialize (G b (in_all_bt b)). rewrite forallb_forall in G.
  specialize (G l (in_all_bel l)). rewrite H1, H2 in G. exact G.
Qed.

(** checkin_cleanup keeps the belief right, and what it leaves un-broken is clean *)
Lemma cleanup_tracks c0 k s : tracksb (belief k) (truth k) = true ->
  tracksb (belief (fst (cleanup c0 k s))) (truth (fst (cleanup c0 k s))) = true.
Proof.
  intros H.
  assert (G: forallb (fun c0 => forallb (fun b => forallb (fun l => implb (tracksb l b)
      (let k' := fst (cleanup c0 {| truth := b; belief := l; loc := Idle |} 0) in tracksb (belief k') (truth k'))) all_bel) all_bt) all_bool = true)
    by (vm_compute; reflexivity).
  rewrite forallb_forall in G. specialize (G c0 (in_all_bool c0)). rewrite forallb_forall in G. specialize (G (truth k) (in_all_bt _)). rewrite forallb_forall in G.
  specialize (G (belief k) (in_all_bel _)). rewrite H in G. cbn [implb] in G.
  destruct k as [b l lc]. cbn [truth belief] in *.
  unfold cleanup in *. cbn [truth belief loc] in *.
  destruct (in_copy l); [exact G|].
  destruct (in_txn l); destruct (bexec b Rollback) as [b' t];
  repeat match goal with |- context [if ?c then _ else _] => destruct c end; exact G.
Qed.

Lemma cleanup_loc c0 k s : loc (fst (cleanup c0 k s)) = loc k.
Proof.
  unfold cleanup. destruct (in_copy (belief k)); [reflexivity|].
  destruct (in_txn (belief k)); destruct (bexec (truth k) Rollback) as [b' t];
  repeat match goal with |- context [if ?c then _ else _] => destruct c end; reflexivity.
Qed.

(* ------------------------------------------------------------------ association lists *)
Lemma get_put_same {A} k (v : A) l : get k (put k v l) = Some v.
Proof. unfold put. cbn [get]. rewrite Nat.eqb_refl. reflexivity. Qed.

Lemma get_del_same {A} k (l : list (nat * A)) : get k (del k l) = None.
Proof.
  induction l as [|[k' v] r IH]; cbn [del get]; [reflexivity|].
  destruct (Nat.eqb k k') eqn:E; [exact IH|]. cbn [get]. rewrite E. exact IH.
Qed.

Lemma get_del_other {A} k k' (l : list (nat * A)) : k <> k' -> get k (del k' l) = get k l.
Proof.
  intros N. induction l as [|[k2 v] r IH]; cbn [del get]; [reflexivity|].
  destruct (Nat.eqb k' k2) eqn:E.
  - apply Nat.eqb_eq in E. subst k2. destruct (Nat.eqb k k') eqn:E2; [apply Nat.eqb_eq in E2; contradiction|exact IH].
  - cbn [get]. rewrite IH. reflexivity.
Qed.

Lemma get_put_other {A} k k' (v : A) l : k <> k' -> get k (put k' v l) = get k l.
Proof.
  intros N. unfold put. cbn [get]. destruct (Nat.eqb k k') eqn:E; [apply Nat.eqb_eq in E; contradiction|].
  apply get_del_other; exact N.
Qed.

Lemma in_keys_del {A} k k' (l : list (nat * A)) : In k (map fst (del k' l)) -> In k (map fst l) /\ k <> k'.
Proof.
  induction l as [|[k2 v] r IH]; cbn [del map fst In]; [tauto|].
  destruct (Nat.eqb k' k2) eqn:E.
  - intros H. destruct (IH H). tauto.
  - cbn [map fst In]. intros [H|H].
    + subst k2. split; [tauto|]. intros ->. rewrite Nat.eqb_refl in E. discriminate.
    + destruct (IH H). tauto.
Qed.

Lemma nodup_del {A} k (l : list (nat * A)) : NoDup (map fst l) -> NoDup (map fst (del k l)).
Proof.
  induction l as [|[k2 v] r IH]; cbn [del map fst]; intros H; [constructor|].
  inversion H as [|x xs Hn Hr]; subst.
  destruct (Nat.eqb k k2); [apply IH; exact Hr|].
  cbn [map fst]. constructor; [|apply IH; exact Hr].
  intros Hin. apply in_keys_del in Hin. tauto.
Qed.

Lemma nodup_put {A} k (v : A) l : NoDup (map fst l) -> NoDup (map fst (put k v l)).
Proof.
  intros H. unfold put. cbn [map fst]. constructor; [|apply nodup_del; exact H].
  intros Hin. apply in_keys_del in Hin. tauto.
Qed.

Lemma get_in {A} k (v : A) l : get k l = Some v -> In k (map fst l).
Proof.
  induction l as [|[k2 v2] r IH]; cbn [get map fst In]; [discriminate|].
  destruct (Nat.eqb k k2) eqn:E; [apply Nat.eqb_eq in E; auto|]. intros H. right. apply IH; exact H.
Qed.

Lemma first_idle_get l s : NoDup (map fst l) -> first_idle l = Some s -> exists k, get s l = Some k /\ loc k = Idle.
Proof.
  induction l as [|[s' k] r IH]; cbn [first_idle get map fst]; intros Hn; [discriminate|].
  inversion Hn as [|x xs Hnot Hr]; subst.
  destruct (loc k) eqn:E.
  - intros H. inversion H; subst. rewrite Nat.eqb_refl. eauto.
  - intros H. destruct (IH Hr H) as (k0 & G & L).
    destruct (Nat.eqb s s') eqn:E2.
    + apply Nat.eqb_eq in E2. subst s'. exfalso. apply Hnot. eapply get_in; exact G.
    + eauto.
Qed.

Lemma get_some_in {A} k (v : A) l : get k l = Some v -> In (k, v) l.
Proof.
  induction l as [|[k2 v2] r IH]; cbn [get In]; [discriminate|].
  destruct (Nat.eqb k k2) eqn:E.
  - apply Nat.eqb_eq in E. subst. intros H. inversion H. auto.
  - intros H. right. apply IH; exact H.
Qed.

Lemma in_get_nodup {A} k (v : A) l : NoDup (map fst l) -> In (k, v) l -> get k l = Some v.
Proof.
  induction l as [|[k2 v2] r IH]; cbn [get In map fst]; intros Hn Hin; [destruct Hin|].
  inversion Hn as [|x xs Hnot Hr]; subst. destruct Hin as [E|Hin].
  - inversion E; subst. rewrite Nat.eqb_refl. reflexivity.
  - destruct (Nat.eqb k k2) eqn:E.
    + apply Nat.eqb_eq in E. subst. exfalso. apply Hnot. apply (in_map fst) in Hin. exact Hin.
    + apply IH; assumption.
Qed.

Lemma nodup_rev_keys {A} (l : list (nat * A)) : NoDup (map fst l) -> NoDup (map fst (rev l)).
Proof. intros H. rewrite map_rev. apply NoDup_rev. exact H. Qed.

Lemma get_rev {A} k (v : A) l : NoDup (map fst l) -> get k (rev l) = Some v -> get k l = Some v.
Proof. intros Hn H. apply in_get_nodup; [exact Hn|]. apply in_rev. apply get_some_in. exact H. Qed.

Lemma first_idle_none l : first_idle l = None -> forall s k, get s l = Some k -> exists c, loc k = Held c.
Proof.
  induction l as [|[s' k'] r IH]; cbn [first_idle get]; intros H s k G; [discriminate|].
  destruct (loc k') eqn:E; [discriminate|].
  destruct (Nat.eqb s s'); [inversion G; subst; eauto|eapply IH; eauto].
Qed.

(* holders commutes with the map updates *)
Definition hold (k : conn) : option cid := match loc k with Idle => None | Held c => Some c end.

Lemma map_del {A B} (f : A -> B) k (l : list (nat * A)) :
  map (fun p => (fst p, f (snd p))) (del k l) = del k (map (fun p => (fst p, f (snd p))) l).
Proof.
  induction l as [|[k2 v] r IH]; cbn [del map fst snd]; [reflexivity|].
  destruct (Nat.eqb k k2); [exact IH|]. cbn [map fst snd]. rewrite IH. reflexivity.
Qed.

Lemma holders_eq st : holders st = map (fun p => (fst p, hold (snd p))) (conns st).
Proof. reflexivity. Qed.

Lemma holders_set_conn st s k : holders (set_conn st s k) = put s (hold k) (holders st).
Proof. rewrite !holders_eq. unfold set_conn, put. cbn [conns map fst snd]. rewrite map_del. reflexivity. Qed.

Lemma holders_drop_conn st s : holders (drop_conn st s) = del s (holders st).
Proof. rewrite !holders_eq. unfold drop_conn. cbn [conns]. apply map_del. Qed.

Lemma holders_set_client st c v : holders (set_client st c v) = holders st.
Proof. reflexivity. Qed.

Lemma get_holders st s : get s (holders st) = option_map hold (get s (conns st)).
Proof.
  rewrite holders_eq. induction (conns st) as [|[s' k] r IH]; cbn [map get fst snd option_map]; [reflexivity|].
  destruct (Nat.eqb s s'); [reflexivity|exact IH].
Qed.

(* ------------------------------------------------------------------ the monitor respects map equivalence *)
Definition heq {A} (h1 h2 : list (nat * A)) : Prop := forall s, get s h1 = get s h2.

Lemma heq_put {A} s (v : A) h1 h2 : heq h1 h2 -> heq (put s v h1) (put s v h2).
Proof.
  intros H s'. destruct (Nat.eq_dec s' s) as [->|N].
  - rewrite !get_put_same. reflexivity.
  - rewrite !get_put_other by exact N. apply H.
Qed.

Lemma heq_del {A} s (h1 h2 : list (nat * A)) : heq h1 h2 -> heq (del s h1) (del s h2).
Proof.
  intros H s'. destruct (Nat.eq_dec s' s) as [->|N].
  - rewrite !get_del_same. reflexivity.
  - rewrite !get_del_other by exact N. apply H.
Qed.

Lemma monitor_heq c0 : forall ev h1 h2 h1', heq h1 h2 -> monitor c0 h1 ev = Some h1' ->
  exists h2', monitor c0 h2 ev = Some h2' /\ heq h1' h2'.
Proof.
  induction ev as [|e r IH]; intros h1 h2 h1' He Hm; cbn [monitor] in *.
  - inversion Hm; subst. eauto.
  - destruct e as [s c b|s c ss|s x y z|s b|s|c|c]; try (rewrite <- (He s)).
    + destruct (get s h1) as [[c'|]|]; try discriminate.
      * destruct (clean c0 b); [|discriminate]. eapply IH; [apply heq_put; exact He|exact Hm].
      * destruct (clean c0 b); [|discriminate]. eapply IH; [apply heq_put; exact He|exact Hm].
    + destruct (get s h1) as [[c'|]|]; try discriminate.
      destruct (Nat.eqb c c'); [|discriminate]. eapply IH; eauto.
    + destruct (get s h1) as [[c'|]|]; try discriminate. eapply IH; eauto.
    + destruct (get s h1) as [[c'|]|]; try discriminate.
      destruct (clean c0 b); [|discriminate]. eapply IH; [apply heq_put; exact He|exact Hm].
    + eapply IH; [apply heq_del; exact He|exact Hm].
    + eapply IH; eauto.
    + eapply IH; eauto.
Qed.

Lemma monitor_app c0 : forall e1 e2 h h1, monitor c0 h e1 = Some h1 -> monitor c0 h (e1 ++ e2) = monitor c0 h1 e2.
Proof.
  induction e1 as [|e r IH]; intros e2 h h1 H; cbn [monitor app] in *.
  - inversion H; reflexivity.
  - destruct e as [s c b|s c ss|s x y z|s b|s|c|c].
    + destruct (get s h) as [[c'|]|]; try discriminate.
      * destruct (clean c0 b); [|discriminate]. eapply IH; exact H.
      * destruct (clean c0 b); [|discriminate]. eapply IH; exact H.
    + destruct (get s h) as [[c'|]|]; try discriminate. destruct (Nat.eqb c c'); [|discriminate]. eapply IH; exact H.
    + destruct (get s h) as [[c'|]|]; try discriminate. eapply IH; exact H.
    + destruct (get s h) as [[c'|]|]; try discriminate. destruct (clean c0 b); [|discriminate]. eapply IH; exact H.
    + eapply IH; exact H.
    + eapply IH; exact H.
    + eapply IH; exact H.
Qed.

(* ------------------------------------------------------------------ invariants *)
Definition J (st : state) : Prop :=
  NoDup (map fst (conns st)) /\
  (forall s k, get s (conns st) = Some k -> s < next st) /\
  (forall s k, get s (conns st) = Some k ->
     tracksb (belief k) (truth k) = true /\ (loc k = Idle -> has_broken (cc st) (belief k) = false)).

Definition K (st : state) : Prop :=
  forall c cl s, get c (clients st) = Some cl -> cst cl = Inner s ->
    exists k, get s (conns st) = Some k /\ loc k = Held c.

Definition ok (st : state) (res : state * list event) : Prop :=
  (exists h', monitor (cc st) (holders st) (snd res) = Some h' /\ heq h' (holders (fst res))) /\ J (fst res) /\ K (fst res) /\ cc (fst res) = cc st.

Lemma ok_seq st st1 ev1 st2 ev2 : ok st (st1, ev1) -> ok st1 (st2, ev2) -> ok st (st2, ev1 ++ ev2).
Proof.
  intros [(h1 & M1 & E1) (_ & _ & C1)] [(h2 & M2 & E2) (J2 & K2 & C2)]. unfold ok. cbn [fst snd] in *.
  split; [|split; [assumption|split; [assumption|congruence]]].
  rewrite C1 in M2.
  rewrite (monitor_app _ _ _ _ _ M1).
  assert (E1': heq (holders st1) h1) by (intros s; symmetry; apply E1).
  destruct (monitor_heq _ _ _ _ _ E1' M2) as (h2' & M2' & E2').
  exists h2'. split; [exact M2'|]. intros s. rewrite <- E2'. apply E2.
Qed.

Lemma in_get {A} k (l : list (nat * A)) : In k (map fst l) -> exists v, get k l = Some v.
Proof.
  induction l as [|[k2 v2] r IH]; cbn [get map fst In]; [tauto|].
  intros [H|H]; destruct (Nat.eqb k k2) eqn:E; eauto.
  subst k2. rewrite Nat.eqb_refl in E. discriminate.
Qed.

Lemma get_set_conn st s k s' : get s' (conns (set_conn st s k)) = if Nat.eqb s' s then Some k else get s' (conns st).
Proof.
  unfold set_conn. cbn [conns]. destruct (Nat.eqb s' s) eqn:E.
  - apply Nat.eqb_eq in E. subst. apply get_put_same.
  - apply get_put_other. intros ->. rewrite Nat.eqb_refl in E. discriminate.
Qed.

Lemma J_set_conn st s k k0 : J st -> get s (conns st) = Some k0 ->
  tracksb (belief k) (truth k) = true -> (loc k = Idle -> has_broken (cc st) (belief k) = false) -> J (set_conn st s k).
Proof.
  intros (N & B & T) G Ht Hi. split; [|split].
  - apply nodup_put. exact N.
  - intros s' k'. rewrite get_set_conn. cbn [next set_conn]. destruct (Nat.eqb s' s) eqn:E.
    + apply Nat.eqb_eq in E. subst. intros _. eapply B; exact G.
    + apply B.
  - intros s' k'. rewrite get_set_conn. destruct (Nat.eqb s' s).
    + intros H. inversion H; subst. split; assumption.
    + apply T.
Qed.

Lemma J_drop_conn st s : J st -> J (drop_conn st s).
Proof.
  intros (N & B & T). split; [|split].
  - apply nodup_del. exact N.
  - intros s' k'. unfold drop_conn. cbn [conns next]. destruct (Nat.eq_dec s' s) as [->|Ne].
    + rewrite get_del_same. discriminate.
    + rewrite get_del_other by exact Ne. apply B.
  - intros s' k'. unfold drop_conn. cbn [conns]. destruct (Nat.eq_dec s' s) as [->|Ne].
    + rewrite get_del_same. discriminate.
    + rewrite get_del_other by exact Ne. apply T.
Qed.

Lemma J_set_client st c v : J st -> J (set_client st c v).
Proof. intros H. exact H. Qed.

(** K after conn [s] (held by c) stops being held, provided client c is no longer Inner *)
Lemma K_release st st' c s k (cl' : client) :
  K st -> get s (conns st) = Some k -> loc k = Held c ->
  (forall s', s' <> s -> get s' (conns st') = get s' (conns st)) ->
  clients st' = put c cl' (clients st) ->
  (forall s2, cst cl' <> Inner s2) -> K st'.
Proof.
  intros HK G L Hother Hcl Hni c1 cl1 s1 G1 I1. rewrite Hcl in G1.
  destruct (Nat.eq_dec c1 c) as [->|Nc].
  - rewrite get_put_same in G1. inversion G1; subst. exfalso. eapply Hni; exact I1.
  - rewrite get_put_other in G1 by exact Nc.
    destruct (HK _ _ _ G1 I1) as (k1 & Gk & Lk).
    destruct (Nat.eq_dec s1 s) as [->|Ns].
    + rewrite G in Gk. inversion Gk; subst. rewrite L in Lk. congruence.
    + exists k1. rewrite Hother by exact Ns. auto.
Qed.

(** K when conn [s] stays (or becomes) held by c and client c is set to Inner s or anything *)
Lemma K_keep st st' c s k (cl' : client) :
  K st -> (forall s', s' <> s -> get s' (conns st') = get s' (conns st)) ->
  get s (conns st') = Some k -> loc k = Held c ->
  (forall k0, get s (conns st) = Some k0 -> loc k0 = Held c) ->
  clients st' = put c cl' (clients st) ->
  (forall s2, cst cl' = Inner s2 -> s2 = s) -> K st'.
Proof.
  intros HK Hother G L Hold Hcl Hin c1 cl1 s1 G1 I1. rewrite Hcl in G1.
  destruct (Nat.eq_dec c1 c) as [->|Nc].
  - rewrite get_put_same in G1. inversion G1; subst. rewrite (Hin _ I1). eauto.
  - rewrite get_put_other in G1 by exact Nc.
    destruct (HK _ _ _ G1 I1) as (k1 & Gk & Lk).
    destruct (Nat.eq_dec s1 s) as [->|Ns].
    + specialize (Hold _ Gk). rewrite Hold in Lk. congruence.
    + exists k1. rewrite Hother by exact Ns. auto.
Qed.

(* ------------------------------------------------------------------ building blocks *)
Lemma heq_refl {A} (h : list (nat * A)) : heq h h. Proof. intros s; reflexivity. Qed.

Lemma put_back_facts st s k c : J st -> get s (conns st) = Some k -> loc k = Held c ->
  (exists h', monitor (cc st) (holders st) (snd (put_back st s)) = Some h' /\ heq h' (holders (fst (put_back st s)))) /\
  J (fst (put_back st s)) /\
  (forall s', s' <> s -> get s' (conns (fst (put_back st s))) = get s' (conns st)) /\
  clients (fst (put_back st s)) = clients st /\
  (forall k', get s (conns (fst (put_back st s))) = Some k' -> loc k' = Idle) /\
  cc (fst (put_back st s)) = cc st.
Proof.
  intros HJ G L. pose proof HJ as (N & B & T). destruct (T _ _ G) as [Ht _].
  unfold put_back. rewrite G. destruct (has_broken (cc st) (belief k)) eqn:Hb; cbn [fst snd].
  - split; [|split; [|split; [|split; [|split]]]].
    + cbn [monitor]. eexists. split; [reflexivity|]. rewrite holders_drop_conn. apply heq_refl.
    + apply J_drop_conn; exact HJ.
    + intros s' Ne. unfold drop_conn. cbn [conns]. apply get_del_other; exact Ne.
    + reflexivity.
    + intros k'. unfold drop_conn. cbn [conns]. rewrite get_del_same. discriminate.
    + reflexivity.
  - split; [|split; [|split; [|split; [|split]]]]; [| | | | |reflexivity].
    + cbn [monitor]. rewrite get_holders, G. cbn [option_map]. unfold hold. rewrite L.
      rewrite (not_broken_clean _ _ _ Ht Hb). eexists. split; [reflexivity|].
      rewrite holders_set_conn. unfold hold. cbn [loc]. apply heq_refl.
    + eapply J_set_conn; [exact HJ|exact G|exact Ht|]. cbn [belief]. intros _. exact Hb.
    + intros s' Ne. rewrite get_set_conn. destruct (Nat.eqb s' s) eqn:E; [apply Nat.eqb_eq in E; contradiction|reflexivity].
    + reflexivity.
    + intros k'. rewrite get_set_conn, Nat.eqb_refl. intros H. inversion H. reflexivity.
Qed.

Lemma monitor_snoc_task c0 h ev h' c : monitor c0 h ev = Some h' -> monitor c0 h (ev ++ [TaskEnd c]) = Some h'.
Proof. intros H. rewrite (monitor_app _ _ _ _ _ H). reflexivity. Qed.

(** the guard is dropped and the task ends *)
Lemma exit_holding_ok st c m s k : J st -> K st -> get s (conns st) = Some k -> loc k = Held c ->
  ok st (exit_holding st c m s).
Proof.
  intros HJ HK G L. destruct (put_back_facts st s k c HJ G L) as ((h' & M & E) & J1 & Ho & Hc & Hi & Hcc).
  unfold exit_holding. destruct (put_back st s) as [st1 ev] eqn:P. cbn [fst snd] in *.
  split; [|split; [|split]]; cbn [fst snd].
  - exists h'. split; [apply monitor_snoc_task; exact M|]. exact E.
  - exact J1.
  - eapply (K_release st (end_task st1 c m) c s k); eauto.
    + unfold end_task, set_client. cbn [clients]. rewrite Hc. reflexivity.
    + cbn [cst]. discriminate.
  - exact Hcc.
Qed.

(** store an updated value for a held connection (no event) *)
Lemma upd_held_ok st s k0 k c : J st -> K st -> get s (conns st) = Some k0 -> loc k0 = Held c -> loc k = Held c ->
  tracksb (belief k) (truth k) = true ->
  J (set_conn st s k) /\ K (set_conn st s k) /\ heq (holders st) (holders (set_conn st s k)) /\
  get s (conns (set_conn st s k)) = Some k.
Proof.
  intros HJ HK G L0 L Ht. split; [|split; [|split]].
  - eapply J_set_conn; eauto. rewrite L. discriminate.
  - intros c1 cl1 s1 G1 I1. destruct (HK _ _ _ G1 I1) as (k1 & Gk & Lk).
    rewrite get_set_conn. destruct (Nat.eqb s1 s) eqn:E.
    + apply Nat.eqb_eq in E. subst s1. rewrite G in Gk. inversion Gk; subst. exists k. split; [reflexivity|]. congruence.
    + eauto.
  - intros s'. rewrite !get_holders, get_set_conn. destruct (Nat.eqb s' s) eqn:E; [|reflexivity].
    apply Nat.eqb_eq in E. subst. rewrite G. cbn [option_map]. unfold hold. rewrite L0, L. reflexivity.
  - rewrite get_set_conn, Nat.eqb_refl. reflexivity.
Qed.

Lemma monitor_cleanup c0 h s c x y z r : get s h = Some (Some c) -> monitor c0 h (Cleanup s x y z :: r) = monitor c0 h r.
Proof. intros H. cbn [monitor]. rewrite H. reflexivity. Qed.

Lemma cleanup_events c0 k s : snd (cleanup c0 k s) = [] \/ exists x y z, snd (cleanup c0 k s) = [Cleanup s x y z].
Proof.
  unfold cleanup. destruct (in_copy (belief k)); [left; reflexivity|]. right.
  destruct (in_txn (belief k)); destruct (bexec (truth k) Rollback) as [b' t];
  repeat match goal with |- context [if ?c then _ else _] => destruct c end; cbn [snd]; eauto.
Qed.

(** cleanup, put back, then the client goes to state cs' (not Inner) *)
Lemma cleanup_putback_ok st c s k0 k cl' (tail : list event) :
  J st -> K st -> get s (conns st) = Some k0 -> loc k0 = Held c -> loc k = Held c ->
  tracksb (belief k) (truth k) = true -> (forall s2, cst cl' <> Inner s2) ->
  (forall e, In e tail -> exists c', e = TaskEnd c') ->
  let '(k1, ev1) := cleanup (cc st) k s in
  let '(st1, ev2) := put_back (set_conn st s k1) s in
  ok st (set_client st1 c cl', ev1 ++ ev2 ++ tail).
Proof.
  intros HJ HK G L0 L Ht Hni Htail.
  pose proof (cleanup_tracks (cc st) k s Ht) as Ht1. pose proof (cleanup_loc (cc st) k s) as Hl1.
  pose proof (cleanup_events (cc st) k s) as Hev.
  destruct (cleanup (cc st) k s) as [k1 ev1]. cbn [fst snd] in *. rewrite L in Hl1.
  destruct (upd_held_ok st s k0 k1 c HJ HK G L0 Hl1 Ht1) as (J1 & K1 & E1 & G1).
  destruct (put_back_facts (set_conn st s k1) s k1 c J1 G1 Hl1) as ((h' & M & E) & J2 & Ho & Hc & Hi & Hcc).
  destruct (put_back (set_conn st s k1) s) as [st1 ev2]. cbn [fst snd] in *.
  assert (Hh: get s (holders st) = Some (Some c)).
  { rewrite get_holders, G. cbn [option_map]. unfold hold. rewrite L0. reflexivity. }
  assert (Mtail: forall h, monitor (cc st) h tail = Some h).
  { clear -Htail. induction tail as [|e r IH]; intros h; [reflexivity|].
    destruct (Htail e (or_introl eq_refl)) as (c' & ->). cbn [monitor]. apply IH. intros e0 H0. apply Htail. right; exact H0. }
  split; [|split; [|split]]; cbn [fst snd].
  - (* monitor *)
    assert (E1': heq (holders (set_conn st s k1)) (holders st)) by (intros x; symmetry; apply E1).
    change (cc (set_conn st s k1)) with (cc st) in M.
    destruct (monitor_heq _ _ _ _ _ E1' M) as (h2 & M2 & E2).
    exists h2. split.
    + destruct Hev as [->|(x & y & z & ->)]; cbn [app].
      * rewrite (monitor_app _ _ _ _ _ M2). apply Mtail.
      * rewrite (monitor_cleanup _ _ _ c) by exact Hh. rewrite (monitor_app _ _ _ _ _ M2). apply Mtail.
    + intros x. rewrite <- E2. apply E.
  - exact J2.
  - eapply (K_release (set_conn st s k1) (set_client st1 c cl') c s k1); eauto.
    unfold set_client. cbn [clients]. rewrite Hc. reflexivity.
  - exact Hcc.
Qed.

Lemma release_ok st c m s k0 k : J st -> K st -> get s (conns st) = Some k0 -> loc k0 = Held c -> loc k = Held c ->
  tracksb (belief k) (truth k) = true -> ok st (release st c m s k).
Proof.
  intros HJ HK G L0 L Ht. unfold release.
  pose proof (cleanup_putback_ok st c s k0 k {| cst := Outer; smode := m |} [] HJ HK G L0 L Ht) as H.
  destruct (cleanup (cc st) k s) as [k1 ev1]. destruct (put_back (set_conn st s k1) s) as [st1 ev2].
  rewrite app_nil_r in H. apply H; [cbn [cst]; discriminate|intros e []].
Qed.

Lemma exit_cleanup_ok st c m s k0 k : J st -> K st -> get s (conns st) = Some k0 -> loc k0 = Held c -> loc k = Held c ->
  tracksb (belief k) (truth k) = true -> ok st (exit_cleanup st c m s k).
Proof.
  intros HJ HK G L0 L Ht. unfold exit_cleanup, end_task.
  pose proof (cleanup_putback_ok st c s k0 k {| cst := Gone; smode := m |} [TaskEnd c] HJ HK G L0 L Ht) as H.
  destruct (cleanup (cc st) k s) as [k1 ev1]. destruct (put_back (set_conn st s k1) s) as [st1 ev2].
  apply H; [cbn [cst]; discriminate|]. intros e [<-|[]]. eauto.
Qed.

(** keep the server: client Inner s *)
Lemma stay_ok st c m s k0 k : J st -> K st -> get s (conns st) = Some k0 -> loc k0 = Held c -> loc k = Held c ->
  tracksb (belief k) (truth k) = true ->
  ok st (set_client (set_conn st s k) c {| cst := Inner s; smode := m |}, []).
Proof.
  intros HJ HK G L0 L Ht.
  destruct (upd_held_ok st s k0 k c HJ HK G L0 L Ht) as (J1 & K1 & E1 & G1).
  split; [|split; [|split]]; cbn [fst snd].
  - exists (holders st). split; [reflexivity|]. exact E1.
  - exact J1.
  - eapply (K_keep (set_conn st s k) _ c s k); eauto.
    + intros k1 H1. rewrite G1 in H1. inversion H1; subst. exact L.
    + reflexivity.
    + cbn [cst]. intros s2 H2. inversion H2. reflexivity.
  - reflexivity.
Qed.

Lemma after_cycle_ok st c m s k0 k : J st -> K st -> get s (conns st) = Some k0 -> loc k0 = Held c -> loc k = Held c ->
  tracksb (belief k) (truth k) = true -> ok st (after_cycle st c m s k).
Proof.
  intros. unfold after_cycle. destruct (negb (in_txn (belief k)) && negb m && negb (in_copy (belief k))).
  - eapply release_ok; eauto.
  - eapply stay_ok; eauto.
Qed.

(** a statement event in front of an ok continuation *)
Lemma ok_exec st s c ss k res : get s (conns st) = Some k -> loc k = Held c -> ok st res -> ok st (fst res, Exec s c ss :: snd res).
Proof.
  intros G L [(h' & M & E) (J1 & K1 & C1)]. split; [|split; [assumption|split; assumption]]. cbn [fst snd].
  exists h'. split; [|exact E]. cbn [monitor]. rewrite get_holders, G. cbn [option_map]. unfold hold. rewrite L.
  rewrite Nat.eqb_refl. exact M.
Qed.

Lemma tracks0 : tracksb bel0 bt0 = true. Proof. reflexivity. Qed.

Lemma checkout_ok st c st1 s ev : J st -> K st -> checkout st c = Some (st1, s, ev) ->
  ok st (st1, ev) /\ (exists k, get s (conns st1) = Some k /\ loc k = Held c) /\ clients st1 = clients st.
Proof.
  intros HJ HK. pose proof HJ as (N & B & T). unfold checkout.
  destruct (first_idle (rev (conns st))) as [s0|] eqn:F.
  - destruct (first_idle_get _ _ (nodup_rev_keys _ N) F) as (k0 & G0 & L). pose proof (get_rev _ _ _ N G0) as G.
    rewrite G. intros H. inversion H; subst. clear H.
    destruct (T _ _ G) as [Ht Hi]. specialize (Hi L).
    set (k1 := {| truth := truth k0; belief := belief k0; loc := Held c |}).
    split; [|split].
    + split; [|split; [|split]]; cbn [fst snd]; [| | |reflexivity].
      * cbn [monitor]. rewrite get_holders, G. cbn [option_map]. unfold hold at 1. rewrite L.
        rewrite (not_broken_clean _ _ _ Ht Hi). eexists. split; [reflexivity|].
        rewrite holders_set_conn. apply heq_refl.
      * eapply J_set_conn; eauto.
      * intros c1 cl1 s1 G1 I1. cbn [clients set_conn] in G1. destruct (HK _ _ _ G1 I1) as (k2 & Gk & Lk).
        rewrite get_set_conn. destruct (Nat.eqb s1 s) eqn:E; [|eauto].
        apply Nat.eqb_eq in E. subst. rewrite G in Gk. inversion Gk; subst. congruence.
    + exists k1. rewrite get_set_conn, Nat.eqb_refl. split; reflexivity.
    + reflexivity.
  - destruct (Nat.ltb (length (conns st)) (maxc st)); [|discriminate].
    intros H. inversion H; subst. clear H.
    assert (Hfresh: get (next st) (conns st) = None).
    { destruct (get (next st) (conns st)) eqn:E; [|reflexivity]. apply B in E. lia. }
    split; [|split].
    + split; [|split; [|split]]; cbn [fst snd]; [| | |reflexivity].
      * cbn [monitor]. rewrite get_holders, Hfresh. cbn [option_map].
        assert (Hc0: clean (cc st) bt0 = true) by (destruct (cc st); reflexivity). rewrite Hc0.
        eexists. split; [reflexivity|].
        intros x. rewrite get_holders. cbn [conns get].
        unfold put. cbn [get]. destruct (Nat.eqb x (next st)) eqn:E.
        -- reflexivity.
        -- rewrite get_del_other by (intros ->; rewrite Nat.eqb_refl in E; discriminate). rewrite get_holders. reflexivity.
      * split; [|split]; cbn [conns next map fst].
        -- constructor; [|exact N]. intros Hin. apply in_get in Hin. destruct Hin as (v & Hv). rewrite Hfresh in Hv. discriminate.
        -- intros s1 k1. cbn [get]. destruct (Nat.eqb s1 (next st)) eqn:E.
           ++ apply Nat.eqb_eq in E. subst. lia.
           ++ intros G1. apply B in G1. lia.
        -- intros s1 k1. cbn [get]. destruct (Nat.eqb s1 (next st)).
           ++ intros G1. inversion G1; subst. cbn [belief truth loc]. split; [reflexivity|discriminate].
           ++ apply T.
      * intros c1 cl1 s1 G1 I1. cbn [clients] in G1. destruct (HK _ _ _ G1 I1) as (k2 & Gk & Lk).
        cbn [conns get]. destruct (Nat.eqb s1 (next st)) eqn:E; [|eauto].
        apply Nat.eqb_eq in E. subst. rewrite Hfresh in Gk. discriminate.
    + cbn [conns get]. rewrite Nat.eqb_refl. eauto.
    + reflexivity.
Qed.

Definition fgood (c : cid) (f : state -> sid -> conn -> state * list event) : Prop :=
  forall st s k, J st -> K st -> get s (conns st) = Some k -> loc k = Held c -> ok st (f st s k).

Lemma ok_nop st : J st -> K st -> ok st (st, []).
Proof. intros HJ HK. split; [|split; [assumption|split; [assumption|reflexivity]]]. cbn [fst snd monitor]. eexists. split; [reflexivity|apply heq_refl]. Qed.

Lemma with_server_ok st c m cl f : J st -> K st -> get c (clients st) = Some cl -> fgood c f ->
  ok st (with_server st c m (cst cl) f).
Proof.
  intros HJ HK G Hf. unfold with_server. destruct (cst cl) as [| |s] eqn:Ec.
  - apply ok_nop; assumption.
  - destruct (checkout st c) as [[[st1 s] ev]|] eqn:Ck.
    + destruct (checkout_ok _ _ _ _ _ HJ HK Ck) as (O1 & (k & Gk & Lk) & Hc).
      rewrite Gk. pose proof O1 as (_ & J1 & K1 & _). cbn [fst] in J1, K1.
      pose proof (Hf st1 s k J1 K1 Gk Lk) as O2. destruct (f st1 s k) as [st2 ev2].
      eapply ok_seq; eauto.
    + split; [|split; [assumption|split; [assumption|reflexivity]]]. cbn [fst snd monitor]. eexists. split; [reflexivity|apply heq_refl].
  - destruct (HK _ _ _ G Ec) as (k & Gk & Lk). rewrite Gk. apply Hf; assumption.
Qed.

Lemma run_on_loc k ss : loc (run_on k ss) = loc k.
Proof. unfold run_on. destruct (bexec_list (truth k) ss) as [[b1 ts] z]. reflexivity. Qed.

Lemma mark_bad_tracks l b : tracksb (mark_bad l) b = true.
Proof. reflexivity. Qed.

Lemma named_tracks k : in_copy (belief k) = false -> tracksb (belief k) (truth k) = true -> forall q,
  let k0 := {| truth := truth k; belief := mark_dirty (belief k); loc := loc k |} in
  let k1 := run_on k0 [q] in
  tracksb (belief k1) {| txn := txn (truth k1); copy := copy (truth k1); gout := gout (truth k1);
                        gtxn := gtxn (truth k1); gin := gin (truth k1); prep := true |} = true.
Proof.
  intros Hc Ht q.
  assert (G: forallb (fun b => forallb (fun l => forallb (fun q =>
     implb (negb (in_copy l) && tracksb l b)
       (let k1 := run_on {| truth := b; belief := mark_dirty l; loc := Idle |} [q] in
        tracksb (belief k1) {| txn := txn (truth k1); copy := copy (truth k1); gout := gout (truth k1);
                               gtxn := gtxn (truth k1); gin := gin (truth k1); prep := true |})) all_sql) all_bel) all_bt = true)
    by (vm_compute; reflexivity).
  rewrite forallb_forall in G. specialize (G (truth k) (in_all_bt _)). rewrite forallb_forall in G.
  specialize (G (belief k) (in_all_bel _)). rewrite forallb_forall in G. specialize (G q (in_all_sql q)).
  rewrite Hc, Ht in G. cbn [negb andb implb] in G.
  cbv zeta in *. unfold run_on in *. cbn [truth belief loc] in *.
  destruct (bexec_list (truth k) [q]) as [[b1 ts] z]. cbn [truth belief] in *. exact G.
Qed.

Lemma copy_end_tracks k (failed : bool) : copy (truth k) = true -> tracksb (belief k) (truth k) = true ->
  let b := truth k in
  let t1 := if failed then (match txn b with TT => TE | x => x end) else txn b in
  let b1 := {| txn := t1; copy := false; gout := gout b; gtxn := gtxn b; gin := gin b; prep := prep b |} in
  tracksb (on_reply (belief k) [if failed then RError else ROther] true t1) b1 = true.
Proof.
  intros Hc Ht.
  assert (G: forallb (fun b : bt => forallb (fun l : bel => forallb (fun failed : bool =>
     implb (copy b && tracksb l b)
       (let t1 := if failed then (match txn b with TT => TE | x => x end) else txn b in
        let b1 := {| txn := t1; copy := false; gout := gout b; gtxn := gtxn b; gin := gin b; prep := prep b |} in
        tracksb (on_reply l [if failed then RError else ROther] true t1) b1)) all_bool) all_bel) all_bt = true)
    by (vm_compute; reflexivity).
  rewrite forallb_forall in G. specialize (G (truth k) (in_all_bt _)). rewrite forallb_forall in G.
  specialize (G (belief k) (in_all_bel _)). rewrite forallb_forall in G. specialize (G failed (in_all_bool _)).
  rewrite Hc, Ht in G. exact G.
Qed.

Theorem step_ok st o : J st -> K st -> ok st (step st o).
Proof.
  intros HJ HK. destruct o as [c m|c ss|c named q|c|c|c|c|c|c|c|c ss|c ss|c ss]; cbn [step].
  - (* Connect *)
    destruct (get c (clients st)) eqn:G; [apply ok_nop; assumption|].
    split; [|split; [|split]]; cbn [fst snd monitor]; [| | |reflexivity].
    + eexists. split; [reflexivity|apply heq_refl].
    + exact HJ.
    + intros c1 cl1 s1 G1 I1. unfold set_client in G1. cbn [clients] in G1.
      destruct (Nat.eq_dec c1 c) as [->|Ne].
      * rewrite get_put_same in G1. inversion G1; subst. discriminate.
      * rewrite get_put_other in G1 by exact Ne. exact (HK _ _ _ G1 I1).
  - (* Query *)
    destruct (get c (clients st)) as [cl|] eqn:G; [|apply ok_nop; assumption].
    apply with_server_ok; try assumption. intros st1 s k J1 K1 Gk Lk.
    destruct (in_copy (belief k)) eqn:Ic; [apply ok_nop; assumption|].
    destruct (proj2 (proj2 J1) _ _ Gk) as [Ht _].
    pose proof (after_cycle_ok st1 c (smode cl) s k (run_on k ss) J1 K1 Gk Lk
                  ltac:(rewrite run_on_loc; exact Lk) (run_on_tracks k ss Ic Ht)) as O.
    destruct (after_cycle st1 c (smode cl) s (run_on k ss)) as [st2 ev].
    exact (ok_exec st1 s c ss k (st2, ev) Gk Lk O).
  - (* Batch *)
    destruct (get c (clients st)) as [cl|] eqn:G; [|apply ok_nop; assumption].
    apply with_server_ok; try assumption. intros st1 s k J1 K1 Gk Lk.
    destruct (in_copy (belief k)) eqn:Ic; [apply ok_nop; assumption|].
    destruct (proj2 (proj2 J1) _ _ Gk) as [Ht _].
    match goal with |- ok _ (let '(_, _) := after_cycle _ _ _ _ ?K2 in _) => set (k2 := K2) end.
    assert (L2: loc k2 = Held c).
    { subst k2. destruct named; [destruct (txn (truth k))|]; cbn [loc]; rewrite ?run_on_loc; cbn [loc]; exact Lk. }
    assert (T2: tracksb (belief k2) (truth k2) = true).
    { subst k2. destruct named.
      - pose proof (named_tracks k Ic Ht q) as Hn. cbv zeta in Hn.
        assert (Ht0: tracksb (mark_dirty (belief k)) (truth k) = true).
        { assert (G0: forallb (fun b => forallb (fun l => implb (tracksb l b) (tracksb (mark_dirty l) b)) all_bel) all_bt = true) by (vm_compute; reflexivity).
          rewrite forallb_forall in G0. specialize (G0 (truth k) (in_all_bt _)). rewrite forallb_forall in G0.
          specialize (G0 (belief k) (in_all_bel _)). rewrite Ht in G0. exact G0. }
        destruct (txn (truth k)); cbn [belief truth]; try exact Hn.
        apply (run_on_tracks {| truth := truth k; belief := mark_dirty (belief k); loc := loc k |} [q]); [exact Ic|exact Ht0].
      - apply run_on_tracks; assumption. }
    pose proof (after_cycle_ok st1 c (smode cl) s k k2 J1 K1 Gk Lk L2 T2) as O.
    destruct (after_cycle st1 c (smode cl) s k2) as [st2 ev].
    exact (ok_exec st1 s c [q] k (st2, ev) Gk Lk O).
  - (* CopyDone *)
    destruct (get c (clients st)) as [cl|] eqn:G; [|apply ok_nop; assumption].
    destruct (cst cl) as [| |s] eqn:Ec; try (apply ok_nop; assumption).
    destruct (HK _ _ _ G Ec) as (k & Gk & Lk). rewrite Gk.
    destruct (copy (truth k)) eqn:Cp; [|apply ok_nop; assumption].
    destruct (proj2 (proj2 HJ) _ _ Gk) as [Ht _].
    pose proof (copy_end_tracks k false Cp Ht) as T1. cbv zeta in T1.
    match goal with |- ok _ (if _ then release _ _ _ _ ?K1 else _) => set (k1 := K1) in * end.
    destruct (negb (in_txn (belief k1)) && negb (smode cl)).
    + eapply release_ok; eauto.
    + destruct (upd_held_ok st s k k1 c HJ HK Gk Lk Lk T1) as (J1 & K1 & E1 & _).
      split; [|split; [assumption|split; [assumption|reflexivity]]]. cbn [fst snd monitor]. eexists. split; [reflexivity|exact E1].
  - (* CopyFail *)
    destruct (get c (clients st)) as [cl|] eqn:G; [|apply ok_nop; assumption].
    destruct (cst cl) as [| |s] eqn:Ec; try (apply ok_nop; assumption).
    destruct (HK _ _ _ G Ec) as (k & Gk & Lk). rewrite Gk.
    destruct (copy (truth k)) eqn:Cp; [|apply ok_nop; assumption].
    destruct (proj2 (proj2 HJ) _ _ Gk) as [Ht _].
    pose proof (copy_end_tracks k true Cp Ht) as T1. cbv zeta in T1.
    match goal with |- ok _ (if _ then release _ _ _ _ ?K1 else _) => set (k1 := K1) in * end.
    destruct (negb (in_txn (belief k1)) && negb (smode cl)).
    + eapply release_ok; eauto.
    + destruct (upd_held_ok st s k k1 c HJ HK Gk Lk Lk T1) as (J1 & K1 & E1 & _).
      split; [|split; [assumption|split; [assumption|reflexivity]]]. cbn [fst snd monitor]. eexists. split; [reflexivity|exact E1].
  - (* Terminate *)
    destruct (get c (clients st)) as [cl|] eqn:G; [|apply ok_nop; assumption].
    destruct (cst cl) as [| |s] eqn:Ec.
    + apply ok_nop; assumption.
    + split; [|split; [|split]]; cbn [fst snd monitor]; [| | |reflexivity].
      * eexists. split; [reflexivity|apply heq_refl].
      * exact HJ.
      * intros c1 cl1 s1 G1 I1. unfold end_task, set_client in G1. cbn [clients] in G1.
        destruct (Nat.eq_dec c1 c) as [->|Ne].
        -- rewrite get_put_same in G1. inversion G1; subst. discriminate.
        -- rewrite get_put_other in G1 by exact Ne. exact (HK _ _ _ G1 I1).
    + destruct (HK _ _ _ G Ec) as (k & Gk & Lk). rewrite Gk.
      destruct (proj2 (proj2 HJ) _ _ Gk) as [Ht _]. eapply exit_cleanup_ok; eauto.
  - (* Drop *)
    destruct (get c (clients st)) as [cl|] eqn:G; [|apply ok_nop; assumption].
    destruct (cst cl) as [| |s] eqn:Ec.
    + apply ok_nop; assumption.
    + split; [|split; [|split]]; cbn [fst snd monitor]; [| | |reflexivity].
      * eexists. split; [reflexivity|apply heq_refl].
      * exact HJ.
      * intros c1 cl1 s1 G1 I1. unfold end_task, set_client in G1. cbn [clients] in G1.
        destruct (Nat.eq_dec c1 c) as [->|Ne].
        -- rewrite get_put_same in G1. inversion G1; subst. discriminate.
        -- rewrite get_put_other in G1 by exact Ne. exact (HK _ _ _ G1 I1).
    + destruct (HK _ _ _ G Ec) as (k & Gk & Lk). rewrite Gk.
      destruct (proj2 (proj2 HJ) _ _ Gk) as [Ht _]. eapply exit_cleanup_ok; eauto.
  - (* BadMsg *)
    destruct (get c (clients st)) as [cl|] eqn:G; [|apply ok_nop; assumption].
    destruct (cst cl) as [| |s] eqn:Ec.
    + apply ok_nop; assumption.
    + split; [|split; [|split]]; cbn [fst snd monitor]; [| | |reflexivity].
      * eexists. split; [reflexivity|apply heq_refl].
      * exact HJ.
      * intros c1 cl1 s1 G1 I1. unfold end_task, set_client in G1. cbn [clients] in G1.
        destruct (Nat.eq_dec c1 c) as [->|Ne].
        -- rewrite get_put_same in G1. inversion G1; subst. discriminate.
        -- rewrite get_put_other in G1 by exact Ne. exact (HK _ _ _ G1 I1).
    + destruct (HK _ _ _ G Ec) as (k & Gk & Lk). eapply exit_holding_ok; eauto.
  - (* PanicMsg *)
    destruct (get c (clients st)) as [cl|] eqn:G; [|apply ok_nop; assumption].
    destruct (cst cl) as [| |s] eqn:Ec.
    + apply ok_nop; assumption.
    + split; [|split; [|split]]; cbn [fst snd monitor]; [| | |reflexivity].
      * eexists. split; [reflexivity|apply heq_refl].
      * exact HJ.
      * intros c1 cl1 s1 G1 I1. unfold end_task, set_client in G1. cbn [clients] in G1.
        destruct (Nat.eq_dec c1 c) as [->|Ne].
        -- rewrite get_put_same in G1. inversion G1; subst. discriminate.
        -- rewrite get_put_other in G1 by exact Ne. exact (HK _ _ _ G1 I1).
    + destruct (HK _ _ _ G Ec) as (k & Gk & Lk). eapply exit_holding_ok; eauto.
  - (* IdleTimeout *)
    destruct (get c (clients st)) as [cl|] eqn:G; [|apply ok_nop; assumption].
    destruct (cst cl) as [| |s] eqn:Ec; try (apply ok_nop; assumption).
    destruct (HK _ _ _ G Ec) as (k & Gk & Lk). rewrite Gk.
    destruct (proj2 (proj2 HJ) _ _ Gk) as [Ht _]. eapply release_ok; eauto.
  - (* WriteFail *)
    destruct (get c (clients st)) as [cl|] eqn:G; [|apply ok_nop; assumption].
    apply with_server_ok; try assumption. intros st1 s k J1 K1 Gk Lk.
    destruct (in_copy (belief k)) eqn:Ic; [apply ok_nop; assumption|].
    set (k2 := {| truth := truth (run_on k ss); belief := mark_bad (belief (run_on k ss)); loc := loc (run_on k ss) |}).
    assert (L2: loc k2 = Held c) by (subst k2; cbn [loc]; rewrite run_on_loc; exact Lk).
    destruct (upd_held_ok st1 s k k2 c J1 K1 Gk Lk L2 (mark_bad_tracks _ _)) as (J2 & K2 & E2 & G2).
    pose proof (exit_holding_ok (set_conn st1 s k2) c (smode cl) s k2 J2 K2 G2 L2) as O.
    destruct (exit_holding (set_conn st1 s k2) c (smode cl) s) as [st3 ev].
    apply (ok_exec st1 s c ss k (st3, ev) Gk Lk).
    destruct O as [(h' & M & E) (J3 & K3 & C3)]. split; [|split; [assumption|split; [assumption|exact C3]]].
    assert (E2': heq (holders (set_conn st1 s k2)) (holders st1)) by (intros x; symmetry; apply E2).
    change (cc (set_conn st1 s k2)) with (cc st1) in M.
    destruct (monitor_heq _ _ _ _ _ E2' M) as (h2 & M2 & E3). exists h2. split; [exact M2|].
    intros x. rewrite <- E3. apply E.
  - (* StmtTimeout *)
    destruct (get c (clients st)) as [cl|] eqn:G; [|apply ok_nop; assumption].
    apply with_server_ok; try assumption. intros st1 s k J1 K1 Gk Lk.
    destruct (in_copy (belief k)) eqn:Ic; [apply ok_nop; assumption|].
    set (k2 := {| truth := truth (run_on k ss); belief := mark_bad (belief (run_on k ss)); loc := loc (run_on k ss) |}).
    assert (L2: loc k2 = Held c) by (subst k2; cbn [loc]; rewrite run_on_loc; exact Lk).
    destruct (upd_held_ok st1 s k k2 c J1 K1 Gk Lk L2 (mark_bad_tracks _ _)) as (J2 & K2 & E2 & G2).
    pose proof (exit_holding_ok (set_conn st1 s k2) c (smode cl) s k2 J2 K2 G2 L2) as O.
    destruct (exit_holding (set_conn st1 s k2) c (smode cl) s) as [st3 ev].
    apply (ok_exec st1 s c ss k (st3, ev) Gk Lk).
    destruct O as [(h' & M & E) (J3 & K3 & C3)]. split; [|split; [assumption|split; [assumption|exact C3]]].
    assert (E2': heq (holders (set_conn st1 s k2)) (holders st1)) by (intros x; symmetry; apply E2).
    change (cc (set_conn st1 s k2)) with (cc st1) in M.
    destruct (monitor_heq _ _ _ _ _ E2' M) as (h2 & M2 & E3). exists h2. split; [exact M2|].
    intros x. rewrite <- E3. apply E.
  - (* ServerDies *)
    destruct (get c (clients st)) as [cl|] eqn:G; [|apply ok_nop; assumption].
    apply with_server_ok; try assumption. intros st1 s k J1 K1 Gk Lk.
    destruct (in_copy (belief k)) eqn:Ic; [apply ok_nop; assumption|].
    set (k2 := {| truth := truth (run_on k ss); belief := mark_bad (belief (run_on k ss)); loc := loc (run_on k ss) |}).
    assert (L2: loc k2 = Held c) by (subst k2; cbn [loc]; rewrite run_on_loc; exact Lk).
    destruct (upd_held_ok st1 s k k2 c J1 K1 Gk Lk L2 (mark_bad_tracks _ _)) as (J2 & K2 & E2 & G2).
    pose proof (exit_holding_ok (set_conn st1 s k2) c (smode cl) s k2 J2 K2 G2 L2) as O.
    destruct (exit_holding (set_conn st1 s k2) c (smode cl) s) as [st3 ev].
    apply (ok_exec st1 s c ss k (st3, ev) Gk Lk).
    destruct O as [(h' & M & E) (J3 & K3 & C3)]. split; [|split; [assumption|split; [assumption|exact C3]]].
    assert (E2': heq (holders (set_conn st1 s k2)) (holders st1)) by (intros x; symmetry; apply E2).
    change (cc (set_conn st1 s k2)) with (cc st1) in M.
    destruct (monitor_heq _ _ _ _ _ E2' M) as (h2 & M2 & E3). exists h2. split; [exact M2|].
    intros x. rewrite <- E3. apply E.
Qed.

(* ------------------------------------------------------------------ every run *)
Lemma init_J n c0 : J (init n c0).
Proof. split; [constructor|split]; intros s k H; discriminate. Qed.
Lemma init_K n c0 : K (init n c0).
Proof. intros c cl s H; discriminate. Qed.

Theorem run_ok : forall ops st, J st -> K st -> ok st (run st ops).
Proof.
  induction ops as [|o r IH]; intros st HJ HK; cbn [run].
  - apply ok_nop; assumption.
  - pose proof (step_ok st o HJ HK) as O1. destruct (step st o) as [st1 e1].
    pose proof O1 as (_ & J1 & K1 & _). cbn [fst] in J1, K1.
    pose proof (IH st1 J1 K1) as O2. destruct (run st1 r) as [st2 e2].
    eapply ok_seq; eauto.
Qed.

Theorem run_monitor n c0 ops : exists h, monitor c0 [] (snd (run (init n c0) ops)) = Some h.
Proof.
  destruct (run_ok ops (init n c0) (init_J n c0) (init_K n c0)) as [(h & M & _) _]. exists h. exact M.
Qed.

Lemma monitor_checkout_clean c0 : forall ev h h' s c b, monitor c0 h ev = Some h' -> In (CheckedOut s c b) ev -> clean c0 b = true.
Proof.
  induction ev as [|e r IH]; intros h h' s c b M Hin; [destruct Hin|].
  cbn [monitor] in M. destruct Hin as [->|Hin].
  - destruct (get s h) as [[c'|]|]; try discriminate; destruct (clean c0 b); congruence.
  - destruct e as [s1 c1 b1|s1 c1 ss|s1 x y z|s1 b1|s1|c1|c1].
    + destruct (get s1 h) as [[c'|]|]; try discriminate; (destruct (clean c0 b1); [|discriminate]); eapply IH; eauto.
    + destruct (get s1 h) as [[c'|]|]; try discriminate. destruct (Nat.eqb c1 c'); [|discriminate]. eapply IH; eauto.
    + destruct (get s1 h) as [[c'|]|]; try discriminate. eapply IH; eauto.
    + destruct (get s1 h) as [[c'|]|]; try discriminate. destruct (clean c0 b1); [|discriminate]. eapply IH; eauto.
    + eapply IH; eauto.
    + eapply IH; eauto.
    + eapply IH; eauto.
Qed.

Lemma monitor_returned_clean c0 : forall ev h h' s b, monitor c0 h ev = Some h' -> In (Returned s b) ev -> clean c0 b = true.
Proof.
  induction ev as [|e r IH]; intros h h' s b M Hin; [destruct Hin|].
  cbn [monitor] in M. destruct Hin as [->|Hin].
  - destruct (get s h) as [[c'|]|]; try discriminate; destruct (clean c0 b); congruence.
  - destruct e as [s1 c1 b1|s1 c1 ss|s1 x y z|s1 b1|s1|c1|c1].
    + destruct (get s1 h) as [[c'|]|]; try discriminate; (destruct (clean c0 b1); [|discriminate]); eapply IH; eauto.
    + destruct (get s1 h) as [[c'|]|]; try discriminate. destruct (Nat.eqb c1 c'); [|discriminate]. eapply IH; eauto.
    + destruct (get s1 h) as [[c'|]|]; try discriminate. eapply IH; eauto.
    + destruct (get s1 h) as [[c'|]|]; try discriminate. destruct (clean c0 b1); [|discriminate]. eapply IH; eauto.
    + eapply IH; eauto.
    + eapply IH; eauto.
    + eapply IH; eauto.
Qed.

(** the holder map the monitor has computed when it reaches an Exec event *)
Lemma monitor_exec_holder c0 : forall e1 h h' s c ss e2, monitor c0 h (e1 ++ Exec s c ss :: e2) = Some h' ->
  exists h1, monitor c0 h e1 = Some h1 /\ get s h1 = Some (Some c).
Proof.
  induction e1 as [|e r IH]; intros h h' s c ss e2 M; cbn [app monitor] in M.
  - exists h. split; [reflexivity|]. destruct (get s h) as [[c'|]|]; try discriminate.
    destruct (Nat.eqb c c') eqn:E; [|discriminate]. apply Nat.eqb_eq in E. subst. reflexivity.
  - cbn [monitor]. destruct e as [s1 c1 b1|s1 c1 ss1|s1 x y z|s1 b1|s1|c1|c1].
    + destruct (get s1 h) as [[c'|]|]; try discriminate; (destruct (clean c0 b1); [|discriminate]); eapply IH; eauto.
    + destruct (get s1 h) as [[c'|]|]; try discriminate. destruct (Nat.eqb c1 c'); [|discriminate]. eapply IH; eauto.
    + destruct (get s1 h) as [[c'|]|]; try discriminate. eapply IH; eauto.
    + destruct (get s1 h) as [[c'|]|]; try discriminate. destruct (clean c0 b1); [|discriminate]. eapply IH; eauto.
    + eapply IH; eauto.
    + eapply IH; eauto.
    + eapply IH; eauto.
Qed.

Lemma clean_handoff n c0 ops s c b : In (CheckedOut s c b) (snd (run (init n c0) ops)) -> clean c0 b = true.
Proof. destruct (run_monitor n c0 ops) as (h & M). eapply monitor_checkout_clean; eauto. Qed.

Lemma returned_clean n c0 ops s b : In (Returned s b) (snd (run (init n c0) ops)) -> clean c0 b = true.
Proof. destruct (run_monitor n c0 ops) as (h & M). eapply monitor_returned_clean; eauto. Qed.

Lemma idle_is_clean n c0 ops s k : get s (conns (fst (run (init n c0) ops))) = Some k -> loc k = Idle -> clean c0 (truth k) = true.
Proof.
  destruct (run_ok ops (init n c0) (init_J n c0) (init_K n c0)) as [_ [(_ & _ & T) (_ & C)]]. cbn [fst cc init] in C.
  intros G L. destruct (T _ _ G) as [Ht Hi]. rewrite C in Hi. eapply not_broken_clean; eauto.
Qed.

Lemma exec_by_holder n c0 ops e1 s c ss e2 : snd (run (init n c0) ops) = e1 ++ Exec s c ss :: e2 ->
  exists h1, monitor c0 [] e1 = Some h1 /\ get s h1 = Some (Some c).
Proof. intros E. destruct (run_monitor n c0 ops) as (h & M). rewrite E in M. eapply monitor_exec_holder; eauto. Qed.

Lemma holder_unique n c0 ops c1 c2 cl1 cl2 s :
  get c1 (clients (fst (run (init n c0) ops))) = Some cl1 -> cst cl1 = Inner s ->
  get c2 (clients (fst (run (init n c0) ops))) = Some cl2 -> cst cl2 = Inner s -> c1 = c2.
Proof.
  destruct (run_ok ops (init n c0) (init_J n c0) (init_K n c0)) as [_ [_ [HK _]]]. cbn [fst] in HK.
  intros G1 I1 G2 I2. destruct (HK _ _ _ G1 I1) as (k1 & A1 & B1). destruct (HK _ _ _ G2 I2) as (k2 & A2 & B2).
  rewrite A1 in A2. inversion A2; subst. congruence.
Qed.
