(** C06 — property theorems only.  Each is closed by [exact <lemma>] and audited with
    [Print Assumptions]. *)
From Coq Require Import ZArith NArith List Bool.
From PV Require Import Common.RustInt Gen.ShardingGen Shard.PgSpec Shard.HashProofs Shard.Paths Shard.PathsProofs Shard.Sha1 Shard.Sha1Proofs Shard.Spellings.
Import ListNotations.

(** The shard computed by the code generated from src/sharding.rs equals PostgreSQL's
    PARTITION BY HASH (MODULUS n) partition, for every bigint key and every n. *)
Theorem c06_hash_is_pg : forall (k : Z) (n : N), in_i64 k -> shard_pg k n = partition_of k n.
Proof. exact bigint_hash_is_pg. Qed.
Print Assumptions c06_hash_is_pg.

Theorem c06_in_range : forall (k : Z) (n : N), (0 < n)%N -> (shard_pg k n < n)%N.
Proof. exact shard_in_range. Qed.
Print Assumptions c06_in_range.

(** The "sha1" sharding function (model of fn sha1: hex formatting of the digest, last 8
    characters, from_str_radix 16, modulo) never hits its unwrap() and equals the documented
    rule: the last 4 bytes of SHA1(decimal(key)) as a big-endian integer, modulo n. *)
Theorem c06_sha1_rule : forall (k : Z) (n : N),
  sha1_shard k n = Some (be_valN 0 (lastn 4 (sha1 (dec k))) mod n)%N.
Proof. exact sha1_rule. Qed.
Print Assumptions c06_sha1_rule.

(** Every delivery path decodes the canonical spelling of k to k itself (hence to the same
    shard): text Bind and binary Bind for every i64, the digit-only paths for k >= 0. *)
Theorem c06_paths_agree : forall k : Z, in_i64 k ->
  path_bind_text (dec k) = Key k /\ path_bind_bin (be64 k) = Key k /\
  (0 <= k -> path_set_key (dec k) = Key k /\ path_comment (dec k) = Key k /\ path_literal (dec k) = Key k)%Z.
Proof. exact paths_agree. Qed.
Print Assumptions c06_paths_agree.

Theorem c06_bin4_sign_extends : forall k : Z, (- 2^31 <= k < 2^31)%Z -> path_bind_bin (be32 k) = Key k.
Proof. exact bin4. Qed.
Print Assumptions c06_bin4_sign_extends.

Theorem c06_bin2_sign_extends : forall k : Z, (- 2^15 <= k < 2^15)%Z -> path_bind_bin (be16 k) = Key k.
Proof. exact bin2. Qed.
Print Assumptions c06_bin2_sign_extends.

(** Any accepted text spelling denotes a key inside i64 (nothing is silently truncated). *)
Theorem c06_text_key_in_range : forall s k, parse_i64 s = Some k -> in_i64 k.
Proof. exact parse_in_range. Qed.
Print Assumptions c06_text_key_in_range.

(** Non-canonical spellings.  Leading zeros never change the key, by any text path. *)
Theorem c06_leading_zeros : forall (m : nat) (k : Z), (0 <= k)%Z -> in_i64 k ->
  let s := repeat 48%N m ++ dec k in
  path_set_key s = Key k /\ path_comment s = Key k /\ path_literal s = Key k /\ path_bind_text s = Key k.
Proof. exact leading_zeros. Qed.
Print Assumptions c06_leading_zeros.

(** An explicit plus sign is understood by the text Bind path only; the digit-only captures
    deliver no key for it (never a wrong key). *)
Theorem c06_plus_sign : forall k : Z, (0 <= k)%Z -> in_i64 k ->
  path_bind_text (43%N :: dec k) = Key k /\ path_set_key (43%N :: dec k) = NoKey /\ path_comment (43%N :: dec k) = NoKey.
Proof. exact plus_sign. Qed.
Print Assumptions c06_plus_sign.

(** On EVERY byte string the text paths are consistent: when a digit-only path delivers a key,
    all text paths deliver that key, and it is not negative. *)
Theorem c06_text_paths_consistent : forall s k,
  (path_set_key s = Key k \/ path_comment s = Key k \/ path_literal s = Key k) ->
  path_set_key s = Key k /\ path_comment s = Key k /\ path_literal s = Key k /\ path_bind_text s = Key k /\ (0 <= k)%Z.
Proof. exact text_paths_consistent. Qed.
Print Assumptions c06_text_paths_consistent.

Theorem c06_text_paths_no_disagreement : forall s k1 k2,
  path_bind_text s = Key k1 -> (path_set_key s = Key k2 \/ path_comment s = Key k2) -> k1 = k2.
Proof. exact text_paths_no_disagreement. Qed.
Print Assumptions c06_text_paths_no_disagreement.

(** A digit string denoting a value outside i64 is refused (SET SHARDING KEY) or ignored (other
    paths); it is never wrapped around to another key. *)
Theorem c06_out_of_range_never_wraps : forall s v, all_digits s = true -> digits_val 0 s = Some v -> ~ in_i64 v ->
  path_set_key s = Rejected /\ path_comment s = NoKey /\ path_bind_text s = NoKey.
Proof. exact out_of_range_digits. Qed.
Print Assumptions c06_out_of_range_never_wraps.

Example c06_spellings_nonvacuous :
  path_set_key [48; 48; 53]%N = Key 5%Z /\ path_bind_text [43; 53]%N = Key 5%Z /\
  path_set_key [57;50;50;51;51;55;50;48;51;54;56;53;52;55;55;53;56;48;56]%N = Rejected.
Proof. vm_compute. repeat split. Qed.

(** A key bound at any position of a multi-parameter Bind is found, whatever the other
    parameters contain (NULLs, text, binary of any length). *)
Theorem c06_bind_any_position : forall before after ph fmts p k,
  (forall j, existsb (Nat.eqb j) ph = true <-> j = S (length before)) ->
  decode_param (fmt_of fmts (length before)) p = Key k ->
  bind_keys ph fmts (before ++ p :: after) = [k].
Proof. exact bind_position. Qed.
Print Assumptions c06_bind_any_position.

(** No text spelling makes a delivery path panic, and a spelling that is not a bigint never
    selects a shard. *)
Theorem c06_text_paths_total : forall s,
  path_set_key s <> Panics /\ path_comment s <> Panics /\ path_bind_text s <> Panics /\
  (parse_i64 s = None -> forall k, path_set_key s <> Key k /\ path_comment s <> Key k /\ path_bind_text s <> Key k).
Proof. exact text_paths_total. Qed.
Print Assumptions c06_text_paths_total.

Theorem c06_set_shard_refused : forall cur v n, (n <= v)%N -> set_shard cur v n = (cur, false).
Proof. exact set_shard_refused. Qed.
Print Assumptions c06_set_shard_refused.

Theorem c06_set_shard_accepted : forall cur v n, (v < n)%N -> set_shard cur v n = (Some v, true).
Proof. exact set_shard_accepted. Qed.
Print Assumptions c06_set_shard_accepted.

(** The selection persists until changed and is decided by the LAST selecting event alone
    (a key by any path, or an accepted SET SHARD), whatever the earlier history was. *)
Theorem c06_selection_last_key : forall part n cur ops k quiet, Forall (quiet_op n) quiet ->
  sel_run part n cur (ops ++ SelKey k :: quiet) = Some (part k).
Proof. exact sel_last_key. Qed.
Print Assumptions c06_selection_last_key.

Theorem c06_selection_last_shard : forall part n cur ops v quiet, (v < n)%N -> Forall (quiet_op n) quiet ->
  sel_run part n cur (ops ++ SelShard v :: quiet) = Some v.
Proof. exact sel_last_shard. Qed.
Print Assumptions c06_selection_last_shard.

Theorem c06_refused_set_shard_invisible : forall part n cur ops v rest, (n <= v)%N ->
  sel_run part n cur (ops ++ SelShard v :: rest) = sel_run part n cur (ops ++ rest).
Proof. exact sel_refused_invisible. Qed.
Print Assumptions c06_refused_set_shard_invisible.

(** The selection is always something an event of the history named: the initial one, the
    partition of a delivered key, or an in-range SET SHARD value. *)
Theorem c06_selection_provenance : forall part n ops cur,
  sel_run part n cur ops = cur \/
  (exists k, In (SelKey k) ops /\ sel_run part n cur ops = Some (part k)) \/
  (exists v, In (SelShard v) ops /\ (v < n)%N /\ sel_run part n cur ops = Some v).
Proof. exact sel_run_provenance. Qed.
Print Assumptions c06_selection_provenance.

Theorem c06_only_selected_shard : forall role sh addrs a, In a (candidates role sh addrs) ->
  a_shard a = sh /\ In a addrs /\ (forall r, role = Some r -> a_role a = r).
Proof. exact candidates_shard. Qed.
Print Assumptions c06_only_selected_shard.

(** Validation of the hand-written PostgreSQL specification: the 50 (key, partition)
    pairs of src/sharding.rs' unit test, which were produced by a real PostgreSQL
    (tests/sharding/partition_hash_test_setup.sql), MODULUS 5. *)
Definition pg_vectors : list (list Z) :=
  [[1; 4; 5; 14; 19; 39; 40; 46; 47; 53]; [2; 3; 11; 17; 21; 23; 30; 49; 51; 54];
   [6; 7; 15; 16; 18; 20; 25; 28; 34; 35]; [8; 12; 13; 22; 29; 31; 33; 36; 41; 43];
   [9; 10; 24; 26; 27; 32; 37; 38; 42; 45]]%Z.
Example pgspec_matches_postgres :
  map (map (fun k => partition_of k 5)) pg_vectors =
  [repeat 0%N 10; repeat 1%N 10; repeat 2%N 10; repeat 3%N 10; repeat 4%N 10].
Proof. vm_compute. reflexivity. Qed.

(** Validation of the SHA-1 model: FIPS 180 test vector "abc", and the 20 (key, shard) pairs of
    the repository's unit test (12 shards). *)
Example sha1_vectors :
  sha1 [97; 98; 99]%N = [169; 153; 62; 54; 71; 6; 129; 106; 186; 62; 37; 113; 120; 80; 194; 108; 156; 208; 216; 157]%N /\
  map (fun k => sha1_shard (Z.of_nat k) 12) (seq 0 20) =
  map Some [4; 7; 8; 3; 6; 0; 0; 10; 3; 11; 1; 7; 4; 4; 11; 2; 5; 0; 8; 3]%N.
Proof. vm_compute. split; reflexivity. Qed.

(** Non-vacuity of the hypotheses: boundary keys are in range and reach the theorem. *)
Example c06_boundaries : in_i64 (-9223372036854775808) /\ in_i64 9223372036854775807 /\
  shard_pg (-9223372036854775808) 7 = partition_of (-9223372036854775808) 7 /\
  path_bind_bin (be64 (-1)) = Key (-1)%Z /\ path_bind_text (dec (-9223372036854775808)) = Key (-9223372036854775808)%Z.
Proof. unfold in_i64. repeat split; try (vm_compute; congruence). Qed.
