From Coq Require Import ZArith NArith List Bool Lia.
From PV Require Import Shard.Paths Shard.Sha1.
Import ListNotations.
Open Scope N_scope.
Ltac Zify.zify_post_hook ::= Z.div_mod_to_equations.

Lemma hexv_hexd d : d < 16 -> hexv (hexd d) = Some d.
Proof.
  intros H. assert (E: forallb (fun d => match hexv (hexd d) with Some v => N.eqb v d | None => false end)
                         (map N.of_nat (seq 0 16)) = true) by (vm_compute; reflexivity).
  rewrite forallb_forall in E. specialize (E d).
  assert (Hin: In d (map N.of_nat (seq 0 16))).
  { apply in_map_iff. exists (N.to_nat d). split; [lia|]. apply in_seq. lia. }
  specialize (E Hin). destruct (hexv (hexd d)); [|discriminate]. apply N.eqb_eq in E. subst. reflexivity.
Qed.

Lemma of_hex_to_hex : forall bs acc, Forall (fun b => b < 256) bs -> of_hex acc (to_hex bs) = Some (be_valN acc bs).
Proof.
  induction bs as [|b r IH]; intros acc HF; cbn [to_hex of_hex be_valN]; [reflexivity|].
  inversion HF as [|x xs Hb Hr]; subst.
  rewrite hexv_hexd by (apply N.div_lt_upper_bound; lia).
  rewrite hexv_hexd by (apply N.mod_lt; lia).
  rewrite IH by exact Hr. f_equal. f_equal.
  pose proof (N.div_mod b 16 ltac:(lia)). lia.
Qed.

Lemma to_hex_length bs : length (to_hex bs) = (2 * length bs)%nat.
Proof. induction bs as [|b r IH]; cbn [to_hex length]; lia. Qed.

Lemma skipn_to_hex : forall n bs, skipn (2 * n) (to_hex bs) = to_hex (skipn n bs).
Proof.
  induction n as [|n IH]; intros bs; [reflexivity|].
  destruct bs as [|b r]; [reflexivity|].
  replace (2 * S n)%nat with (S (S (2 * n))) by lia. cbn [to_hex skipn]. apply IH.
Qed.

Lemma lastn_to_hex bs : (4 <= length bs)%nat -> lastn 8 (to_hex bs) = to_hex (lastn 4 bs).
Proof.
  intros H. unfold lastn. rewrite to_hex_length.
  replace (2 * length bs - 8)%nat with (2 * (length bs - 4))%nat by lia. apply skipn_to_hex.
Qed.

Lemma word_bytes_lt w : Forall (fun b => b < 256) (word_bytes w).
Proof. unfold word_bytes. repeat constructor; apply N.mod_lt; lia. Qed.

Lemma sha1_shape msg : length (sha1 msg) = 20%nat /\ Forall (fun b => b < 256) (sha1 msg).
Proof.
  unfold sha1. destruct (blocks _ _ _) as [[[[h0 h1] h2] h3] h4]. split.
  - rewrite !app_length. reflexivity.
  - repeat (apply Forall_app; split); apply word_bytes_lt.
Qed.

Lemma forall_skipn {A} (P : A -> Prop) n l : Forall P l -> Forall P (skipn n l).
Proof. revert l; induction n as [|n IH]; intros l H; [exact H|]. destruct l; [constructor|]. inversion H; subst. apply IH; assumption. Qed.

Lemma sha1_rule k n : sha1_shard k n = Some (be_valN 0 (lastn 4 (sha1 (dec k))) mod n).
Proof.
  unfold sha1_shard. destruct (sha1_shape (dec k)) as [HL HF].
  rewrite lastn_to_hex by lia. rewrite of_hex_to_hex; [reflexivity|].
  unfold lastn. apply forall_skipn. exact HF.
Qed.
