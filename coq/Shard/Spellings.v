(** C06 — non-canonical spellings of a key: leading zeros, an explicit plus sign, and
    agreement of the text paths on EVERY spelling (not only on [dec k]).  Proofs only;
    the model is Paths.v. *)
From Coq Require Import ZArith NArith List Bool Lia.
From PV Require Import Common.RustInt Shard.Paths Shard.PathsProofs.
Import ListNotations.
Open Scope Z_scope.

Lemma not_sign_match (c : N) A (x y z : A) : c <> 45%N -> c <> 43%N ->
  match c with 45%N => x | 43%N => y | _ => z end = z.
Proof.
  intros H1 H2. destruct c as [|p]; [reflexivity|].
  do 6 (destruct p as [p|p|]; try reflexivity); try congruence; destruct p; reflexivity.
Qed.

(** On a digits-only string [parse_i64] is the plain decimal value, range-checked. *)
Lemma parse_digits s : all_digits s = true ->
  parse_i64 s = match digits_val 0 s with Some v => checked v | None => None end.
Proof.
  intros Hall. destruct s as [|c r]; [discriminate|].
  destruct (head_digit_not_sign _ Hall c r eq_refl) as [Hm Hp].
  unfold parse_i64. apply not_sign_match; assumption.
Qed.

Lemma digits_val_nonneg s : forall a v, 0 <= a -> digits_val a s = Some v -> a <= v.
Proof.
  induction s as [|c r IH]; intros a v Ha E; cbn [digits_val] in E.
  - inversion E; lia.
  - destruct (digit c) as [d|] eqn:D; [|discriminate].
    assert (0 <= d < 10).
    { unfold digit in D. destruct (N.leb_spec 48 c); destruct (N.leb_spec c 57); cbn [andb] in D; inversion D; lia. }
    apply IH in E; lia.
Qed.

Lemma all_digits_key_nonneg s k : all_digits s = true -> parse_i64 s = Some k -> 0 <= k.
Proof.
  intros Hall E. rewrite parse_digits in E by exact Hall.
  destruct (digits_val 0 s) as [v|] eqn:V; [|discriminate].
  apply digits_val_nonneg in V; [|lia].
  unfold checked in E. destruct (in_i64b v); inversion E; subst; exact V.
Qed.

Lemma digits_val_zeros m s : digits_val 0 (repeat 48%N m ++ s) = digits_val 0 s.
Proof. induction m as [|m IH]; [reflexivity|]. cbn [repeat app digits_val]. exact IH. Qed.

Lemma all_digits_zeros m s : all_digits s = true -> all_digits (repeat 48%N m ++ s) = true.
Proof.
  intros H. induction m as [|m IH]; [exact H|].
  cbn [repeat app]. unfold all_digits. cbn [forallb].
  unfold all_digits in IH. destruct (repeat 48%N m ++ s) eqn:E.
  - destruct m; cbn in E; [subst s; discriminate|discriminate].
  - rewrite IH. reflexivity.
Qed.

(** Leading zeros never change the key, by any text path. *)
Lemma leading_zeros m k : 0 <= k -> in_i64 k ->
  let s := repeat 48%N m ++ dec k in
  path_set_key s = Key k /\ path_comment s = Key k /\ path_literal s = Key k /\ path_bind_text s = Key k.
Proof.
  intros H0 Hk s. destruct (parse_dec_nonneg k H0 Hk) as [Hp Hd].
  assert (Hall: all_digits s = true) by (apply all_digits_zeros; exact Hd).
  assert (P: parse_i64 s = Some k).
  { rewrite parse_digits by exact Hall. unfold s. rewrite digits_val_zeros.
    rewrite <- parse_digits by exact Hd. exact Hp. }
  unfold path_literal, path_set_key, path_comment, path_bind_text. rewrite Hall, P. repeat split.
Qed.

(** An explicit plus sign is understood by the text Bind path only; the digit-only captures of
    SET SHARDING KEY / the comment regex / a numeric literal cannot deliver it (no key, never a wrong key). *)
Lemma plus_sign k : 0 <= k -> in_i64 k ->
  path_bind_text (43%N :: dec k) = Key k /\ path_set_key (43%N :: dec k) = NoKey /\ path_comment (43%N :: dec k) = NoKey.
Proof.
  intros H0 Hk. destruct (parse_dec_nonneg k H0 Hk) as [Hp Hd].
  split; [|split; reflexivity].
  unfold path_bind_text. cbn [parse_i64].
  destruct (dec k) as [|c r] eqn:E; [discriminate|].
  rewrite parse_digits in Hp by exact Hd.
  destruct (digits_val 0 (c :: r)) as [v|]; [|discriminate]. rewrite Hp. reflexivity.
Qed.

(** On EVERY spelling the text paths are consistent: whenever one of the digit-only paths
    delivers a key, every text path delivers that same key (and it is not negative); whenever the
    digit-only paths deliver a key and text Bind delivers one too, they are equal. *)
Lemma text_paths_consistent s k :
  (path_set_key s = Key k \/ path_comment s = Key k \/ path_literal s = Key k) ->
  path_set_key s = Key k /\ path_comment s = Key k /\ path_literal s = Key k /\ path_bind_text s = Key k /\ 0 <= k.
Proof.
  unfold path_literal, path_set_key, path_comment, path_bind_text.
  destruct (all_digits s) eqn:Hall; [|intros [H|[H|H]]; discriminate].
  destruct (parse_i64 s) as [k'|] eqn:P; [|intros [H|[H|H]]; discriminate].
  intros H. assert (k' = k) by (destruct H as [H|[H|H]]; inversion H; reflexivity). subst k'.
  repeat split. eapply all_digits_key_nonneg; eassumption.
Qed.

Lemma text_paths_no_disagreement s k1 k2 :
  path_bind_text s = Key k1 -> (path_set_key s = Key k2 \/ path_comment s = Key k2) -> k1 = k2.
Proof.
  intros H1 H2. assert (H: path_bind_text s = Key k2).
  { destruct H2 as [H2|H2]; eapply text_paths_consistent; eauto. }
  rewrite H1 in H. inversion H. reflexivity.
Qed.

(** A spelling of a key outside i64 (e.g. 9223372036854775808) is refused by SET SHARDING KEY
    with an error and ignored by the other paths: it is never wrapped to another key. *)
Lemma out_of_range_digits s v : all_digits s = true -> digits_val 0 s = Some v -> ~ in_i64 v ->
  path_set_key s = Rejected /\ path_comment s = NoKey /\ path_bind_text s = NoKey.
Proof.
  intros Hall V Hout.
  assert (P: parse_i64 s = None).
  { rewrite parse_digits by exact Hall. rewrite V. unfold checked.
    destruct (in_i64b v) eqn:B; [|reflexivity]. exfalso. apply Hout.
    unfold in_i64b in B. apply andb_prop in B. destruct B as [B1 B2].
    apply Z.leb_le in B1. apply Z.ltb_lt in B2. unfold in_i64. lia. }
  unfold path_set_key, path_comment, path_bind_text. rewrite Hall, P. repeat split.
Qed.

(** A refused SET SHARD is invisible in every history: removing it from the sequence of
    shard-selecting events changes nothing, now or later. *)
Lemma sel_refused_invisible part n cur ops v rest : (n <= v)%N ->
  sel_run part n cur (ops ++ SelShard v :: rest) = sel_run part n cur (ops ++ rest).
Proof.
  intros H. unfold sel_run. rewrite !fold_left_app. cbn [fold_left sel_step].
  rewrite set_shard_refused by exact H. reflexivity.
Qed.

(** The selection after any history is [None] (nothing ever selected), the partition of a key
    that occurs in the history, or an in-range shard that occurs in it: never a number no
    event named (in particular never an out-of-range shard when all keys map in range). *)
Lemma sel_run_provenance part n ops : forall cur,
  sel_run part n cur ops = cur \/
  (exists k, In (SelKey k) ops /\ sel_run part n cur ops = Some (part k)) \/
  (exists v, In (SelShard v) ops /\ (v < n)%N /\ sel_run part n cur ops = Some v).
Proof.
  unfold sel_run. induction ops as [|o ops IH]; intros cur; cbn [fold_left]; [left; reflexivity|].
  destruct (IH (sel_step part n cur o)) as [E|[(k & Hin & E)|(v & Hin & Hv & E)]].
  - rewrite E. destruct o as [k|v|]; cbn [sel_step].
    + right; left. exists k. split; [left; reflexivity|reflexivity].
    + unfold set_shard. destruct (N.leb_spec n v); cbn [fst]; [left; reflexivity|].
      right; right. exists v. split; [left; reflexivity|]. split; [assumption|reflexivity].
    + left; reflexivity.
  - right; left. exists k. split; [right; exact Hin|exact E].
  - right; right. exists v. split; [right; exact Hin|]. split; assumption.
Qed.
