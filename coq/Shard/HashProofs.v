From Coq Require Import ZArith NArith Lia Bool.
From PV Require Import Common.RustInt Gen.ShardingGen Shard.PgSpec.
Open Scope N_scope.

Ltac syn_refl := lazymatch goal with |- ?a = ?b => constr_eq a b; exact eq_refl end.

Lemma seed_eq : PARTITION_HASH_SEED = HASH_PARTITION_SEED.
Proof. vm_compute. reflexivity. Qed.

Lemma wadd_fn : u32_wadd = add32. Proof. reflexivity. Qed.
Lemma add_fn : u32_add = add32. Proof. reflexivity. Qed.
Lemma wsub_fn : u32_wsub = sub32. Proof. reflexivity. Qed.
Lemma xor_fn : u32_xor = N.lxor. Proof. reflexivity. Qed.
Lemma rot_fn : ShardingGen.rot = PgSpec.rot. Proof. reflexivity. Qed.

Lemma mix_eq a b c : ShardingGen.mix a b c = PgSpec.mix a b c.
Proof. unfold ShardingGen.mix, PgSpec.mix. rewrite wadd_fn, wsub_fn, xor_fn, rot_fn. syn_refl. Qed.

Lemma final_eq a b c : ShardingGen.final_ a b c = PgSpec.final a b c.
Proof. unfold ShardingGen.final_, PgSpec.final. rewrite wsub_fn, xor_fn, rot_fn. syn_refl. Qed.

Lemma combine_fn : combine = hash_combine64.
Proof. reflexivity. Qed.

Lemma u32hash_eq k : pg_u32_hash k = hash_bytes_uint32_extended k HASH_PARTITION_SEED.
Proof.
  unfold pg_u32_hash, hash_bytes_uint32_extended.
  rewrite seed_eq.
  change (N.eqb HASH_PARTITION_SEED 0) with false. cbv iota.
  change (cast_u64_u32 (u64_shr HASH_PARTITION_SEED 32)) with ((HASH_PARTITION_SEED / 2 ^ 32) mod 2 ^ 32).
  change (cast_u64_u32 HASH_PARTITION_SEED) with (HASH_PARTITION_SEED mod 2 ^ 32).
  change (cast_usize_u32 4) with 4.
  rewrite add_fn, wadd_fn.
  rewrite mix_eq.
  destruct (PgSpec.mix _ _ _) as [[a b] c].
  rewrite final_eq.
  destruct (PgSpec.final _ _ _) as [[a' b'] c'].
  unfold u64_or, u64_shl, cast_u32_u64. rewrite N.shiftl_mul_pow2. reflexivity.
Qed.

(* --- the sign handling: Rust's [as u32] / arithmetic [>>] on i64 versus C's bit pattern *)
Ltac Zify.zify_post_hook ::= Z.div_mod_to_equations.

Lemma bits_lo k : cast_i64_u32 k = bits_of_int64 k mod 2^32.
Proof.
  unfold cast_i64_u32, bits_of_int64.
  change (2^32) with 4294967296. change (2^64)%Z with 18446744073709551616%Z.
  apply N2Z.inj. rewrite N2Z.inj_mod. rewrite !Z2N.id by (apply Z.mod_pos_bound; lia).
  simpl Z.of_N. lia.
Qed.

Lemma bits_hi k : cast_i64_u32 (i64_shr k 32) = (bits_of_int64 k / 2^32) mod 2^32.
Proof.
  unfold cast_i64_u32, i64_shr, bits_of_int64. rewrite Z.shiftr_div_pow2 by lia.
  change (2^32) with 4294967296. change (2^64)%Z with 18446744073709551616%Z.
  change (2 ^ Z.of_N 32)%Z with 4294967296%Z.
  apply N2Z.inj. rewrite N2Z.inj_mod, N2Z.inj_div. rewrite !Z2N.id by (apply Z.mod_pos_bound; lia).
  simpl Z.of_N. lia.
Qed.

Lemma bits_sign k : in_i64 k -> i64_ge k 0 = (bits_of_int64 k <? 2^63).
Proof.
  unfold in_i64, i64_ge, bits_of_int64. intros H.
  change (2^63) with 9223372036854775808. change (2^64)%Z with 18446744073709551616%Z.
  rewrite Z.geb_leb.
  assert (Hm: (0 <= k mod 18446744073709551616 < 18446744073709551616)%Z) by (apply Z.mod_pos_bound; lia).
  destruct (Z.leb_spec 0 k); destruct (N.ltb_spec (Z.to_N (k mod 18446744073709551616)) 9223372036854775808);
    try reflexivity; exfalso; apply N2Z.inj_lt in H1 || apply N2Z.inj_le in H1;
    rewrite Z2N.id in H1 by lia; simpl Z.of_N in H1; lia.
Qed.

Lemma bigint_hash_is_pg k n : in_i64 k -> pg_bigint_hash k n = partition_of k n.
Proof.
  intros Hk. unfold pg_bigint_hash, partition_of, row_hash, hashint8extended, hashint8extended_bits.
  rewrite bits_lo, bits_hi, (bits_sign k Hk), combine_fn, u32hash_eq.
  unfold usize_rem, cast_u64_usize, u32_xor, u32_not. reflexivity.
Qed.

Lemma shard_in_range k n : 0 < n -> shard_pg k n < n.
Proof. intros H. unfold shard_pg, pg_bigint_hash, usize_rem. apply N.mod_lt. lia. Qed.
