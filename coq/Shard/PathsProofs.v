From Coq Require Import ZArith NArith List Bool Lia.
From PV Require Import Common.RustInt Shard.Paths.
Import ListNotations.
Open Scope Z_scope.
Ltac Zify.zify_post_hook ::= Z.div_mod_to_equations.

Lemma digit_of d : 0 <= d < 10 -> digit (48 + Z.to_N d)%N = Some d.
Proof.
  intros H. unfold digit.
  assert (E1: N.leb 48 (48 + Z.to_N d) = true) by (apply N.leb_le; lia).
  assert (E2: N.leb (48 + Z.to_N d) 57 = true) by (apply N.leb_le; lia).
  rewrite E1, E2. cbn [andb]. f_equal. lia.
Qed.

Lemma digits_val_app a xs ys :
  digits_val a (xs ++ ys) = match digits_val a xs with Some v => digits_val v ys | None => None end.
Proof.
  revert a. induction xs as [|x xs IH]; intros a; cbn [app digits_val]; [reflexivity|].
  destruct (digit x); [apply IH|reflexivity].
Qed.

Lemma dec_pos_spec f : forall n acc, 0 <= n < 10 ^ Z.of_nat f -> (0 < f)%nat ->
  exists ds, dec_pos f n acc = ds ++ acc /\ ds <> [] /\
             (forall a, digits_val a ds = Some (a * 10 ^ Z.of_nat (length ds) + n)) /\
             forallb (fun c => (N.leb 48 c && N.leb c 57)%bool) ds = true.
Proof.
  induction f as [|f IH]; intros n acc Hn Hf; [lia|].
  cbn [dec_pos].
  assert (Hd: 0 <= n mod 10 < 10) by (apply Z.mod_pos_bound; lia).
  destruct (Z.eqb_spec (n / 10) 0) as [E|E].
  - exists [(48 + Z.to_N (n mod 10))%N]. split; [reflexivity|]. split; [discriminate|]. split.
    + intros a. cbn [digits_val length]. rewrite digit_of by exact Hd. f_equal.
      change (10 ^ Z.of_nat 1) with 10. lia.
    + cbn [forallb]. rewrite andb_true_r.
      apply andb_true_intro; split; apply N.leb_le; lia.
  - assert (Hf': (0 < f)%nat).
    { destruct f; [|lia]. change (10 ^ Z.of_nat 1) with 10 in Hn. lia. }
    assert (Hn': 0 <= n / 10 < 10 ^ Z.of_nat f).
    { rewrite Nat2Z.inj_succ, Z.pow_succ_r in Hn by lia. lia. }
    destruct (IH (n / 10) ((48 + Z.to_N (n mod 10))%N :: acc) Hn' Hf') as (ds & E1 & Hne & Hv & Hall).
    exists (ds ++ [(48 + Z.to_N (n mod 10))%N]). split.
    + rewrite E1, <- app_assoc. reflexivity.
    + split; [destruct ds; discriminate|]. split.
      * intros a. rewrite digits_val_app, Hv. cbn [digits_val]. rewrite digit_of by exact Hd.
        f_equal. rewrite app_length. cbn [length]. rewrite Nat2Z.inj_add.
        change (Z.of_nat 1) with 1. rewrite Z.pow_add_r by lia. change (10 ^ 1) with 10. lia.
      * rewrite forallb_app. apply andb_true_intro; split; [exact Hall|]. cbn [forallb]. rewrite andb_true_r.
        apply andb_true_intro; split; apply N.leb_le; lia.
Qed.

Lemma dec_pos_val n : 0 <= n < 10 ^ 20 ->
  dec_pos 20 n [] <> [] /\ digits_val 0 (dec_pos 20 n []) = Some n /\ all_digits (dec_pos 20 n []) = true.
Proof.
  intros Hn. destruct (dec_pos_spec 20 n [] Hn ltac:(lia)) as (ds & E & Hne & Hv & Hall).
  rewrite E, app_nil_r. split; [exact Hne|]. split.
  - rewrite Hv. reflexivity.
  - unfold all_digits. destruct ds; [contradiction|exact Hall].
Qed.

Lemma in_i64b_true k : in_i64 k -> in_i64b k = true.
Proof. unfold in_i64, in_i64b. intros [H1 H2]. apply andb_true_intro. split; [apply Z.leb_le|apply Z.ltb_lt]; lia. Qed.

Lemma head_digit_not_sign s : all_digits s = true -> forall c r, s = c :: r -> c <> 45%N /\ c <> 43%N.
Proof.
  intros H c r ->. unfold all_digits in H. cbn [forallb] in H.
  apply andb_prop in H. destruct H as [H _]. apply andb_prop in H. destruct H as [H1 H2].
  apply N.leb_le in H1. lia.
Qed.

Lemma parse_dec_nonneg k : 0 <= k -> in_i64 k -> parse_i64 (dec k) = Some k /\ all_digits (dec k) = true.
Proof.
  intros H0 Hk. unfold dec. destruct (Z.ltb_spec k 0); [lia|].
  destruct (dec_pos_val k) as (Hne & Hv & Hall). { unfold in_i64 in Hk. lia. }
  split; [|exact Hall].
  destruct (dec_pos 20 k []) as [|c r] eqn:E; [contradiction|].
  destruct (head_digit_not_sign _ Hall c r eq_refl) as [Hm Hp].
  unfold parse_i64.
  destruct c as [|p]; [rewrite Hv; unfold checked; rewrite in_i64b_true by exact Hk; reflexivity|].
  destruct (N.eq_dec (N.pos p) 45) as [E45|N45]; [contradiction|].
  destruct (N.eq_dec (N.pos p) 43) as [E43|N43]; [contradiction|].
  assert (G: forall A (x y z : A), N.pos p <> 45%N -> N.pos p <> 43%N ->
             match N.pos p with 45%N => x | 43%N => y | _ => z end = z).
  { intros A x y z H1 H2. do 6 (destruct p as [p|p|]; try reflexivity); try congruence; destruct p; reflexivity. }
  rewrite G by assumption. rewrite Hv. unfold checked. rewrite in_i64b_true by exact Hk. reflexivity.
Qed.

Lemma parse_dec k : in_i64 k -> parse_i64 (dec k) = Some k.
Proof.
  intros Hk. destruct (Z.ltb_spec k 0) as [Hneg|Hpos].
  - unfold dec. destruct (Z.ltb_spec k 0); [|lia].
    destruct (dec_pos_val (- k)) as (Hne & Hv & _). { unfold in_i64 in Hk. lia. }
    cbn [parse_i64]. destruct (dec_pos 20 (- k) []) eqn:E; [contradiction|].
    rewrite Hv. unfold checked. rewrite Z.opp_involutive, in_i64b_true by exact Hk. reflexivity.
  - apply parse_dec_nonneg; assumption.
Qed.

(* binary parameters *)
Lemma be_val_app a xs ys : be_val a (xs ++ ys) = be_val (be_val a xs) ys.
Proof. revert a; induction xs as [|x xs IH]; intros a; cbn [app be_val]; [reflexivity|apply IH]. Qed.

Lemma be_bytes_len n u : length (be_bytes n u) = n.
Proof. revert u; induction n as [|n IH]; intros u; cbn [be_bytes]; [reflexivity|]. rewrite app_length, IH. cbn [length]. lia. Qed.

Lemma be_val_bytes n : forall u a, 0 <= u < 256 ^ Z.of_nat n -> be_val a (be_bytes n u) = a * 256 ^ Z.of_nat n + u.
Proof.
  induction n as [|n IH]; intros u a Hu.
  - cbn [be_bytes be_val]. change (256 ^ Z.of_nat 0) with 1 in *. lia.
  - cbn [be_bytes]. rewrite be_val_app. cbn [be_val].
    rewrite Nat2Z.inj_succ, Z.pow_succ_r in * by lia.
    rewrite IH by lia. rewrite Z2N.id by (apply Z.mod_pos_bound; lia). lia.
Qed.

Lemma bin8 k : in_i64 k -> path_bind_bin (be64 k) = Key k.
Proof.
  intros Hk. unfold path_bind_bin, be64. rewrite be_bytes_len.
  rewrite be_val_bytes by (change (256 ^ Z.of_nat 8) with (2^64); apply Z.mod_pos_bound; lia).
  unfold signed, in_i64 in *. f_equal.
  change (2 ^ (64 - 1)) with 9223372036854775808. change (2^64) with 18446744073709551616.
  change (256 ^ Z.of_nat 8) with 18446744073709551616.
  destruct (Z.ltb_spec (0 * 18446744073709551616 + k mod 18446744073709551616) 9223372036854775808); lia.
Qed.

Lemma bin4 k : - 2^31 <= k < 2^31 -> path_bind_bin (be32 k) = Key k.
Proof.
  intros Hk. unfold path_bind_bin, be32. rewrite be_bytes_len.
  rewrite be_val_bytes by (change (256 ^ Z.of_nat 4) with (2^32); apply Z.mod_pos_bound; lia).
  unfold signed. f_equal.
  change (2 ^ (32 - 1)) with 2147483648. change (2^32) with 4294967296 in *. change (2^31) with 2147483648 in *.
  change (256 ^ Z.of_nat 4) with 4294967296.
  destruct (Z.ltb_spec (0 * 4294967296 + k mod 4294967296) 2147483648); lia.
Qed.

Lemma bin2 k : - 2^15 <= k < 2^15 -> path_bind_bin (be16 k) = Key k.
Proof.
  intros Hk. unfold path_bind_bin, be16. rewrite be_bytes_len.
  rewrite be_val_bytes by (change (256 ^ Z.of_nat 2) with (2^16); apply Z.mod_pos_bound; lia).
  unfold signed. f_equal.
  change (2 ^ (16 - 1)) with 32768. change (2^16) with 65536 in *. change (2^15) with 32768 in *.
  change (256 ^ Z.of_nat 2) with 65536.
  destruct (Z.ltb_spec (0 * 65536 + k mod 65536) 32768); lia.
Qed.

Lemma paths_agree k : in_i64 k ->
  path_bind_text (dec k) = Key k /\ path_bind_bin (be64 k) = Key k /\
  (0 <= k -> path_set_key (dec k) = Key k /\ path_comment (dec k) = Key k /\ path_literal (dec k) = Key k).
Proof.
  intros Hk. split; [unfold path_bind_text; rewrite parse_dec by exact Hk; reflexivity|].
  split; [apply bin8; exact Hk|].
  intros H0. destruct (parse_dec_nonneg k H0 Hk) as [Hp Hd].
  unfold path_literal, path_set_key, path_comment. rewrite Hd, Hp. repeat split.
Qed.

(* a text spelling that is accepted yields a key inside i64, and two accepted spellings of
   different keys are different strings (parse is a function) *)
Lemma parse_in_range s k : parse_i64 s = Some k -> in_i64 k.
Proof.
  assert (C: forall v k, checked v = Some k -> in_i64 k).
  { unfold checked, in_i64b, in_i64. intros v k0. destruct (Z.leb_spec (-9223372036854775808) v); destruct (Z.ltb_spec v 9223372036854775808); cbn [andb]; intros E; inversion E; subst; lia. }
  unfold parse_i64. destruct s as [|c r]; [discriminate|].
  repeat match goal with
  | |- context [match ?x with _ => _ end] => destruct x eqn:?; try discriminate; eauto
  end.
Qed.

Lemma text_paths_total s :
  path_set_key s <> Panics /\ path_comment s <> Panics /\ path_bind_text s <> Panics /\
  (parse_i64 s = None -> forall k, path_set_key s <> Key k /\ path_comment s <> Key k /\ path_bind_text s <> Key k).
Proof.
  unfold path_set_key, path_comment, path_bind_text.
  destruct (all_digits s); destruct (parse_i64 s); repeat split; try discriminate; intros; discriminate.
Qed.

Lemma set_shard_refused cur v n : (n <= v)%N -> set_shard cur v n = (cur, false).
Proof. intros H. unfold set_shard. destruct (N.leb_spec n v); [reflexivity|lia]. Qed.

Lemma set_shard_accepted cur v n : (v < n)%N -> set_shard cur v n = (Some v, true).
Proof. intros H. unfold set_shard. destruct (N.leb_spec n v); [lia|reflexivity]. Qed.

Lemma candidates_shard role sh addrs a : In a (candidates role sh addrs) -> a_shard a = sh /\ In a addrs /\
  (forall r, role = Some r -> a_role a = r).
Proof.
  unfold candidates. intros H. apply filter_In in H. destruct H as [H1 H2]. apply filter_In in H1.
  destruct H1 as [H0 H1]. apply N.eqb_eq in H2. split; [exact H2|]. split; [exact H0|].
  intros r ->. apply N.eqb_eq in H1. exact H1.
Qed.

(* the key is found at whatever position it is bound, whatever the other parameters hold *)
Lemma bind_keys_skip i ph fmts params :
  (forall j, (i < j <= i + length params)%nat -> existsb (Nat.eqb j) ph = false) ->
  bind_keys_from i ph fmts params = [].
Proof.
  revert i. induction params as [|p r IH]; intros i H; cbn [bind_keys_from]; [reflexivity|].
  rewrite (H (S i)) by (cbn [length]; lia).
  apply IH. intros j Hj. apply H. cbn [length]. lia.
Qed.

Lemma bind_keys_app i ph fmts xs ys :
  bind_keys_from i ph fmts (xs ++ ys) = bind_keys_from i ph fmts xs ++ bind_keys_from (i + length xs) ph fmts ys.
Proof.
  revert i. induction xs as [|x xs IH]; intros i; cbn [app bind_keys_from length].
  - rewrite Nat.add_0_r. reflexivity.
  - rewrite IH. replace (S i + length xs)%nat with (i + S (length xs))%nat by lia.
    destruct (existsb (Nat.eqb (S i)) ph); [|reflexivity].
    destruct (decode_param (fmt_of fmts i) x); reflexivity.
Qed.

Lemma bind_position before after ph fmts p k :
  let pos := S (length before) in
  (forall j, existsb (Nat.eqb j) ph = true <-> j = pos) ->
  decode_param (fmt_of fmts (length before)) p = Key k ->
  bind_keys ph fmts (before ++ p :: after) = [k].
Proof.
  intros pos Hph Hdec. unfold bind_keys. rewrite bind_keys_app.
  rewrite bind_keys_skip.
  2:{ intros j Hj. destruct (existsb (Nat.eqb j) ph) eqn:E; [|reflexivity]. apply Hph in E. unfold pos in E. lia. }
  cbn [app bind_keys_from Nat.add].
  assert (E: existsb (Nat.eqb (S (length before))) ph = true) by (apply Hph; reflexivity).
  rewrite E, Hdec. rewrite bind_keys_skip; [reflexivity|].
  intros j Hj. destruct (existsb (Nat.eqb j) ph) eqn:E2; [|reflexivity]. apply Hph in E2. unfold pos in E2. lia.
Qed.

(* the selection is decided by the last selecting event, whatever came before, and persists
   over events that select nothing (incl. refused SET SHARDs) *)
Definition quiet_op (n : N) (o : selop) : Prop := o = SelNone \/ exists v, o = SelShard v /\ (n <= v)%N.

Lemma sel_quiet part n quiet : Forall (quiet_op n) quiet -> forall c, sel_run part n c quiet = c.
Proof.
  unfold sel_run. induction 1 as [|o r Ho Hr IH]; intros c; cbn [fold_left]; [reflexivity|].
  rewrite IH. destruct Ho as [->|(v & -> & Hv)]; cbn [sel_step]; [reflexivity|].
  rewrite set_shard_refused by exact Hv. reflexivity.
Qed.

Lemma sel_last_key part n cur ops k quiet : Forall (quiet_op n) quiet ->
  sel_run part n cur (ops ++ SelKey k :: quiet) = Some (part k).
Proof.
  intros Hq. unfold sel_run. rewrite fold_left_app. cbn [fold_left sel_step].
  apply (sel_quiet part n quiet Hq).
Qed.

Lemma sel_last_shard part n cur ops v quiet : (v < n)%N -> Forall (quiet_op n) quiet ->
  sel_run part n cur (ops ++ SelShard v :: quiet) = Some v.
Proof.
  intros Hv Hq. unfold sel_run. rewrite fold_left_app. cbn [fold_left sel_step].
  rewrite set_shard_accepted by exact Hv. cbn [fst]. apply (sel_quiet part n quiet Hq).
Qed.
