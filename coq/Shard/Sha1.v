(** SHA-1 (FIPS 180-4) as an executable function on byte lists, and the documented
    "sha1" sharding rule of pgcat (src/sharding.rs, fn sha1): shard = the last 8 hex digits
    of SHA1(decimal(key)) read as an integer, modulo the number of shards. *)
From Coq Require Import ZArith NArith List Bool Lia.
From PV Require Import Shard.Paths.
Import ListNotations.
Open Scope N_scope.

Definition m32 : N := 4294967296.
Definition add32 (a b : N) : N := (a + b) mod m32.
Definition rotl (x k : N) : N := N.lor ((N.shiftl x k) mod m32) (N.shiftr x (32 - k)).
Definition not32 (x : N) : N := m32 - 1 - x.

Fixpoint be_word (bs : list N) (acc : N) (n : nat) : N * list N :=
  match n with
  | O => (acc, bs)
  | S m => match bs with
           | [] => be_word [] (acc * 256) m
           | b :: r => be_word r (acc * 256 + b) m
           end
  end.

Fixpoint words (bs : list N) (n : nat) : list N :=
  match n with
  | O => []
  | S m => let '(w, r) := be_word bs 0 4 in w :: words r m
  end.

Definition word_bytes (w : N) : list N :=
  [(w / 16777216) mod 256; (w / 65536) mod 256; (w / 256) mod 256; w mod 256].

(** message schedule: [ws] holds the words so far, most recent first *)
Fixpoint extend (n : nat) (ws : list N) : list N :=
  match n with
  | O => ws
  | S m =>
      let x := N.lxor (N.lxor (nth 2 ws 0) (nth 7 ws 0)) (N.lxor (nth 13 ws 0) (nth 15 ws 0)) in
      extend m (rotl x 1 :: ws)
  end.

Definition round (t : nat) (st : N * N * N * N * N) (w : N) : N * N * N * N * N :=
  let '(a, b, c, d, e) := st in
  let '(f, k) :=
    if Nat.ltb t 20 then (N.lor (N.land b c) (N.land (not32 b) d), 1518500249)
    else if Nat.ltb t 40 then (N.lxor (N.lxor b c) d, 1859775393)
    else if Nat.ltb t 60 then (N.lor (N.lor (N.land b c) (N.land b d)) (N.land c d), 2400959708)
    else (N.lxor (N.lxor b c) d, 3395469782) in
  let tmp := add32 (add32 (add32 (add32 (rotl a 5) f) e) k) w in
  (tmp, a, rotl b 30, c, d).

Fixpoint rounds (t : nat) (ws : list N) (st : N * N * N * N * N) : N * N * N * N * N :=
  match ws with
  | [] => st
  | w :: r => rounds (S t) r (round t st w)
  end.

Definition block (h : N * N * N * N * N) (bs : list N) : N * N * N * N * N :=
  let w16 := words bs 16 in
  let w80 := rev (extend 64 (rev w16)) in
  let '(h0, h1, h2, h3, h4) := h in
  let '(a, b, c, d, e) := rounds 0 w80 h in
  (add32 h0 a, add32 h1 b, add32 h2 c, add32 h3 d, add32 h4 e).

Fixpoint blocks (n : nat) (h : N * N * N * N * N) (bs : list N) : N * N * N * N * N :=
  match n with
  | O => h
  | S m => blocks m (block h (firstn 64 bs)) (skipn 64 bs)
  end.

Definition pad (msg : list N) : list N :=
  let l := N.of_nat (length msg) in
  let k := (119 - l mod 64) mod 64 in      (* zero bytes so that l + 1 + k = 56 mod 64 *)
  let bits := l * 8 in
  msg ++ [128] ++ repeat 0 (N.to_nat k) ++
  [ (bits / 72057594037927936) mod 256; (bits / 281474976710656) mod 256; (bits / 1099511627776) mod 256;
    (bits / 4294967296) mod 256; (bits / 16777216) mod 256; (bits / 65536) mod 256; (bits / 256) mod 256; bits mod 256 ].

Definition sha1 (msg : list N) : list N :=
  let p := pad msg in
  let '(h0, h1, h2, h3, h4) :=
    blocks (length p / 64) (1732584193, 4023233417, 2562383102, 271733878, 3285377520) p in
  word_bytes h0 ++ word_bytes h1 ++ word_bytes h2 ++ word_bytes h3 ++ word_bytes h4.

(* ---- what src/sharding.rs does with the digest ----
   format!("{:x}", result): two lower-case hex digits per byte; the last 8 characters;
   i64::from_str_radix(.., 16); `as usize % shards`. *)
Definition hexd (d : N) : N := if d <? 10 then 48 + d else 87 + d.          (* '0'..'9','a'..'f' *)
Definition hexv (c : N) : option N :=
  if (48 <=? c) && (c <=? 57) then Some (c - 48)
  else if (97 <=? c) && (c <=? 102) then Some (c - 87)
  else if (65 <=? c) && (c <=? 70) then Some (c - 55) else None.
Fixpoint to_hex (bs : list N) : list N :=
  match bs with [] => [] | b :: r => hexd (b / 16) :: hexd (b mod 16) :: to_hex r end.
Fixpoint of_hex (acc : N) (cs : list N) : option N :=
  match cs with
  | [] => Some acc
  | c :: r => match hexv c with Some v => of_hex (acc * 16 + v) r | None => None end
  end.
Definition lastn {A} (n : nat) (l : list A) : list A := skipn (length l - n) l.

Fixpoint be_valN (acc : N) (bs : list N) : N :=
  match bs with [] => acc | b :: r => be_valN (acc * 256 + b) r end.

Definition sha1_shard (k : Z) (shards : N) : option N :=
  match of_hex 0 (lastn 8 (to_hex (sha1 (dec k)))) with
  | Some v => Some (v mod shards)
  | None => None            (* the unwrap() in the Rust code *)
  end.
