(** The ways a sharding key reaches [Sharder::shard]: text (SET SHARDING KEY,
    comment regex capture, SQL literal, text Bind parameter) through Rust's
    [str::parse::<i64>()], and binary Bind parameters of 2, 4 or 8 bytes
    (big-endian two's complement, sign-extended).  Model only; proofs are in
    PathsProofs.v. *)
From Coq Require Import ZArith NArith List Bool Lia.
From PV Require Import Common.RustInt.
Import ListNotations.
Open Scope Z_scope.

Definition byte := N.

Definition digit (c : byte) : option Z :=
  if (N.leb 48 c && N.leb c 57)%bool then Some (Z.of_N c - 48) else None.

Fixpoint digits_val (acc : Z) (s : list byte) : option Z :=
  match s with
  | [] => Some acc
  | c :: r => match digit c with
              | Some d => digits_val (acc * 10 + d) r
              | None => None
              end
  end.

Definition checked (v : Z) : option Z := if in_i64b v then Some v else None.

(** Rust [i64::from_str]: optional [+]/[-], then one or more ASCII digits; anything
    else, an empty digit string, or a value outside i64 is an [Err] (here [None]). *)
Definition parse_i64 (s : list byte) : option Z :=
  match s with
  | [] => None
  | 45%N :: r => match r with [] => None | _ =>
                 match digits_val 0 r with Some v => checked (- v) | None => None end end
  | 43%N :: r => match r with [] => None | _ =>
                 match digits_val 0 r with Some v => checked v | None => None end end
  | _ => match digits_val 0 s with Some v => checked v | None => None end
  end.

(** Rust [i64::to_string]: minimal decimal digits, ['-'] prefix for negatives. *)
Fixpoint dec_pos (fuel : nat) (n : Z) (acc : list byte) : list byte :=
  match fuel with
  | O => acc
  | S f => let acc' := (48 + Z.to_N (n mod 10))%N :: acc in
           if n / 10 =? 0 then acc' else dec_pos f (n / 10) acc'
  end.

Definition dec (k : Z) : list byte :=
  if k <? 0 then 45%N :: dec_pos 20 (- k) [] else dec_pos 20 k [].

(** Only-digits spellings: what the [0-9]+ capture groups of SET SHARDING KEY and of
    a [(\d+)] comment regex can deliver, and what sqlparser's [Value::Number] holds. *)
Definition all_digits (s : list byte) : bool :=
  match s with [] => false | _ => forallb (fun c => (N.leb 48 c && N.leb c 57)%bool) s end.

(* [Rejected]: answered with an error, selection unchanged.  [Panics]: the client task
   dies (kept in the type so that the correspondence can report it; no path produces it). *)
Inductive outcome := Key (k : Z) | NoKey | Rejected | Panics.

(* try_execute_command: match value.parse::<i64>() { Ok(k) => set_sharding_key(k), Err(_) => InvalidShardingKey } *)
Definition path_set_key (s : list byte) : outcome :=
  if all_digits s then match parse_i64 s with Some k => Key k | None => Rejected end else NoKey.
(* comment regex / SQL literal: .parse::<i64>().ok() / match Err => ignore *)
Definition path_comment (s : list byte) : outcome :=
  if all_digits s then match parse_i64 s with Some k => Key k | None => NoKey end else NoKey.
Definition path_literal := path_comment.
(* text Bind parameter: bytes -> chars -> parse::<i64>(), Err => skipped *)
Definition path_bind_text (s : list byte) : outcome :=
  match parse_i64 s with Some k => Key k | None => NoKey end.

Fixpoint be_val (acc : Z) (bs : list byte) : Z :=
  match bs with [] => acc | b :: r => be_val (acc * 256 + Z.of_N b) r end.
Definition signed (bits : Z) (u : Z) : Z := if u <? 2 ^ (bits - 1) then u else u - 2 ^ bits.

(* binary Bind parameter: get_i16 / get_i32 / get_i64 by length, other lengths skipped *)
Definition path_bind_bin (bs : list byte) : outcome :=
  match length bs with
  | 2%nat => Key (signed 16 (be_val 0 bs))
  | 4%nat => Key (signed 32 (be_val 0 bs))
  | 8%nat => Key (signed 64 (be_val 0 bs))
  | _ => NoKey
  end.

Fixpoint be_bytes (n : nat) (u : Z) : list byte :=
  match n with O => [] | S m => be_bytes m (u / 256) ++ [Z.to_N (u mod 256)] end.
Definition be64 (k : Z) : list byte := be_bytes 8 (k mod 2 ^ 64).
Definition be32 (k : Z) : list byte := be_bytes 4 (k mod 2 ^ 32).
Definition be16 (k : Z) : list byte := be_bytes 2 (k mod 2 ^ 16).

(** SET SHARD TO v with [n] configured shards (client.rs handle_custom_protocol):
    the router first stores v, the client handler restores the previous selection and
    answers with an error when v >= n. *)
Definition set_shard (cur : option N) (v n : N) : option N * bool :=
  if (n <=? v)%N then (cur, false) else (Some v, true).

(** pool.get: candidates are the addresses of the requested role, retained by shard. *)
Record addr := { a_id : N; a_shard : N; a_role : N }.
Definition candidates (role : option N) (sh : N) (addrs : list addr) : list addr :=
  filter (fun a => N.eqb (a_shard a) sh)
         (filter (fun a => match role with None => true | Some r => N.eqb (a_role a) r end) addrs).

(** Bind with several parameters (infer_shard_from_bind): every parameter is consumed;
    those whose 1-based position is a sharding-key placeholder are decoded by format.
    [None] is a NULL parameter (length -1).  Format codes: none = all text, one = applies
    to all, otherwise one per parameter. *)
Definition fmt_of (fmts : list bool) (i : nat) : bool :=
  match fmts with [] => false | [f] => f | _ => nth i fmts false end.

Definition decode_param (binary : bool) (p : option (list byte)) : outcome :=
  let bs := match p with Some bs => bs | None => [] end in
  if binary then path_bind_bin bs else path_bind_text bs.

Fixpoint bind_keys_from (i : nat) (ph : list nat) (fmts : list bool) (params : list (option (list byte))) : list Z :=
  match params with
  | [] => []
  | p :: r =>
      let rest := bind_keys_from (S i) ph fmts r in
      if existsb (Nat.eqb (S i)) ph
      then match decode_param (fmt_of fmts i) p with Key k => k :: rest | _ => rest end
      else rest
  end.
Definition bind_keys := bind_keys_from 0.

(** The shard selection of a session (QueryRouter.active_shard) under a sequence of
    shard-selecting events: a key delivered by any path selects [part k]; SET SHARD v selects v
    when it is in range and otherwise changes nothing; everything else leaves it alone. *)
Inductive selop := SelKey (k : Z) | SelShard (v : N) | SelNone.
Definition sel_step (part : Z -> N) (n : N) (cur : option N) (o : selop) : option N :=
  match o with
  | SelKey k => Some (part k)
  | SelShard v => fst (set_shard cur v n)
  | SelNone => cur
  end.
Definition sel_run (part : Z -> N) (n : N) (cur : option N) (ops : list selop) : option N :=
  fold_left (sel_step part n) ops cur.
