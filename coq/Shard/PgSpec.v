(** PostgreSQL's hash partitioning of one bigint column, transcribed by hand from
    PostgreSQL's C sources (src/common/hashfn.c: [mix], [final],
    [hash_bytes_uint32_extended]; src/backend/access/hash/hashfunc.c:
    [hashint8extended]; src/include/common/hashfn.h: [hash_combine64];
    src/include/catalog/partition.h: [HASH_PARTITION_SEED];
    src/backend/partitioning/partbounds.c: [compute_partition_hash_value] and the
    rule "row goes to the partition whose remainder is rowHash % modulus").

    An [int64] is represented, as C represents it, by its two's-complement bit
    pattern [u = k mod 2^64]; [uint32]/[uint64] arithmetic is arithmetic modulo
    2^32 / 2^64.  Nothing here refers to the Rust code. *)
From Coq Require Import ZArith NArith.
From PV Require Import Common.RustInt.
Open Scope N_scope.

Definition HASH_PARTITION_SEED : N := 0x7A5B22367996DCFD.

(* #define rot(x,k) pg_rotate_left32(x, k)  ==  (x << k) | (x >> (32 - k)) *)
Definition rot (x k : N) : N := N.lor ((N.shiftl x k) mod 2^32) (N.shiftr x (32 - k)).

Definition add32 (a b : N) : N := (a + b) mod 2^32.
Definition sub32 (a b : N) : N := (a + (2^32 - b mod 2^32)) mod 2^32.
Definition add64 (a b : N) : N := (a + b) mod 2^64.

(* #define mix(a,b,c) *)
Definition mix (a b c : N) : N * N * N :=
  let a := sub32 a c in let a := N.lxor a (rot c 4)  in let c := add32 c b in
  let b := sub32 b a in let b := N.lxor b (rot a 6)  in let a := add32 a c in
  let c := sub32 c b in let c := N.lxor c (rot b 8)  in let b := add32 b a in
  let a := sub32 a c in let a := N.lxor a (rot c 16) in let c := add32 c b in
  let b := sub32 b a in let b := N.lxor b (rot a 19) in let a := add32 a c in
  let c := sub32 c b in let c := N.lxor c (rot b 4)  in let b := add32 b a in
  (a, b, c).

(* #define final(a,b,c) *)
Definition final (a b c : N) : N * N * N :=
  let c := N.lxor c b in let c := sub32 c (rot b 14) in
  let a := N.lxor a c in let a := sub32 a (rot c 11) in
  let b := N.lxor b a in let b := sub32 b (rot a 25) in
  let c := N.lxor c b in let c := sub32 c (rot b 16) in
  let a := N.lxor a c in let a := sub32 a (rot c 4)  in
  let b := N.lxor b a in let b := sub32 b (rot a 14) in
  let c := N.lxor c b in let c := sub32 c (rot b 24) in
  (a, b, c).

(* uint64 hash_bytes_uint32_extended(uint32 k, uint64 seed) *)
Definition hash_bytes_uint32_extended (k seed : N) : N :=
  let a0 := add32 (add32 0x9e3779b9 4 (* sizeof(uint32) *)) 3923095 in
  let '(a, b, c) :=
    if N.eqb seed 0 then (a0, a0, a0)
    else mix (add32 a0 ((seed / 2^32) mod 2^32)) (add32 a0 (seed mod 2^32)) a0 in
  let a := add32 a k in
  let '(a, b, c) := final a b c in
  N.lor ((b * 2^32) mod 2^64) c.

(* Datum hashint8extended(int64 val, uint64 seed), on the bit pattern [u] of val *)
Definition hashint8extended_bits (u seed : N) : N :=
  let lohalf := u mod 2^32 in
  let hihalf := (u / 2^32) mod 2^32 in
  let nonneg := u <? 2^63 in
  let lohalf := N.lxor lohalf (if nonneg then hihalf else (2^32 - 1 - hihalf)) in
  hash_bytes_uint32_extended lohalf seed.

Definition bits_of_int64 (k : Z) : N := Z.to_N (k mod 2^64)%Z.

Definition hashint8extended (k : Z) (seed : N) : N := hashint8extended_bits (bits_of_int64 k) seed.

(* static inline uint64 hash_combine64(uint64 a, uint64 b) *)
Definition hash_combine64 (a b : N) : N :=
  N.lxor a (add64 (add64 (add64 b 0x49a0f4dd15e5a8e3) ((N.shiftl a 54) mod 2^64)) (N.shiftr a 7)).

(* compute_partition_hash_value for a single key column, then rowHash % modulus *)
Definition row_hash (k : Z) : N := hash_combine64 0 (hashint8extended k HASH_PARTITION_SEED).
Definition partition_of (k : Z) (modulus : N) : N := row_hash k mod modulus.
