(** C03 — relay of queries and replies, byte level.  Definitions only (executable).

    What is modelled (file:line of the code that exists, /repo at de03604):
      - src/messages.rs:639-692  read_message     -> [parse_frame]
      - src/server.rs:905-1118   Server::recv      -> [arm], [recv]
      - src/client.rs:1991-2040  send_and_receive_loop -> [relay_loop]
      - src/client.rs:1235-1640  transaction-loop arms Q, P/B/D/E/C, S, d, c|f (statement
        caching off)                               -> [cstep], [crun]
    Bytes are [Z] (0..255), frames are (tag, body); lengths are [Z] with the i32 range written
    out.  The buffering thresholds are parameters ([pD], [pd], [pc]); they are instantiated
    with the conditions extracted from the source in coq/Gen/RelayConsts.v. *)
From Coq Require Import ZArith List Bool Lia.
Import ListNotations.
Open Scope Z_scope.

Definition byte := Z.
Definition bytes := list byte.
Definition frame := (Z * bytes)%type.            (* tag, body (without the length word) *)

Definition blen (b : bytes) : Z := Z.of_nat (length b).
Definition byte_ok (b : Z) : bool := (0 <=? b) && (b <? 256).

(** big-endian int32, as written by [BytesMut::put_i32] *)
Definition be32 (z : Z) : bytes :=
  [(z / 16777216) mod 256; (z / 65536) mod 256; (z / 256) mod 256; z mod 256].
Definition u32_of (a b c d : Z) : Z := ((a * 256 + b) * 256 + c) * 256 + d.
(** [read_i32]: two's complement *)
Definition i32_of (a b c d : Z) : Z :=
  let u := u32_of a b c d in if u >=? 2147483648 then u - 4294967296 else u.

(** A frame on the wire: tag, len = 4 + |body| as int32 BE, body. *)
Definition enc (f : frame) : bytes := fst f :: be32 (blen (snd f) + 4) ++ snd f.
Definition encs (fs : list frame) : bytes := concat (map enc fs).

(** well-formed frame: byte-sized tag and body bytes, length word inside i32 *)
Definition wfb (f : frame) : bool :=
  byte_ok (fst f) && forallb byte_ok (snd f) && (blen (snd f) + 4 <? 2147483648).
Definition wf (f : frame) : Prop := wfb f = true.

(** messages.rs:639-692.  [None] = no complete frame at the head of [bs]: either fewer bytes
    than the header/length announce ([read_exact] keeps waiting), or len < 4 — for 0..3 the
    guard [slice_end < slice_start] returns Err (line 674), for a negative len [len as usize]
    is astronomically large ([with_capacity] panics / Err in release): in every such case no
    frame is produced and nothing more is read from that socket ([bad_header]). *)
Definition parse_frame (bs : bytes) : option (frame * bytes) :=
  match bs with
  | t :: a :: b :: c :: d :: rest =>
      let len := i32_of a b c d in
      if len <? 4 then None
      else let n := Z.to_nat (len - 4) in
           if (length rest <? n)%nat then None
           else Some ((t, firstn n rest), skipn n rest)
  | _ => None
  end.

Definition bad_header (bs : bytes) : bool :=
  match bs with
  | _ :: a :: b :: c :: d :: _ => i32_of a b c d <? 4
  | _ => false
  end.

(** All complete frames at the head of a byte stream, and the unconsumed remainder. *)
Fixpoint parse_avail_f (fuel : nat) (bs : bytes) : list frame * bytes :=
  match fuel with
  | O => ([], bs)
  | S k => match parse_frame bs with
           | Some (f, rest) => let (fs, p) := parse_avail_f k rest in (f :: fs, p)
           | None => ([], bs)
           end
  end.
Definition parse_avail (bs : bytes) : list frame * bytes := parse_avail_f (length bs) bs.

Definition parse_all (bs : bytes) : option (list frame) :=
  match parse_avail bs with
  | (fs, []) => Some fs
  | _ => None
  end.

(** A reader that is handed the stream in TCP segments: it keeps the unconsumed bytes and
    extracts every frame that has become complete. *)
Definition feed (st : list frame * bytes) (seg : bytes) : list frame * bytes :=
  let (fs, p) := parse_avail (snd st ++ seg) in (fst st ++ fs, p).
Definition feed_all (segs : list bytes) : list frame * bytes := fold_left feed segs ([], []).

(* ------------------------------------------------------------------------------------- *)
(** * Server::recv *)

(** tags: Z=90 E=69 C=67 S=83 D=68 G=71 H=72 d=100; c=99 and '1'=49 have arms without any
    effect on the relay state and fall under [Kother]. *)
Inductive kind := KZ | KE | KC | KS | KD | KG | KH | Kd | Kother.
Definition kind_of (t : Z) : kind :=
  if t =? 90 then KZ else if t =? 69 then KE else if t =? 67 then KC else if t =? 83 then KS
  else if t =? 68 then KD else if t =? 71 then KG else if t =? 72 then KH
  else if t =? 100 then Kd else Kother.

(** the two booleans of [Server] the relay depends on.  (in_transaction, which the 'Z' and 'C'
    arms also maintain, only decides when the server is released — C01/C02 — and is left out.) *)
Record bel := mkBel { da : bool;      (* data_available *)
                      copy : bool }.  (* in_copy_mode *)
Definition bel0 : bel := mkBel false false.

Fixpoint after_nul (b : bytes) : option bytes :=
  match b with
  | [] => None
  | x :: r => if x =? 0 then Some r else after_nul r
  end.
(** 'S' arm: [message.read_string().unwrap()] twice (server.rs:1042-1043) *)
Definition two_cstrings (b : bytes) : bool :=
  match after_nul b with
  | Some r => match after_nul r with Some _ => true | None => false end
  | None => false
  end.

Inductive armres := Break (s : bel) | Cont (s : bel) | Fail.

Section Recv.
  (** [pD n] / [pd n]: the break conditions of the 'D' / 'd' arms on the buffer length;
      [gclr]: the 'G' arm clears data_available (true = the code since 8562805; false = the
      code before it, kept as a mutant for the regression lemma). *)
  Variables (pD pd : Z -> bool) (gclr : bool).

  (** server.rs:930-1102, one arm per [kind]; [n] = self.buffer.len() after the frame was appended *)
  Definition arm (s : bel) (n : Z) (f : frame) : armres :=
    match kind_of (fst f) with
    | KZ => match snd f with                                     (* 932-964 *)
            | b :: _ => if b =? 84 then Break (mkBel false (copy s))
                        else if b =? 73 then Break (mkBel false (copy s))
                        else if b =? 69 then Break (mkBel false (copy s))
                        else Fail                                 (* ProtocolSyncError *)
            | [] => Fail                                          (* get_u8 on an empty body panics *)
            end
    | KE => Cont (mkBel (da s) false)                     (* 967-1002, caching off *)
    | KC => Cont (mkBel (da s) false)                     (* 1005-1039 *)
    | KS => if two_cstrings (snd f) then Cont s else Fail         (* 1041-1053 *)
    | KD => let s' := mkBel true (copy s) in              (* 1056-1064 *)
            if pD n then Break s' else Cont s'
    | KG => Break (mkBel (if gclr then false else da s) true)   (* 1067-1076 *)
    | KH => Break (mkBel true true)                       (* 1079-1083 *)
    | Kd => if pd n then Break s else Cont s                      (* 1086-1091 *)
    | Kother => Cont s                                            (* 'c', '1', _ *)
    end.

  Inductive rres := Ret (chunk : bytes) (s : bel) (rest : list frame) | Blocked | Failed.

  (** One call of Server::recv on the frames the backend has sent and will send before it
      needs input: [Blocked] = read_message waits for a frame that does not come. *)
  Fixpoint recv (s : bel) (buf : bytes) (fs : list frame) : rres :=
    match fs with
    | [] => Blocked
    | f :: r =>
        let buf' := buf ++ enc f in                                (* 923 self.buffer.put *)
        match arm s (blen buf') f with
        | Break s' => Ret buf' s' r                                (* 1105-1117, buffer cleared *)
        | Cont s' => recv s' buf' r
        | Fail => Failed
        end
    end.

  Inductive lres :=
  | Done (chunks : list bytes) (s : bel) (rest : list frame)
  | LBlocked (chunks : list bytes)       (* forwarded so far, then waiting on the backend *)
  | LFailed (chunks : list bytes)
  | OutOfFuel.

  (** client.rs:2013-2030: forward every returned buffer, loop while is_data_available() *)
  Fixpoint relay_loop (fuel : nat) (s : bel) (fs : list frame) (acc : list bytes) : lres :=
    match fuel with
    | O => OutOfFuel
    | S k =>
        match recv s [] fs with
        | Ret chunk s' rest =>
            let acc' := acc ++ [chunk] in
            if da s' then relay_loop k s' rest acc' else Done acc' s' rest
        | Blocked => LBlocked acc
        | Failed => LFailed acc
        end
    end.
  Definition relay (s : bel) (fs : list frame) : lres := relay_loop (S (length fs)) s fs [].

  (** Byte-level composition: the backend's bytes arrive in TCP segments. *)
  Definition relay_segments (s : bel) (segs : list bytes) : lres := relay s (fst (feed_all segs)).

  (** computable: the 'c'|'f' arm (client.rs:1574-1608) calls recv exactly once.  The reply to
      CopyDone is relayed completely iff that one call ends at ReadyForQuery. *)
  Fixpoint single_ok (n : Z) (fs : list frame) : bool :=
    match fs with
    | [] => false
    | f :: r =>
        let n' := n + blen (enc f) in
        match kind_of (fst f) with
        | KZ => true
        | KG | KH => false
        | KD => negb (pD n') && single_ok n' r
        | Kd => negb (pd n') && single_ok n' r
        | _ => single_ok n' r
        end
    end.
End Recv.

(* ------------------------------------------------------------------------------------- *)
(** * Reply streams *)

Definition is_stop (f : frame) : bool :=
  match kind_of (fst f) with KZ | KG => true | _ => false end.
Definition is_Z (f : frame) : bool := match kind_of (fst f) with KZ => true | _ => false end.

(** The part of the backend's output that answers one request: up to and including the first
    ReadyForQuery — or the first CopyInResponse, after which the backend waits for the client. *)
Fixpoint upto_stop (fs : list frame) : list frame :=
  match fs with [] => [] | f :: r => if is_stop f then [f] else f :: upto_stop r end.
Fixpoint after_stop (fs : list frame) : list frame :=
  match fs with [] => [] | f :: r => if is_stop f then r else after_stop r end.
Fixpoint upto_first_Z (fs : list frame) : list frame :=
  match fs with [] => [] | f :: r => if is_Z f then [f] else f :: upto_first_Z r end.
Fixpoint after_first_Z (fs : list frame) : list frame :=
  match fs with [] => [] | f :: r => if is_Z f then r else after_first_Z r end.

(** a frame pgcat's recv() can process: ReadyForQuery carries a status I/T/E, ParameterStatus
    two C strings (anything else is a broken backend: recv returns Err / panics) *)
Definition okframe (f : frame) : bool :=
  wfb f &&
  match kind_of (fst f) with
  | KZ => match snd f with b :: _ => (b =? 84) || (b =? 73) || (b =? 69) | [] => false end
  | KS => two_cstrings (snd f)
  | _ => true
  end.

Definition reply_streamb (fs : list frame) : bool := forallb okframe fs && existsb is_stop fs.
Definition reply_stream (fs : list frame) : Prop := reply_streamb fs = true.

(** The guard the proof forces: within the answer to one request no CopyData before a
    CopyOutResponse or DataRow ('d' does not set data_available: a large stray 'd' would end
    the relay loop early).  PostgreSQL sends CopyData only between CopyOutResponse and
    CopyDone, so every reply of a real backend satisfies it.  [scan a fs]: [a] = data_available. *)
Fixpoint scan (a : bool) (fs : list frame) : bool :=
  match fs with
  | [] => false
  | f :: r =>
      match kind_of (fst f) with
      | KZ | KG => true
      | KD | KH => scan true r
      | Kd => a && scan a r
      | _ => scan a r
      end
  end.
Definition relay_ok (fs : list frame) : bool := scan false fs.

(** The same scan for the code before 8562805 ('G' did not clear data_available): no 'G' after
    a DataRow / CopyOutResponse of the same reply. *)
Fixpoint scan_old (a : bool) (fs : list frame) : bool :=
  match fs with
  | [] => false
  | f :: r =>
      match kind_of (fst f) with
      | KZ => true
      | KG => negb a
      | KD | KH => scan_old true r
      | Kd => a && scan_old a r
      | _ => scan_old a r
      end
  end.

(* ------------------------------------------------------------------------------------- *)
(** * Client side: the transaction-loop arms (statement caching off) *)

(** tags: Q=81 P=80 B=66 D=68 E=69 C=67 S=83 d=100 c=99 f=102 H=72 (Flush) *)
Inductive act :=
| SendSrv (b : bytes)      (* Server::send: write_all_flush to the backend *)
| RelayLoop                (* send_and_receive_loop's receive part *)
| RecvOnce                 (* one receive_server_message + forward ('c' | 'f' arm before fd4aac1) *)
| SynthReady               (* pgcat answers ReadyForQuery itself (client.rs:1506-1511) *)
| Dropped (f : frame)      (* not forwarded: `_ => error!("Unexpected code")`, Sync inside COPY,
                              CopyDone/CopyFail outside COPY *)
| DroppedBuf (b : bytes).  (* self.buffer.clear() without a send *)

Record cst := mkC { ext : list frame;    (* extended_protocol_data_buffer *)
                    cbuf : bytes }.      (* self.buffer *)
Definition cst0 : cst := mkC [] [].

(** Close is decoded before it is buffered (client.rs:1350, messages.rs:1184-1197): kind byte
    and one more byte at least, otherwise the task ends (C11's subject, not C03's). *)
Definition close_ok (body : bytes) : bool := (2 <=? blen body).

Section Client.
  (** [pc]: 'd' arm, flush when pc (buffer.len());  [cloop]: the 'c'|'f' arm reads the reply in a
      loop (true = the code since fd4aac1; false = one recv, kept as a mutant);
      [m] = server.in_copy_mode() while the messages are processed (it can only change in a
      RelayLoop, i.e. after a Query, a Sync or a CopyDone/CopyFail). *)
  Variables (pc : Z -> bool) (cloop : bool) (m : bool).

  (** [None]: the client task ends with an error / panic. *)
  Definition cstep (st : cst) (f : frame) : option (cst * list act) :=
    let t := fst f in
    if t =? 81 then Some (st, [SendSrv (enc f); RelayLoop])                         (* Q 1237-1300 *)
    else if (t =? 80) || (t =? 66) || (t =? 68) || (t =? 69) then
      Some (mkC (ext st ++ [f]) (cbuf st), [])                                      (* P B D E 1313-1345 *)
    else if t =? 67 then
      if close_ok (snd f) then Some (mkC (ext st ++ [f]) (cbuf st), []) else None   (* C 1349-1354 *)
    else if (t =? 83) && m then Some (st, [Dropped f])                              (* S in COPY mode 1359-1362 *)
    else if t =? 83 then                                                            (* S 1358-1562 *)
      let buf := cbuf st ++ encs (ext st) ++ enc f in
      match buf with
      | b0 :: _ => if b0 =? 83 then Some (cst0, [SynthReady])                       (* 1506-1511 *)
                   else Some (cst0, [SendSrv buf; RelayLoop])
      | [] => None
      end
    else if t =? 100 then                                                           (* d 1565-1576 *)
      let buf := cbuf st ++ enc f in
      if pc (blen buf) then Some (mkC (ext st) [], [SendSrv buf])
      else Some (mkC (ext st) buf, [])
    else if ((t =? 99) || (t =? 102)) && negb m then                                (* c | f outside COPY 1582-1590 *)
      Some (mkC (ext st) [], [DroppedBuf (cbuf st); Dropped f])
    else if (t =? 99) || (t =? 102) then                                            (* c | f 1579-1638 *)
      Some (mkC (ext st) [], [SendSrv (cbuf st ++ enc f); if cloop then RelayLoop else RecvOnce])
    else if t =? 88 then None                                                       (* X 1303-1309: the task ends *)
    else Some (st, [Dropped f]).                                                    (* 1642-1644 *)

  Fixpoint crun (st : cst) (fs : list frame) : option (cst * list act) :=
    match fs with
    | [] => Some (st, [])
    | f :: r => match cstep st f with
                | None => None
                | Some (st', a) => match crun st' r with
                                   | None => None
                                   | Some (st'', b) => Some (st'', a ++ b)
                                   end
                end
    end.
End Client.

Fixpoint sent (acts : list act) : bytes :=
  match acts with
  | [] => []
  | SendSrv b :: r => b ++ sent r
  | _ :: r => sent r
  end.
Fixpoint count_recv_once (acts : list act) : nat :=
  match acts with [] => O | RecvOnce :: r => S (count_recv_once r) | _ :: r => count_recv_once r end.

Definition batch_msg (f : frame) : bool :=
  let t := fst f in
  (t =? 80) || (t =? 66) || (t =? 68) || (t =? 69) || ((t =? 67) && close_ok (snd f)).

(** Known deviations (known_findings.jsonl, property C03), as computable classes of client
    message sequences:
      F19  a Flush ('H') message: dropped, never forwarded;
      F20  a Sync that is the only message of its batch: answered by pgcat, not forwarded. *)
Definition known_flush (ms : list frame) : bool := existsb (fun f => fst f =? 72) ms.
Fixpoint known_lone_sync_from (fresh : bool) (ms : list frame) : bool :=
  match ms with
  | [] => false
  | f :: r => if fst f =? 83 then fresh || known_lone_sync_from true r
              else if batch_msg f then known_lone_sync_from false r
              else known_lone_sync_from fresh r
  end.
Definition known_lone_sync (ms : list frame) : bool := known_lone_sync_from true ms.
Definition known_c03 (ms : list frame) : bool := known_flush ms || known_lone_sync ms.

(** messages a client may send in a request sequence outside COPY: Q, batch messages, S, H *)
Definition req_msg (f : frame) : bool :=
  let t := fst f in (t =? 81) || batch_msg f || (t =? 83) || (t =? 72).

(** A simple Query is sent at once, ahead of whatever Parse/Bind/... is still buffered
    (client.rs:1275 passes the message itself, not self.buffer): order is preserved only if a
    Query arrives at a batch boundary, which is where every client library sends it. *)
Fixpoint q_boundary (fresh : bool) (ms : list frame) : bool :=
  match ms with
  | [] => true
  | f :: r => if fst f =? 81 then fresh && q_boundary fresh r
              else if fst f =? 83 then q_boundary true r
              else if batch_msg f then q_boundary false r
              else q_boundary fresh r
  end.

(* ------------------------------------------------------------------------------------- *)
(** * Signature of the hand-written [arm], for comparison with the table the translator
    extracts from server.rs (Gen/RelayConsts.recv_arm_sigs). *)
Section Sig.
  Variables (pD pd : Z -> bool).
  Definition res_bel (r : armres) : option bel :=
    match r with Break s => Some s | Cont s => Some s | Fail => None end.
  Definition is_break (r : armres) : bool := match r with Break _ => true | _ => false end.
  (* a body every arm accepts: status 'I', and two C strings *)
  Definition probe_body (t : Z) : bytes := if t =? 90 then [73] else [0; 0].
  (* effect on a flag, with the buffer length [n]: 0 = cleared, 1 = set, 2 = untouched *)
  Definition eff (proj : bel -> bool) (n : Z) (t : Z) : Z :=
    let f := (t, probe_body t) in
    match res_bel (arm pD pd true (mkBel false false) n f),
          res_bel (arm pD pd true (mkBel true true) n f) with
    | Some a, Some b => if proj a then (if proj b then 1 else 3) else (if proj b then 2 else 0)
    | _, _ => 4
    end.
  Definition huge : Z := 1000000000000.
  (* break: never (0) / always (1) / not on an empty buffer but on a huge one (2 = threshold) *)
  Definition brk (t : Z) : Z :=
    let f := (t, probe_body t) in
    let lo := is_break (arm pD pd true bel0 0 f) in
    let hi := is_break (arm pD pd true bel0 huge f) in
    if lo then (if hi then 1 else 3) else (if hi then 2 else 0).
  (* (tag, (effects on an empty buffer, break kind, effects on the path that breaks)) *)
  Definition arm_sig (t : Z) : Z * (Z * Z * Z * Z * Z) :=
    let tt := if t =? -1 then 0 else t in        (* the `_` arm is probed with tag 0 *)
    (t, (eff da 0 tt, eff copy 0 tt, brk tt, eff da huge tt, eff copy huge tt)).
End Sig.
