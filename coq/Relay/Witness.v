(** C03 — concrete streams: refutation witnesses (known deviations, mutants of repaired code)
    and the instantiation of the model with the constants extracted from the source. *)
From Coq Require Import ZArith List Bool Lia.
From PV Require Import Relay.Model Gen.RelayConsts.
Import ListNotations.
Open Scope Z_scope.

(** the model with the thresholds / loop shape found in the source on this run *)
Definition recv_now := recv recv_break_D recv_break_d true.
Definition relay_now := relay recv_break_D recv_break_d true.
Definition relay_segments_now := relay_segments recv_break_D recv_break_d true.
Definition crun_now := crun client_copy_flush copy_done_loops.
(** mutants = the code before the repairs 8562805 ('G' arm) and fd4aac1 ('c'|'f' arm) *)
Definition relay_before_8562805 := relay recv_break_D recv_break_d false.
Definition crun_before_fd4aac1 := crun client_copy_flush false.

(** sample backend frames *)
Definition fT : frame := (84, [0; 0]).                               (* RowDescription, no columns *)
Definition fD (n : Z) : frame := (68, repeat 120 (Z.to_nat n)).              (* DataRow with an n-byte body *)
Definition fC : frame := (67, [83; 69; 76; 69; 67; 84; 32; 49; 0]).  (* CommandComplete "SELECT 1" *)
Definition fG : frame := (71, [0; 0; 1; 0; 0]).                      (* CopyInResponse *)
Definition fH : frame := (72, [0; 0; 1; 0; 0]).                      (* CopyOutResponse *)
Definition fd (n : Z) : frame := (100, repeat 121 (Z.to_nat n)).             (* CopyData *)
Definition fc : frame := (99, []).                                   (* CopyDone *)
Definition fZ : frame := (90, [73]).                                 (* ReadyForQuery 'I' *)
Definition fN : frame := (78, [83; 78; 79; 84; 73; 67; 69; 0; 0]).   (* NoticeResponse *)
Definition fS : frame := (83, [97; 0; 98; 0]).                       (* ParameterStatus a=b *)
Definition fE : frame := (69, [83; 69; 82; 82; 79; 82; 0; 0]).       (* ErrorResponse *)
(** sample frontend frames *)
Definition cP : frame := (80, [0; 83; 69; 76; 69; 67; 84; 32; 49; 0; 0; 0]).   (* Parse "" "SELECT 1" *)
Definition cB : frame := (66, [0; 0; 0; 0; 0; 0; 0; 0]).
Definition cE : frame := (69, [0; 0; 0; 0; 0]).
Definition cS : frame := (83, []).
Definition cH : frame := (72, []).                                   (* Flush *)
Definition cQ : frame := (81, [83; 69; 76; 69; 67; 84; 32; 49; 0]).
Definition cd (n : Z) : frame := (100, repeat 122 (Z.to_nat n)).
Definition cc : frame := (99, []).

(** F9 (repaired by 8562805): before the repair the reply to `SELECT 1; COPY t FROM STDIN`
    was forwarded completely and then the loop waited on the backend for good. *)
Lemma relay_stuck_before_8562805 :
  exists fs, reply_stream fs /\ scan_old false fs = false /\
             relay_before_8562805 bel0 fs = LBlocked [encs fs].
Proof. exists [fT; fD 3; fC; fG]. repeat split; vm_compute; reflexivity. Qed.

Lemma relay_TDCG_now :
  relay_now bel0 [fT; fD 3; fC; fG] = Done [encs [fT; fD 3; fC; fG]] (mkBel false true) [].
Proof. vm_compute. reflexivity. Qed.

(** the guard [relay_ok] is not vacuous: a large CopyData without CopyOutResponse ends the
    loop before ReadyForQuery (never sent by PostgreSQL) *)
Lemma stray_copydata_truncates :
  exists fs, reply_stream fs /\ relay_ok fs = false /\
             relay_now bel0 fs = Done [encs [fd 9000]] bel0 [fZ].
Proof. exists [fd 9000; fZ]. repeat split; vm_compute; reflexivity. Qed.

(** F21c (known): extended-protocol COPY.  After CopyDone PostgreSQL sends CommandComplete only;
    ReadyForQuery follows the client's Sync, which pgcat does not read while it waits. *)
Lemma extended_copy_blocks : relay_now (mkBel false true) [fC] = LBlocked [].
Proof. vm_compute. reflexivity. Qed.

(** F21a/b (repaired by fd4aac1): one recv() after CopyDone returned only part of the reply *)
Lemma single_recv_truncated_before_fd4aac1 :
  let fs := [fC; fT; fD 9000; fD 3; fC; fZ] in
  reply_stream fs /\ single_ok recv_break_D recv_break_d 0 fs = false /\
  recv_now (mkBel false true) [] fs = Ret (encs [fC; fT; fD 9000]) (mkBel true false) [fD 3; fC; fZ] /\
  (exists pre, crun_before_fd4aac1 true cst0 [cd 2; cc] = Some (cst0, pre ++ [RecvOnce])).
Proof. repeat split; try (vm_compute; reflexivity). exists [SendSrv (encs [cd 2; cc])]. vm_compute. reflexivity. Qed.

(** F19 (known): Flush is dropped *)
Lemma flush_dropped :
  exists ms st acts, forallb req_msg ms = true /\ known_c03 ms = true /\
    crun_now false cst0 ms = Some (st, acts) /\ In (Dropped cH) acts /\
    sent acts ++ encs (ext st) <> encs ms.
Proof.
  exists [cP; cH; cS], cst0, [Dropped cH; SendSrv (encs [cP; cS]); RelayLoop].
  repeat split; try (vm_compute; reflexivity).
  - left. reflexivity.
  - vm_compute. discriminate.
Qed.

(** F20 (known): a Sync with nothing buffered is answered locally and not forwarded *)
Lemma lone_sync_local :
  exists ms, forallb req_msg ms = true /\ known_c03 ms = true /\
    crun_now false cst0 ms = Some (cst0, [SynthReady]) /\ sent [SynthReady] <> encs ms.
Proof. exists [cS]. repeat split; try (vm_compute; reflexivity). vm_compute. discriminate. Qed.

(** a Query in the middle of an open batch overtakes the buffered messages *)
Lemma query_overtakes_batch :
  exists ms st acts, forallb req_msg ms = true /\ known_c03 ms = false /\ q_boundary true ms = false /\
    crun_now false cst0 ms = Some (st, acts) /\ sent acts = encs [cQ; cP; cS] /\ sent acts <> encs ms.
Proof.
  exists [cP; cQ; cS], cst0, [SendSrv (enc cQ); RelayLoop; SendSrv (encs [cP; cS]); RelayLoop].
  repeat split; try (vm_compute; reflexivity). vm_compute. discriminate.
Qed.

(** T1: the arm table extracted from server.rs is the signature of the hand-written [arm] *)
Lemma arm_sigs_match :
  map (arm_sig recv_break_D recv_break_d) (map fst recv_arm_sigs) = recv_arm_sigs /\
  copy_done_outside_copy_dropped = true /\ sync_in_copy_dropped = true /\
  copy_done_release_checks_copy_mode = true.
Proof. repeat split; vm_compute; reflexivity. Qed.
