(** C03 — lemmas.  The property theorems of Props.v are closed by [exact] of these. *)
From Coq Require Import ZArith List Bool Lia Arith.
From PV Require Import Relay.Model.
Import ListNotations.
Open Scope Z_scope.
Local Arguments parse_avail : simpl never.

(* ------------------------------------------------------------------------------------- *)
(** * Framing *)

Lemma u32_be32 : forall z, 0 <= z < 4294967296 ->
  u32_of ((z / 16777216) mod 256) ((z / 65536) mod 256) ((z / 256) mod 256) (z mod 256) = z.
Proof.
  intros z Hz. unfold u32_of.
  Ltac Zify.zify_post_hook ::= Z.div_mod_to_equations.
  lia.
Qed.

Lemma i32_be32 : forall z, 0 <= z < 2147483648 ->
  i32_of ((z / 16777216) mod 256) ((z / 65536) mod 256) ((z / 256) mod 256) (z mod 256) = z.
Proof.
  intros z Hz. unfold i32_of. rewrite u32_be32 by lia.
  destruct (z >=? 2147483648) eqn:E; [lia | reflexivity].
Qed.

Lemma blen_nonneg : forall b, 0 <= blen b.
Proof. intros; unfold blen; lia. Qed.

Lemma blen_app : forall a b, blen (a ++ b) = blen a + blen b.
Proof. intros; unfold blen; rewrite app_length; lia. Qed.

Lemma wf_len : forall f, wf f -> 0 <= blen (snd f) + 4 < 2147483648.
Proof.
  intros f H. unfold wf, wfb in H. apply andb_prop in H as [_ H].
  apply Z.ltb_lt in H. pose proof (blen_nonneg (snd f)). lia.
Qed.

(** read_message on the encoding of a well-formed frame followed by anything returns the frame
    and leaves exactly the rest: it consumes 1 + 4 + |body| bytes. *)
Lemma parse_enc : forall f rest, wf f -> parse_frame (enc f ++ rest) = Some (f, rest).
Proof.
  intros [t body] rest H. pose proof (wf_len _ H) as L. cbn [fst snd] in L.
  unfold enc, be32. cbn [fst snd app parse_frame].
  rewrite i32_be32 by lia.
  destruct (blen body + 4 <? 4) eqn:E1; [apply Z.ltb_lt in E1; pose proof (blen_nonneg body); lia|].
  replace (Z.to_nat (blen body + 4 - 4)) with (length body) by (unfold blen; lia).
  destruct (length (body ++ rest) <? length body)%nat eqn:E2.
  - apply Nat.ltb_lt in E2. rewrite app_length in E2. lia.
  - rewrite firstn_app, Nat.sub_diag, firstn_all. cbn [firstn]. rewrite app_nil_r.
    rewrite skipn_app, Nat.sub_diag, skipn_all. reflexivity.
Qed.

Lemma parse_frame_shrinks : forall bs f rest, parse_frame bs = Some (f, rest) ->
  (length rest + 5 <= length bs)%nat.
Proof.
  intros bs f rest H. unfold parse_frame in H.
  destruct bs as [|t [|a [|b [|c [|d r]]]]]; try discriminate.
  destruct (i32_of a b c d <? 4); try discriminate.
  destruct (length r <? Z.to_nat (i32_of a b c d - 4))%nat; try discriminate.
  inversion H; subst. cbn [length]. rewrite skipn_length. lia.
Qed.

(** a complete frame at the head of a stream stays the same frame when more bytes follow *)
Lemma parse_frame_mono : forall a f rest b, parse_frame a = Some (f, rest) ->
  parse_frame (a ++ b) = Some (f, rest ++ b).
Proof.
  intros a f rest b H. unfold parse_frame in *.
  destruct a as [|t [|x [|y [|z [|w r]]]]]; try discriminate.
  cbn [app].
  destruct (i32_of x y z w <? 4); try discriminate.
  set (n := Z.to_nat (i32_of x y z w - 4)) in *.
  destruct (length r <? n)%nat eqn:E; try discriminate.
  apply Nat.ltb_ge in E.
  destruct (length (r ++ b) <? n)%nat eqn:E2.
  - apply Nat.ltb_lt in E2. rewrite app_length in E2. lia.
  - inversion H; subst.
    rewrite firstn_app. replace (n - length r)%nat with O by lia. cbn [firstn]. rewrite app_nil_r.
    rewrite skipn_app. replace (n - length r)%nat with O by lia. cbn [skipn]. reflexivity.
Qed.

(** an incomplete or refused head stays so until more bytes arrive; a refused header stays refused *)
Lemma parse_frame_none_bad : forall a b, parse_frame a = None -> bad_header a = true ->
  parse_frame (a ++ b) = None.
Proof.
  intros a b H Hb. unfold parse_frame, bad_header in *.
  destruct a as [|t [|x [|y [|z [|w r]]]]]; try discriminate.
  cbn [app]. rewrite Hb. reflexivity.
Qed.

Lemma fuel_enough : forall k1 k2 bs, (length bs <= k1)%nat -> (length bs <= k2)%nat ->
  parse_avail_f k1 bs = parse_avail_f k2 bs.
Proof.
  induction k1 as [|k1 IH]; intros k2 bs H1 H2.
  - destruct bs; [|cbn in H1; lia]. destruct k2; reflexivity.
  - destruct k2 as [|k2].
    + destruct bs; [|cbn in H2; lia]. reflexivity.
    + cbn [parse_avail_f]. destruct (parse_frame bs) as [[f rest]|] eqn:E; [|reflexivity].
      apply parse_frame_shrinks in E. rewrite (IH k2 rest) by lia. reflexivity.
Qed.

Lemma parse_avail_step : forall bs f rest, parse_frame bs = Some (f, rest) ->
  parse_avail bs = let (fs, p) := parse_avail rest in (f :: fs, p).
Proof.
  intros bs f rest H. unfold parse_avail.
  pose proof (parse_frame_shrinks _ _ _ H) as L.
  destruct (length bs) as [|k] eqn:Ek; [lia|].
  cbn [parse_avail_f]. rewrite H.
  rewrite (fuel_enough k (length rest) rest) by lia. reflexivity.
Qed.

Lemma parse_avail_none : forall bs, parse_frame bs = None -> parse_avail bs = ([], bs).
Proof.
  intros bs H. unfold parse_avail. destruct (length bs); cbn [parse_avail_f]; [reflexivity|].
  rewrite H. reflexivity.
Qed.

Lemma parse_avail_encs : forall fs rest, Forall wf fs ->
  parse_avail (encs fs ++ rest) = let (gs, p) := parse_avail rest in (fs ++ gs, p).
Proof.
  induction fs as [|f fs IH]; intros rest H.
  - cbn. destruct (parse_avail rest); reflexivity.
  - inversion H; subst. unfold encs. cbn [map concat]. rewrite <- app_assoc.
    rewrite (parse_avail_step _ f (concat (map enc fs) ++ rest)) by (apply parse_enc; assumption).
    fold (encs fs). rewrite IH by assumption.
    destruct (parse_avail rest). reflexivity.
Qed.

Lemma frame_roundtrip : forall fs, Forall wf fs -> parse_all (encs fs) = Some fs.
Proof.
  intros fs H. unfold parse_all.
  pose proof (parse_avail_encs fs [] H) as E. rewrite app_nil_r in E. rewrite E.
  change (parse_avail []) with (@nil frame, @nil byte). cbv iota beta. rewrite app_nil_r. reflexivity.
Qed.

(** exact consumption, frame by frame: after the frames, the untouched rest *)
Lemma frame_roundtrip_rest : forall fs rest, Forall wf fs -> parse_frame rest = None ->
  parse_avail (encs fs ++ rest) = (fs, rest).
Proof.
  intros fs rest H Hn. rewrite parse_avail_encs by assumption.
  rewrite parse_avail_none by assumption. rewrite app_nil_r. reflexivity.
Qed.

Lemma enc_length : forall f, blen (enc f) = 5 + blen (snd f).
Proof. intros [t b]. unfold enc, be32, blen. cbn [fst snd length app]. lia. Qed.

(** ** Segmentation: a reader fed segment by segment sees the frames of the concatenation *)

(** the pending bytes of [parse_avail] never start with a complete frame *)
Lemma parse_avail_pending : forall k bs fs p, parse_avail_f k bs = (fs, p) -> (length bs <= k)%nat ->
  parse_frame p = None.
Proof.
  induction k as [|k IH]; intros bs fs p H L.
  - destruct bs; [|cbn in L; lia]. cbn in H. inversion H; subst. reflexivity.
  - cbn [parse_avail_f] in H. destruct (parse_frame bs) as [[f rest]|] eqn:E.
    + destruct (parse_avail_f k rest) as [gs q] eqn:E2. inversion H; subst.
      apply parse_frame_shrinks in E. eapply IH; [exact E2 | lia].
    + inversion H; subst. exact E.
Qed.

Lemma parse_avail_app : forall k a b, (length a <= k)%nat ->
  parse_avail (a ++ b) =
  let (fa, pa) := parse_avail_f k a in let (fb, pb) := parse_avail (pa ++ b) in (fa ++ fb, pb).
Proof.
  induction k as [|k IH]; intros a b L.
  - destruct a; [|cbn in L; lia]. cbn. destruct (parse_avail b); reflexivity.
  - cbn [parse_avail_f]. destruct (parse_frame a) as [[f rest]|] eqn:E.
    + pose proof (parse_frame_shrinks _ _ _ E) as S1.
      rewrite (parse_avail_step _ f (rest ++ b)) by (apply parse_frame_mono; exact E).
      rewrite (IH rest b) by lia.
      destruct (parse_avail_f k rest) as [fa pa]. destruct (parse_avail (pa ++ b)) as [fb pb].
      reflexivity.
    + destruct (parse_avail (a ++ b)) as [fb pb]. reflexivity.
Qed.

Lemma feed_all_from : forall segs fs p, parse_frame p = None ->
  fold_left feed segs (fs, p) =
  let (gs, q) := parse_avail (p ++ concat segs) in (fs ++ gs, q).
Proof.
  induction segs as [|s segs IH]; intros fs p Hp.
  - cbn [fold_left concat]. rewrite app_nil_r. rewrite parse_avail_none by assumption.
    rewrite app_nil_r. reflexivity.
  - cbn [fold_left concat]. unfold feed at 2. cbn [fst snd].
    destruct (parse_avail (p ++ s)) as [gs1 q1] eqn:E1.
    assert (Hq : parse_frame q1 = None).
    { unfold parse_avail in E1. eapply parse_avail_pending; [exact E1 | lia]. }
    rewrite IH by assumption.
    rewrite app_assoc. rewrite (parse_avail_app (length (p ++ s)) (p ++ s) (concat segs)) by lia.
    fold (parse_avail (p ++ s)). rewrite E1.
    destruct (parse_avail (q1 ++ concat segs)) as [gs2 q2]. rewrite app_assoc. reflexivity.
Qed.

Lemma feed_all_concat : forall segs, feed_all segs = parse_avail (concat segs).
Proof.
  intros. unfold feed_all. rewrite feed_all_from by reflexivity. cbn [app].
  destruct (parse_avail (concat segs)). reflexivity.
Qed.

(* ------------------------------------------------------------------------------------- *)
(** * Server::recv and the relay loop *)

Lemma encs_cons : forall f fs, encs (f :: fs) = enc f ++ encs fs.
Proof. reflexivity. Qed.
Lemma encs_app : forall a b, encs (a ++ b) = encs a ++ encs b.
Proof. intros. unfold encs. rewrite map_app, concat_app. reflexivity. Qed.
Lemma encs_one : forall f, encs [f] = enc f.
Proof. intros. unfold encs. cbn [map concat]. apply app_nil_r. Qed.

Section RecvProofs.
  Variables (pD pd : Z -> bool).
  Notation recvT := (recv pD pd true).
  Notation loopT := (relay_loop pD pd true).

  (** what one recv() call returns, in terms of the reply stream *)
  Definition recv_post (buf : bytes) (fs : list frame) (res : rres) : Prop :=
    exists pre post s', res = Ret (buf ++ encs pre) s' post /\ fs = pre ++ post /\ pre <> [] /\
      (if da s' then upto_stop fs = pre ++ upto_stop post /\ after_stop fs = after_stop post /\
                     scan true post = true
       else pre = upto_stop fs /\ post = after_stop fs).

  Lemma post_cont : forall f r buf res, is_stop f = false ->
    recv_post (buf ++ enc f) r res -> recv_post buf (f :: r) res.
  Proof.
    intros f r buf res Hs (pre & post & s' & E & Efs & Hne & Hc).
    exists (f :: pre), post, s'. repeat split.
    - rewrite E, encs_cons, app_assoc. reflexivity.
    - rewrite Efs. reflexivity.
    - discriminate.
    - cbn [upto_stop after_stop]. rewrite Hs. destruct (da s').
      + destruct Hc as (A & B & C). rewrite A. repeat split; assumption.
      + destruct Hc as (A & B). rewrite A, B. split; reflexivity.
  Qed.

  Lemma post_break_more : forall f r buf s', is_stop f = false -> da s' = true ->
    scan true r = true -> recv_post buf (f :: r) (Ret (buf ++ enc f) s' r).
  Proof.
    intros f r buf s' Hs Hd Hsc. exists [f], r, s'. repeat split.
    - rewrite encs_one. reflexivity.
    - discriminate.
    - rewrite Hd. cbn [upto_stop after_stop]. rewrite Hs. repeat split; assumption.
  Qed.

  Lemma post_break_stop : forall f r buf s', is_stop f = true -> da s' = false ->
    recv_post buf (f :: r) (Ret (buf ++ enc f) s' r).
  Proof.
    intros f r buf s' Hs Hd. exists [f], r, s'. repeat split.
    - rewrite encs_one. reflexivity.
    - discriminate.
    - rewrite Hd. cbn [upto_stop after_stop]. rewrite Hs. split; reflexivity.
  Qed.

  Lemma recv_spec : forall fs s buf, forallb okframe fs = true -> scan (da s) fs = true ->
    recv_post buf fs (recvT s buf fs).
  Proof.
    induction fs as [|f r IH]; intros s buf Hok Hsc; [discriminate|].
    cbn [forallb] in Hok. apply andb_prop in Hok as [Hf Hr].
    cbn [scan] in Hsc. cbn [recv]. unfold arm.
    unfold okframe in Hf. apply andb_prop in Hf as [_ Hf].
    destruct (kind_of (fst f)) eqn:K.
    - (* Z *)
      destruct (snd f) as [|b tl]; [discriminate|].
      assert (St : is_stop f = true) by (unfold is_stop; rewrite K; reflexivity).
      destruct (b =? 84); [apply post_break_stop; [exact St|reflexivity]|].
      destruct (b =? 73); [apply post_break_stop; [exact St|reflexivity]|].
      destruct (b =? 69); [apply post_break_stop; [exact St|reflexivity]|].
      discriminate.
    - (* E *) apply post_cont; [unfold is_stop; rewrite K; reflexivity|]. apply IH; assumption.
    - (* C *) apply post_cont; [unfold is_stop; rewrite K; reflexivity|]. apply IH; assumption.
    - (* S *) rewrite Hf. apply post_cont; [unfold is_stop; rewrite K; reflexivity|]. apply IH; assumption.
    - (* D *)
      assert (St : is_stop f = false) by (unfold is_stop; rewrite K; reflexivity).
      destruct (pD (blen (buf ++ enc f))).
      + apply post_break_more; [exact St | reflexivity | exact Hsc].
      + apply post_cont; [exact St|]. apply IH; assumption.
    - (* G *) apply post_break_stop; [unfold is_stop; rewrite K; reflexivity | reflexivity].
    - (* H *) apply post_break_more; [unfold is_stop; rewrite K; reflexivity | reflexivity | exact Hsc].
    - (* d *)
      assert (St : is_stop f = false) by (unfold is_stop; rewrite K; reflexivity).
      apply andb_prop in Hsc as [Ha Hsc]. 
      destruct (pd (blen (buf ++ enc f))).
      + apply post_break_more; [exact St | exact Ha | rewrite Ha in Hsc; exact Hsc].
      + apply post_cont; [exact St|]. apply IH; assumption.
    - (* other *) apply post_cont; [unfold is_stop; rewrite K; reflexivity|]. apply IH; assumption.
  Qed.

  Lemma loop_spec : forall fuel fs s acc, (length fs < fuel)%nat ->
    forallb okframe fs = true -> scan (da s) fs = true ->
    exists chunks s', loopT fuel s fs acc = Done (acc ++ chunks) s' (after_stop fs) /\
                      concat chunks = encs (upto_stop fs) /\ da s' = false.
  Proof.
    induction fuel as [|k IH]; intros fs s acc L Hok Hsc; [lia|].
    cbn [relay_loop].
    destruct (recv_spec fs s [] Hok Hsc) as (pre & post & s1 & E & Efs & Hne & Hc).
    rewrite E. cbn [app].
    destruct (da s1) eqn:D1.
    - destruct Hc as (A & B & C).
      assert (L2 : (length post < k)%nat).
      { rewrite Efs, app_length in L. destruct pre; [congruence|cbn in L; lia]. }
      assert (Hok2 : forallb okframe post = true).
      { rewrite Efs, forallb_app in Hok. apply andb_prop in Hok as [_ ?]. assumption. }
      destruct (IH post s1 (acc ++ [encs pre]) L2 Hok2) as (ch & s2 & E2 & Ec & Hd).
      { rewrite D1. exact C. }
      exists (encs pre :: ch), s2. repeat split.
      + rewrite E2, <- app_assoc, B. reflexivity.
      + cbn [concat]. rewrite Ec, A, encs_app. reflexivity.
      + exact Hd.
    - destruct Hc as (A & B). exists [encs pre], s1. repeat split.
      + rewrite B. reflexivity.
      + cbn [concat]. rewrite app_nil_r, A. reflexivity.
      + exact D1.
  Qed.

  Lemma relay_identity : forall fs s, da s = false -> reply_stream fs -> relay_ok fs = true ->
    exists chunks s', relay pD pd true s fs = Done chunks s' (after_stop fs) /\
                      concat chunks = encs (upto_stop fs) /\ da s' = false.
  Proof.
    intros fs s Hs Hr Hk. unfold reply_stream, reply_streamb in Hr. apply andb_prop in Hr as [Hok _].
    unfold relay. destruct (loop_spec (S (length fs)) fs s [] (Nat.lt_succ_diag_r _) Hok) as (ch & s' & E & Ec & Hd).
    { rewrite Hs. exact Hk. }
    exists ch, s'. repeat split; assumption.
  Qed.

  (** without CopyInResponse before the first ReadyForQuery the answer ends at that 'Z' *)
  Lemma kind_G : forall t, kind_of t = KG -> t = 71.
  Proof.
    intros t. unfold kind_of.
    repeat match goal with |- context [if ?c then _ else _] => destruct c eqn:? end; try discriminate.
    intros _. apply Z.eqb_eq. assumption.
  Qed.

  Definition noG (fs : list frame) : bool := forallb (fun f => negb (fst f =? 71)) fs.

  Lemma stop_is_Z : forall fs, noG fs = true ->
    upto_stop fs = upto_first_Z fs /\ after_stop fs = after_first_Z fs.
  Proof.
    induction fs as [|f r IH]; intros H; [split; reflexivity|].
    cbn [noG forallb] in H. apply andb_prop in H as [Hf Hr]. destruct (IH Hr) as [A B].
    cbn [upto_stop after_stop upto_first_Z after_first_Z]. unfold is_stop, is_Z.
    destruct (kind_of (fst f)) eqn:K; try (rewrite A, B; split; reflexivity); try (split; reflexivity).
    apply kind_G in K. rewrite K in Hf. discriminate.
  Qed.

  Lemma relay_identity_Z : forall fs s, da s = false -> reply_stream fs -> relay_ok fs = true ->
    noG fs = true ->
    exists chunks s', relay pD pd true s fs = Done chunks s' (after_first_Z fs) /\
                      concat chunks = encs (upto_first_Z fs) /\ da s' = false.
  Proof.
    intros fs s Hs Hr Hk Hg. destruct (stop_is_Z fs Hg) as [A B]. rewrite <- A, <- B.
    apply relay_identity; assumption.
  Qed.

  (** a stream without CopyData needs no guard at all *)
  Lemma scan_no_copydata : forall fs a, forallb (fun f => negb (fst f =? 100)) fs = true ->
    existsb is_stop fs = true -> scan a fs = true.
  Proof.
    induction fs as [|f r IH]; intros a Hn Hs; [discriminate|].
    cbn [forallb] in Hn. apply andb_prop in Hn as [Hf Hn]. cbn [existsb] in Hs. cbn [scan].
    unfold is_stop in Hs.
    destruct (kind_of (fst f)) eqn:K; cbn [orb] in Hs; try reflexivity; try (apply IH; assumption).
    exfalso. unfold kind_of in K.
    repeat match type of K with context [if ?c then _ else _] => destruct c eqn:? end; try discriminate.
  Qed.

  Lemma forall_okframe_wf : forall fs, forallb okframe fs = true -> Forall wf fs.
  Proof.
    induction fs as [|f r IH]; intros H; constructor.
    - cbn [forallb] in H. apply andb_prop in H as [H _]. unfold okframe in H.
      apply andb_prop in H as [H _]. exact H.
    - apply IH. cbn [forallb] in H. apply andb_prop in H as [_ H]. exact H.
  Qed.

  (** byte level: whatever the segmentation of the backend's bytes, the client is sent exactly
      the bytes of the answer *)
  Lemma wire_identity : forall fs segs s, da s = false -> reply_stream fs -> relay_ok fs = true ->
    concat segs = encs fs ->
    exists chunks s', relay_segments pD pd true s segs = Done chunks s' (after_stop fs) /\
                      concat chunks = encs (upto_stop fs) /\ da s' = false.
  Proof.
    intros fs segs s Hs Hr Hk Hc. unfold relay_segments. rewrite feed_all_concat, Hc.
    assert (W : Forall wf fs).
    { apply forall_okframe_wf. unfold reply_stream, reply_streamb in Hr. apply andb_prop in Hr as [? _]. assumption. }
    pose proof (parse_avail_encs fs [] W) as E. rewrite app_nil_r in E. rewrite E.
    change (parse_avail []) with (@nil frame, @nil byte). cbv iota beta. rewrite app_nil_r. cbn [fst].
    apply relay_identity; assumption.
  Qed.

  Lemma chunking_irrelevant : forall segs1 segs2 s gclr, concat segs1 = concat segs2 ->
    feed_all segs1 = feed_all segs2 /\
    relay_segments pD pd gclr s segs1 = relay_segments pD pd gclr s segs2.
  Proof.
    intros segs1 segs2 s g H. unfold relay_segments. rewrite !feed_all_concat, H. split; reflexivity.
  Qed.
End RecvProofs.

(* ------------------------------------------------------------------------------------- *)
(** * Client side *)

Definition is_nil {A} (l : list A) : bool := match l with [] => true | _ => false end.

Fixpoint closed_end (fresh : bool) (ms : list frame) : bool :=
  match ms with
  | [] => fresh
  | f :: r => if fst f =? 83 then closed_end true r
              else if batch_msg f then closed_end false r
              else closed_end fresh r
  end.

Fixpoint count_relay (acts : list act) : nat :=
  match acts with [] => O | RelayLoop :: r => S (count_relay r) | _ :: r => count_relay r end.

Lemma sent_app : forall a b, sent (a ++ b) = sent a ++ sent b.
Proof.
  induction a as [|x a IH]; intros b; [reflexivity|].
  destruct x; cbn [app sent]; rewrite ?IH, ?app_assoc; reflexivity.
Qed.

Lemma batch_msg_not_S : forall f, batch_msg f = true -> (fst f =? 83) = false /\ (fst f =? 81) = false /\ (fst f =? 72) = false.
Proof.
  intros [t b]. unfold batch_msg. cbn [fst snd]. intros H.
  repeat (apply orb_prop in H as [H|H]); try (apply andb_prop in H as [H _]);
    apply Z.eqb_eq in H; subst t; repeat split; reflexivity.
Qed.

Section ClientProofs.
  Variables (pc : Z -> bool) (cloop : bool).

  Lemma cstep_batch : forall st f, batch_msg f = true ->
    cstep pc cloop false st f = Some (mkC (ext st ++ [f]) (cbuf st), []).
  Proof.
    intros st [t b] H. unfold batch_msg in H. cbn [fst snd] in H. unfold cstep. cbn [fst snd].
    repeat (apply orb_prop in H as [H|H]).
    - apply Z.eqb_eq in H; subst t; reflexivity.
    - apply Z.eqb_eq in H; subst t; reflexivity.
    - apply Z.eqb_eq in H; subst t; reflexivity.
    - apply Z.eqb_eq in H; subst t; reflexivity.
    - apply andb_prop in H as [H C]. apply Z.eqb_eq in H; subst t. cbn. rewrite C. reflexivity.
  Qed.

  Lemma crun_cons : forall m st f r, crun pc cloop m st (f :: r) =
    match cstep pc cloop m st f with
    | None => None
    | Some (st', a) => match crun pc cloop m st' r with
                       | None => None
                       | Some (st'', b) => Some (st'', a ++ b)
                       end
    end.
  Proof. reflexivity. Qed.

  Lemma cstep_Q : forall st b, cstep pc cloop false st (81, b) = Some (st, [SendSrv (enc (81, b)); RelayLoop]).
  Proof. reflexivity. Qed.

  Lemma cstep_S : forall f0 e b, (fst f0 =? 83) = false ->
    cstep pc cloop false (mkC (f0 :: e) []) (83, b) =
    Some (cst0, [SendSrv (encs (f0 :: e) ++ enc (83, b)); RelayLoop]).
  Proof.
    intros f0 e b H. unfold cstep. cbn [fst snd ext cbuf].
    change (83 =? 81) with false. change (83 =? 80) with false. change (83 =? 66) with false.
    change (83 =? 68) with false. change (83 =? 69) with false. change (83 =? 67) with false.
    change (83 =? 83) with true. cbn [orb andb app].
    rewrite encs_cons. unfold enc at 1. cbn [app]. rewrite H. reflexivity.
  Qed.

  Lemma crun_inv : forall ms e,
    forallb batch_msg e = true -> forallb req_msg ms = true -> known_flush ms = false ->
    known_lone_sync_from (is_nil e) ms = false -> q_boundary (is_nil e) ms = true ->
    exists st' acts, crun pc cloop false (mkC e []) ms = Some (st', acts) /\ cbuf st' = [] /\
      encs e ++ encs ms = sent acts ++ encs (ext st') /\
      is_nil (ext st') = closed_end (is_nil e) ms /\
      count_recv_once acts = O.
  Proof.
    induction ms as [|f ms IH]; intros e He Hr Hf Hl Hq.
    - exists (mkC e []), []. cbn. rewrite app_nil_r. repeat split; reflexivity.
    - cbn [forallb] in Hr. apply andb_prop in Hr as [Hrf Hr].
      unfold known_flush in Hf. cbn [existsb] in Hf. apply orb_false_elim in Hf as [Hf1 Hf].
      cbn [known_lone_sync_from] in Hl. cbn [q_boundary] in Hq. rewrite crun_cons. cbn [closed_end].
      unfold req_msg in Hrf.
      destruct (batch_msg f) eqn:B.
      + (* Parse / Bind / Describe / Execute / Close: buffered *)
        destruct (batch_msg_not_S f B) as (N83 & N81 & _). rewrite N83 in *. rewrite N81 in Hq.
        rewrite cstep_batch by exact B. cbn [ext cbuf].
        destruct (IH (e ++ [f])) as (st' & acts & E & Hb & Heq & Hn & Hc); try assumption.
        { rewrite forallb_app, He. cbn [forallb]. rewrite B. reflexivity. }
        { destruct e; exact Hl. }
        { destruct e; exact Hq. }
        rewrite E. exists st', acts. repeat split; try assumption.
        * rewrite <- Heq, encs_app, encs_one, encs_cons, <- app_assoc. reflexivity.
        * rewrite Hn. destruct e; reflexivity.
      + rewrite orb_false_r in Hrf. destruct f as [t b]. cbn [fst snd] in *. rewrite Hf1, orb_false_r in Hrf.
        apply orb_prop in Hrf as [H81|H83].
        * (* Query *)
          apply Z.eqb_eq in H81. subst t.
          change (81 =? 83) with false in *. change (81 =? 81) with true in *. cbv iota in Hl, Hq |- *.
          apply andb_prop in Hq as [Hfresh Hq]. destruct e; [|discriminate]. cbn [is_nil] in *.
          rewrite cstep_Q.
          destruct (IH []) as (st' & acts & E & Hb & Heq & Hn & Hc); try assumption; try reflexivity.
          rewrite E. exists st', ([SendSrv (enc (81, b)); RelayLoop] ++ acts). repeat split; try assumption.
          cbn [sent app]. rewrite encs_cons, <- app_assoc.
          change (encs []) with (@nil byte) in *. cbn [app] in *. rewrite Heq. reflexivity.
        * (* Sync *)
          apply Z.eqb_eq in H83. subst t.
          change (83 =? 83) with true in *. cbv iota in Hl, Hq |- *.
          apply orb_false_elim in Hl as [Hne Hl].
          destruct e as [|f0 e']; [discriminate|]. cbn [is_nil] in *.
          cbn [forallb] in He. apply andb_prop in He as [Hf0 He'].
          destruct (batch_msg_not_S f0 Hf0) as (N83 & _ & _).
          rewrite cstep_S by exact N83.
          destruct (IH []) as (st' & acts & E & Hb & Heq & Hn & Hc); try assumption; try reflexivity.
          unfold cst0. rewrite E. eexists st', ([SendSrv _; RelayLoop] ++ acts). repeat split; try assumption.
          cbn [sent app]. change (encs []) with (@nil byte) in Heq. cbn [app] in Heq.
          rewrite <- !app_assoc, <- Heq. rewrite (encs_cons (83, b) ms). reflexivity.
  Qed.

  (** COPY IN: CopyData* then CopyDone | CopyFail, the server in COPY mode *)
  Lemma copy_in_inv : forall ds x b0 e,
    forallb (fun f => fst f =? 100) ds = true -> (fst e =? 99) || (fst e =? 102) = true ->
    exists acts, crun pc cloop true (mkC x b0) (ds ++ [e]) = Some (mkC x [], acts) /\
      sent acts = b0 ++ encs (ds ++ [e]) /\
      (count_relay acts + count_recv_once acts = 1)%nat /\
      exists pre, acts = pre ++ [if cloop then RelayLoop else RecvOnce].
  Proof.
    induction ds as [|d ds IH]; intros x b0 e Hd He.
    - cbn [app]. rewrite crun_cons. destruct e as [t b]. cbn [fst] in He.
      assert (Hs : cstep pc cloop true (mkC x b0) (t, b) =
                   Some (mkC x [], [SendSrv (b0 ++ enc (t, b)); if cloop then RelayLoop else RecvOnce])).
      { apply orb_prop in He as [He|He]; apply Z.eqb_eq in He; subst t; reflexivity. }
      rewrite Hs. cbn [crun]. eexists. split; [reflexivity|]. repeat split.
      + cbn [sent app]. rewrite encs_one. destruct cloop; cbn [sent]; rewrite app_nil_r; reflexivity.
      + destruct cloop; reflexivity.
      + exists [SendSrv (b0 ++ enc (t, b))]. reflexivity.
    - cbn [forallb] in Hd. apply andb_prop in Hd as [H100 Hd]. destruct d as [t b]. cbn [fst] in H100.
      apply Z.eqb_eq in H100. subst t. cbn [app]. rewrite crun_cons.
      assert (Hs : cstep pc cloop true (mkC x b0) (100, b) =
                   if pc (blen (b0 ++ enc (100, b))) then Some (mkC x [], [SendSrv (b0 ++ enc (100, b))])
                   else Some (mkC x (b0 ++ enc (100, b)), [])) by reflexivity.
      rewrite Hs.
      destruct (pc (blen (b0 ++ enc (100, b)))).
      + destruct (IH x [] e Hd He) as (acts & E & Hsn & Hc & pre & Hp). rewrite E.
        exists (SendSrv (b0 ++ enc (100, b)) :: acts). repeat split.
        * cbn [sent app]. rewrite Hsn. cbn [app]. rewrite encs_cons, <- app_assoc. reflexivity.
        * exact Hc.
        * exists (SendSrv (b0 ++ enc (100, b)) :: pre). rewrite Hp. reflexivity.
      + destruct (IH x (b0 ++ enc (100, b)) e Hd He) as (acts & E & Hsn & Hc & pre & Hp). rewrite E.
        exists acts. repeat split.
        * rewrite Hsn, encs_cons, <- app_assoc. reflexivity.
        * exact Hc.
        * exists pre. exact Hp.
  Qed.
End ClientProofs.

Lemma batch_identity : forall pc cloop ms,
  forallb req_msg ms = true -> known_c03 ms = false -> q_boundary true ms = true ->
  exists st' acts, crun pc cloop false cst0 ms = Some (st', acts) /\ cbuf st' = [] /\
    sent acts ++ encs (ext st') = encs ms /\
    (closed_end true ms = true -> st' = cst0 /\ sent acts = encs ms) /\
    count_recv_once acts = O.
Proof.
  intros pc cloop ms Hr Hk Hq. unfold known_c03 in Hk. apply orb_false_elim in Hk as [Hf Hl].
  destruct (crun_inv pc cloop ms [] eq_refl Hr Hf Hl Hq) as (st' & acts & E & Hb & Heq & Hn & Hc).
  exists st', acts. split; [exact E|]. split; [exact Hb|]. split; [rewrite <- Heq; reflexivity|].
  split; [|exact Hc].
  intros Hce. cbn [is_nil] in Hn. rewrite Hce in Hn. destruct st' as [e b]. cbn [ext cbuf] in *.
  destruct e; [|discriminate]. subst b. split; [reflexivity|].
  change (encs []) with (@nil byte) in Heq. cbn [app] in Heq. rewrite app_nil_r in Heq.
  symmetry. exact Heq.
Qed.

Lemma copy_in_identity : forall pc cloop ds e,
  forallb (fun f => fst f =? 100) ds = true -> (fst e =? 99) || (fst e =? 102) = true ->
  exists acts, crun pc cloop true cst0 (ds ++ [e]) = Some (cst0, acts) /\
    sent acts = encs (ds ++ [e]) /\
    exists pre, acts = pre ++ [if cloop then RelayLoop else RecvOnce] /\
                count_relay pre = O /\ count_recv_once pre = O.
Proof.
  intros pc cloop ds e Hd He.
  destruct (copy_in_inv pc cloop ds [] [] e Hd He) as (acts & E & Hs & Hc & pre & Hp).
  exists acts. split; [exact E|]. split; [exact Hs|]. exists pre. split; [exact Hp|].
  subst acts. clear - Hc.
  assert (A : forall l x, count_relay (l ++ [x]) = (count_relay l + count_relay [x])%nat).
  { induction l as [|y l IH]; intros; [reflexivity|]. destruct y; cbn [app count_relay]; rewrite ?IH; reflexivity. }
  assert (B : forall l x, count_recv_once (l ++ [x]) = (count_recv_once l + count_recv_once [x])%nat).
  { induction l as [|y l IH]; intros; [reflexivity|]. destruct y; cbn [app count_recv_once]; rewrite ?IH; reflexivity. }
  rewrite A, B in Hc. destruct cloop; cbn in Hc; lia.
Qed.
