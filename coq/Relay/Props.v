(** C03 — queries and replies are relayed complete, in order and unmodified.
    Property theorems only: each is closed by [exact <lemma>] and audited with
    [Print Assumptions].  The thresholds / loop shapes are the ones coq/Gen/RelayConsts.v was
    generated with from /repo/src/server.rs and /repo/src/client.rs on this run. *)
From Coq Require Import ZArith List Bool.
From PV Require Import Gen.RelayConsts Relay.Model Relay.Proofs Relay.Witness.
Import ListNotations.
Open Scope Z_scope.

(** ** Framing (messages.rs read_message) *)

(** every sequence of well-formed frames — any body size below 2^31 - 4 — is read back
    frame by frame, nothing is left over *)
Theorem c03_frame_roundtrip : forall fs, Forall wf fs -> parse_all (encs fs) = Some fs.
Proof. exact frame_roundtrip. Qed.
Print Assumptions c03_frame_roundtrip.

(** exact consumption: one frame takes 1 + 4 + |body| bytes and leaves the rest untouched *)
Theorem c03_frame_exact_consumption : forall f rest, wf f ->
  parse_frame (enc f ++ rest) = Some (f, rest) /\ blen (enc f) = 5 + blen (snd f).
Proof. exact (fun f rest H => conj (parse_enc f rest H) (enc_length f)). Qed.
Print Assumptions c03_frame_exact_consumption.

Theorem c03_frames_then_rest : forall fs rest, Forall wf fs -> parse_frame rest = None ->
  parse_avail (encs fs ++ rest) = (fs, rest).
Proof. exact frame_roundtrip_rest. Qed.
Print Assumptions c03_frames_then_rest.

(** ** Backend -> client (Server::recv + send_and_receive_loop) *)

(** For every reply stream — any number and size of rows, any mix of N/S/E/1/2/t/T/n/s/I/C/D/H/d/c
    frames — the chunks forwarded to the client concatenate to exactly the backend's bytes up
    to and including the first ReadyForQuery (or CopyInResponse), the following frames stay
    unread, and data_available is false again. *)
Theorem c03_relay_identity : forall fs s, da s = false -> reply_stream fs -> relay_ok fs = true ->
  exists chunks s', relay_now s fs = Done chunks s' (after_stop fs) /\
                    concat chunks = encs (upto_stop fs) /\ da s' = false.
Proof. exact (relay_identity recv_break_D recv_break_d). Qed.
Print Assumptions c03_relay_identity.

(** the identity does not depend on the thresholds at all *)
Theorem c03_relay_identity_any_threshold : forall pD pd fs s, da s = false -> reply_stream fs ->
  relay_ok fs = true ->
  exists chunks s', relay pD pd true s fs = Done chunks s' (after_stop fs) /\
                    concat chunks = encs (upto_stop fs) /\ da s' = false.
Proof. exact relay_identity. Qed.
Print Assumptions c03_relay_identity_any_threshold.

(** replies without CopyInResponse: everything up to and including ReadyForQuery *)
Theorem c03_relay_identity_Z : forall fs s, da s = false -> reply_stream fs -> relay_ok fs = true ->
  noG fs = true ->
  exists chunks s', relay_now s fs = Done chunks s' (after_first_Z fs) /\
                    concat chunks = encs (upto_first_Z fs) /\ da s' = false.
Proof. exact (relay_identity_Z recv_break_D recv_break_d). Qed.
Print Assumptions c03_relay_identity_Z.

(** the guard only concerns CopyData: a reply without 'd' frames always satisfies it *)
Theorem c03_relay_ok_without_copydata : forall fs,
  forallb (fun f => negb (fst f =? 100)) fs = true -> existsb is_stop fs = true -> relay_ok fs = true.
Proof. exact (fun fs => scan_no_copydata fs false). Qed.
Print Assumptions c03_relay_ok_without_copydata.

(** ... and it is needed: CopyData that no CopyOutResponse announced cuts the reply short *)
Theorem c03_stray_copydata_refuted :
  exists fs, reply_stream fs /\ relay_ok fs = false /\
             relay_now bel0 fs = Done [encs [fd 9000]] bel0 [fZ].
Proof. exact stray_copydata_truncates. Qed.
Print Assumptions c03_stray_copydata_refuted.

(** F9, repaired in /repo 8562805: with the 'G' arm as it was, `T D C G` (the reply to
    `SELECT 1; COPY t FROM STDIN`) is forwarded and then the loop waits on the backend. *)
Theorem c03_relay_stuck_refuted :
  exists fs, reply_stream fs /\ scan_old false fs = false /\
             relay_before_8562805 bel0 fs = LBlocked [encs fs].
Proof. exact relay_stuck_before_8562805. Qed.
Print Assumptions c03_relay_stuck_refuted.

(** byte level: the backend's bytes cut into TCP segments in any way *)
Theorem c03_wire_identity : forall fs segs s, da s = false -> reply_stream fs -> relay_ok fs = true ->
  concat segs = encs fs ->
  exists chunks s', relay_segments_now s segs = Done chunks s' (after_stop fs) /\
                    concat chunks = encs (upto_stop fs) /\ da s' = false.
Proof. exact (wire_identity recv_break_D recv_break_d). Qed.
Print Assumptions c03_wire_identity.

(** the frames seen and everything relayed are functions of the byte stream *)
Theorem c03_chunking_irrelevant : forall segs1 segs2 s, concat segs1 = concat segs2 ->
  feed_all segs1 = feed_all segs2 /\ relay_segments_now s segs1 = relay_segments_now s segs2.
Proof. exact (fun a b s H => chunking_irrelevant recv_break_D recv_break_d a b s true H). Qed.
Print Assumptions c03_chunking_irrelevant.

Theorem c03_segmented_reader : forall segs, feed_all segs = parse_avail (concat segs).
Proof. exact feed_all_concat. Qed.
Print Assumptions c03_segmented_reader.

(** ** Client -> backend (transaction-loop arms, statement caching off) *)

(** Simple queries and Parse/Bind/Describe/Execute/Close...Sync batches: the bytes sent to the
    server, plus the frames of a batch that is still open, are the client's frames in order;
    after a closing Query/Sync nothing is left. *)
Theorem c03_batch_identity : forall ms,
  forallb req_msg ms = true -> known_c03 ms = false -> q_boundary true ms = true ->
  exists st' acts, crun_now false cst0 ms = Some (st', acts) /\ cbuf st' = [] /\
    sent acts ++ encs (ext st') = encs ms /\
    (closed_end true ms = true -> st' = cst0 /\ sent acts = encs ms) /\
    count_recv_once acts = O.
Proof. exact (batch_identity client_copy_flush copy_done_loops). Qed.
Print Assumptions c03_batch_identity.

(** COPY IN: CopyData of any number and size, then CopyDone | CopyFail: everything is sent, in
    order, and the reply is then read with the relay loop (exactly once, at the end). *)
Theorem c03_copy_in_identity : forall ds e,
  forallb (fun f => fst f =? 100) ds = true -> (fst e =? 99) || (fst e =? 102) = true ->
  exists acts, crun_now true cst0 (ds ++ [e]) = Some (cst0, acts) /\
    sent acts = encs (ds ++ [e]) /\
    exists pre, acts = pre ++ [RelayLoop] /\ count_relay pre = O /\ count_recv_once pre = O.
Proof. exact (copy_in_identity client_copy_flush copy_done_loops). Qed.
Print Assumptions c03_copy_in_identity.

(** known deviations (known_findings.jsonl F19, F20) and the ordering remark *)
Theorem c03_flush_dropped_refuted :
  exists ms st acts, forallb req_msg ms = true /\ known_c03 ms = true /\
    crun_now false cst0 ms = Some (st, acts) /\ In (Dropped cH) acts /\
    sent acts ++ encs (ext st) <> encs ms.
Proof. exact flush_dropped. Qed.
Print Assumptions c03_flush_dropped_refuted.

Theorem c03_lone_sync_refuted :
  exists ms, forallb req_msg ms = true /\ known_c03 ms = true /\
    crun_now false cst0 ms = Some (cst0, [SynthReady]) /\ sent [SynthReady] <> encs ms.
Proof. exact lone_sync_local. Qed.
Print Assumptions c03_lone_sync_refuted.

Theorem c03_query_inside_batch_refuted :
  exists ms st acts, forallb req_msg ms = true /\ known_c03 ms = false /\ q_boundary true ms = false /\
    crun_now false cst0 ms = Some (st, acts) /\ sent acts = encs [cQ; cP; cS] /\ sent acts <> encs ms.
Proof. exact query_overtakes_batch. Qed.
Print Assumptions c03_query_inside_batch_refuted.

(** F21c (known): extended-protocol COPY, the reply to CopyDone has no ReadyForQuery yet *)
Theorem c03_extended_copy_blocks_refuted : relay_now (mkBel false true) [fC] = LBlocked [].
Proof. exact extended_copy_blocks. Qed.
Print Assumptions c03_extended_copy_blocks_refuted.

(** F21a/b, repaired in /repo fd4aac1: one recv() after CopyDone *)
Theorem c03_copydone_single_recv_refuted :
  let fs := [fC; fT; fD 9000; fD 3; fC; fZ] in
  reply_stream fs /\ single_ok recv_break_D recv_break_d 0 fs = false /\
  recv_now (mkBel false true) [] fs = Ret (encs [fC; fT; fD 9000]) (mkBel true false) [fD 3; fC; fZ] /\
  (exists pre, crun_before_fd4aac1 true cst0 [cd 2; cc] = Some (cst0, pre ++ [RecvOnce])).
Proof. exact single_recv_truncated_before_fd4aac1. Qed.
Print Assumptions c03_copydone_single_recv_refuted.

(** T1: the `match code` arms found in server.rs have the signature of the modelled [arm] *)
Theorem c03_arm_table_is_model :
  map (arm_sig recv_break_D recv_break_d) (map fst recv_arm_sigs) = recv_arm_sigs /\
  copy_done_outside_copy_dropped = true /\ sync_in_copy_dropped = true /\
  copy_done_release_checks_copy_mode = true.
Proof. exact arm_sigs_match. Qed.
Print Assumptions c03_arm_table_is_model.

(* ------------------------------------------------------------------------------------- *)
(** ** Non-vacuity: the threshold.  T (7 bytes) + one DataRow whose encoding brings the buffer to
    exactly recv_thr_D - 1 / recv_thr_D / recv_thr_D + 1 bytes, then C, Z. *)
Definition row_to (total : Z) : frame := fD (total - blen (enc fT) - 5).
Definition chunk_lens (r : lres) : option (list Z) :=
  match r with Done cs _ _ => Some (map blen cs) | _ => None end.

Example thr_minus_1 : chunk_lens (relay_now bel0 [fT; row_to (recv_thr_D - 1); fC; fZ]) = Some [recv_thr_D - 1 + 14 + 6].
Proof. vm_compute. reflexivity. Qed.
Example thr_exact : chunk_lens (relay_now bel0 [fT; row_to recv_thr_D; fC; fZ]) = Some [recv_thr_D; 14 + 6].
Proof. vm_compute. reflexivity. Qed.
Example thr_plus_1 : chunk_lens (relay_now bel0 [fT; row_to (recv_thr_D + 1); fC; fZ]) = Some [recv_thr_D + 1; 14 + 6].
Proof. vm_compute. reflexivity. Qed.
(** two rows: the second one crosses the threshold; multiples of the threshold *)
Example thr_second_row : chunk_lens (relay_now bel0 [fT; fD 4000; row_to (recv_thr_D - 4005); fD 10; fC; fZ])
                         = Some [recv_thr_D; 15 + 14 + 6].
Proof. vm_compute. reflexivity. Qed.
Example thr_multiple : chunk_lens (relay_now bel0 [row_to (recv_thr_D + 7); fD (recv_thr_D - 5); fD (recv_thr_D - 6); fD 0; fC; fZ])
                       = Some [recv_thr_D; recv_thr_D; recv_thr_D - 1 + 5; 14 + 6].
Proof. vm_compute. reflexivity. Qed.
(** COPY OUT: H is returned at once; CopyData accumulates up to the threshold; c C Z end it *)
Example copy_out_chunks : chunk_lens (relay_now bel0 [fH; fd (recv_thr_d - 10); fd 0; fd 10; fc; fC; fZ])
                          = Some [10; recv_thr_d; 15 + 5 + 14 + 6].
Proof. vm_compute. reflexivity. Qed.
Example copy_out_chunks_below : chunk_lens (relay_now bel0 [fH; fd (recv_thr_d - 11); fd 0; fd 10; fc; fC; fZ])
                          = Some [10; recv_thr_d - 1 + 15; 5 + 14 + 6].
Proof. vm_compute. reflexivity. Qed.
(** notices, parameter status, an error in mid-stream, a second reply left unread *)
Example mixed_stream :
  relay_now bel0 [fN; fT; fD 5; fS; fD 5; fE; fZ; fT; fZ] =
  Done [encs [fN; fT; fD 5; fS; fD 5; fE; fZ]] bel0 [fT; fZ].
Proof. vm_compute. reflexivity. Qed.
Example repaired_TDCG : relay_now bel0 [fT; fD 3; fC; fG] = Done [encs [fT; fD 3; fC; fG]] (mkBel false true) [].
Proof. exact relay_TDCG_now. Qed.
(** a ReadyForQuery with an unknown status / a ParameterStatus without its strings fail recv() *)
Example bad_status : relay_now bel0 [fT; (90, [88])] = LFailed [].
Proof. vm_compute. reflexivity. Qed.
Example bad_param_status : relay_now bel0 [(83, [97; 0; 98]); fZ] = LFailed [].
Proof. vm_compute. reflexivity. Qed.
(** framing: header cut, short body, length below 4, negative length *)
Example pf_short : parse_frame [90; 0; 0; 0] = None /\ bad_header [90; 0; 0; 0] = false.
Proof. split; reflexivity. Qed.
Example pf_body_short : parse_frame [90; 0; 0; 0; 5] = None /\ bad_header [90; 0; 0; 0; 5] = false.
Proof. split; reflexivity. Qed.
Example pf_len3 : parse_frame [90; 0; 0; 0; 3; 73] = None /\ bad_header [90; 0; 0; 0; 3; 73] = true.
Proof. split; reflexivity. Qed.
Example pf_negative : parse_frame [90; 255; 255; 255; 255; 73] = None /\ bad_header [90; 255; 255; 255; 255; 73] = true.
Proof. split; reflexivity. Qed.
Example pf_ok : parse_frame [90; 0; 0; 0; 5; 73; 84] = Some ((90, [73]), [84]).
Proof. reflexivity. Qed.
Example feed_inside_header : feed_all [[90; 0]; [0; 0]; [5]; [73; 84; 0]; [0; 0; 4]] = ([(90, [73]); (84, [])], []).
Proof. vm_compute. reflexivity. Qed.
(** client side: CopyData flushes around client_copy_thr *)
Example copy_in_flush_points :
  map (fun a => match a with SendSrv b => blen b | _ => -1 end)
      (match crun_now true cst0 [cd (client_copy_thr - 5); cd 0; cd 10; cc] with Some (_, a) => a | None => [] end)
  = [client_copy_thr + 5; 15 + 5; -1].
Proof. vm_compute. reflexivity. Qed.
