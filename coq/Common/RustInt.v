(** Rust fixed-width integer operations, written out over [N] (unsigned) and [Z]
    (signed).  These are the primitives the translator [translate/rs_arith2v.py]
    emits; their meaning is the Rust reference semantics of the corresponding
    operator on a 64-bit target. *)
From Coq Require Import ZArith NArith Lia Bool.
Open Scope N_scope.

Definition two32 : N := 4294967296.
Definition two64 : N := 18446744073709551616.

Definition u32_wadd (a b : N) : N := (a + b) mod two32.
Definition u32_wsub (a b : N) : N := (a + (two32 - b mod two32)) mod two32.
(* plain [+]: panics on overflow in debug builds, wraps in release; the value, when
   no overflow occurs, is the same *)
Definition u32_add (a b : N) : N := (a + b) mod two32.
Definition u32_xor (a b : N) : N := N.lxor a b.
Definition u32_or (a b : N) : N := N.lor a b.
Definition u32_and (a b : N) : N := N.land a b.
Definition u32_shl (a k : N) : N := (N.shiftl a k) mod two32.
Definition u32_shr (a k : N) : N := N.shiftr a k.
Definition u32_not (a : N) : N := two32 - 1 - a.
Definition u32_sub (a b : N) : N := a - b.          (* plain [-] on in-range operands *)

Definition u64_wadd (a b : N) : N := (a + b) mod two64.
Definition u64_wsub (a b : N) : N := (a + (two64 - b mod two64)) mod two64.
Definition u64_add (a b : N) : N := (a + b) mod two64.
Definition u64_xor (a b : N) : N := N.lxor a b.
Definition u64_or (a b : N) : N := N.lor a b.
Definition u64_and (a b : N) : N := N.land a b.
Definition u64_shl (a k : N) : N := (N.shiftl a k) mod two64.
Definition u64_shr (a k : N) : N := N.shiftr a k.
Definition u64_not (a : N) : N := two64 - 1 - a.

(* casts *)
Definition cast_u64_u32 (a : N) : N := a mod two32.
Definition cast_u32_u64 (a : N) : N := a.
Definition cast_u64_usize (a : N) : N := a.           (* 64-bit target *)
Definition cast_usize_u32 (a : N) : N := a mod two32.
Definition cast_u32_u32 (a : N) : N := a.
Definition cast_i64_u32 (k : Z) : N := Z.to_N (k mod 4294967296)%Z.
Definition cast_i64_u64 (k : Z) : N := Z.to_N (k mod 18446744073709551616)%Z.
Definition i64_shr (k : Z) (s : N) : Z := Z.shiftr k (Z.of_N s).   (* arithmetic shift *)
Definition i64_ge (a b : Z) : bool := Z.geb a b.
Definition i64_lt (a b : Z) : bool := Z.ltb a b.

Definition usize_rem (a b : N) : N := a mod b.        (* panics when b = 0 *)

Definition in_i64 (k : Z) : Prop := (- 9223372036854775808 <= k < 9223372036854775808)%Z.
Definition in_i64b (k : Z) : bool := andb (Z.leb (- 9223372036854775808) k) (Z.ltb k 9223372036854775808).
