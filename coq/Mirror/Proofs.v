(** C20 — lemmas about the mirroring model (coq/Mirror/Model.v). *)
From Coq Require Import List Bool Arith NArith Lia.
From PV Require Import Gen.MirrorConsts Mirror.Model.
Import ListNotations.

(** * Subsequences *)

Lemma Subseq_refl {A} (l : list A) : Subseq l l.
Proof. induction l; constructor; auto. Qed.

Lemma Subseq_trans {A} (l1 l2 l3 : list A) : Subseq l1 l2 -> Subseq l2 l3 -> Subseq l1 l3.
Proof.
  intros H1 H2. revert l1 H1. induction H2; intros l0 H1.
  - inversion H1; subst. constructor.
  - inversion H1; subst.
    + constructor.
    + apply sub_take. apply IHSubseq. assumption.
    + apply sub_skip. apply IHSubseq. assumption.
  - apply sub_skip. apply IHSubseq. assumption.
Qed.

Lemma Subseq_app_r {A} (l1 l2 l3 : list A) : Subseq l1 l2 -> Subseq l1 (l2 ++ l3).
Proof. induction 1; simpl; constructor; auto. Qed.

Lemma Subseq_snoc {A} (l1 l2 : list A) x : Subseq l1 l2 -> Subseq (l1 ++ [x]) (l2 ++ [x]).
Proof.
  induction 1; simpl.
  - induction l; simpl.
    + apply sub_take. constructor.
    + apply sub_skip. assumption.
  - apply sub_take. assumption.
  - apply sub_skip. assumption.
Qed.

Lemma Subseq_app_head {A} (h r r' : list A) : Subseq r r' -> Subseq (h ++ r) (h ++ r').
Proof. intros H. induction h; simpl; [assumption | apply sub_take; assumption]. Qed.

Lemma Subseq_In {A} (l1 l2 : list A) x : Subseq l1 l2 -> In x l1 -> In x l2.
Proof.
  induction 1; simpl; intros HI.
  - contradiction.
  - destruct HI; auto.
  - auto.
Qed.

Lemma Subseq_length {A} (l1 l2 : list A) : Subseq l1 l2 -> length l1 <= length l2.
Proof. induction 1; simpl; lia. Qed.

Lemma subseqb_sound {A} (eqb : A -> A -> bool) :
  (forall a b, eqb a b = true -> a = b) ->
  forall l2 l1, subseqb eqb l1 l2 = true -> Subseq l1 l2.
Proof.
  intros E l2. induction l2 as [|y r2 IH]; intros l1 H.
  - destruct l1; [constructor | discriminate].
  - destruct l1 as [|x r1]; [constructor|]. simpl in H.
    destruct (eqb x y) eqn:Q.
    + apply E in Q. subst. apply sub_take. apply IH. assumption.
    + apply sub_skip. apply IH. assumption.
Qed.

Lemma bytes_eqb_eq a b : bytes_eqb a b = true -> a = b.
Proof. unfold bytes_eqb. destruct (list_eq_dec N.eq_dec a b); [auto | discriminate]. Qed.

(** * Lists *)

Lemma nth_error_map' {A B} (f : A -> B) l n : nth_error (map f l) n = option_map f (nth_error l n).
Proof. revert n. induction l; destruct n; simpl; auto. Qed.

Lemma upd_nth_length {A} n (f : A -> A) l : length (upd_nth n f l) = length l.
Proof. revert n. induction l; destruct n; simpl; auto. Qed.

Lemma nth_error_upd_nth_eq {A} n (f : A -> A) l :
  nth_error (upd_nth n f l) n = option_map f (nth_error l n).
Proof. revert n. induction l; destruct n; simpl; auto. Qed.

Lemma nth_error_upd_nth_neq {A} n k (f : A -> A) l :
  k <> n -> nth_error (upd_nth n f l) k = nth_error l k.
Proof.
  revert n k. induction l; destruct n, k; simpl; intros; auto; try congruence.
Qed.

Lemma In_upd_nth {A} n (f : A -> A) l x :
  In x (upd_nth n f l) -> In x l \/ exists y, In y l /\ x = f y.
Proof.
  revert n. induction l; destruct n; simpl; intros H; auto.
  - destruct H as [H|H]; [right; exists a; auto | auto].
  - destruct H as [H|H]; [auto|].
    destruct (IHl _ H) as [H1|[y [H1 H2]]]; [auto | right; exists y; auto].
Qed.

Lemma map_upd_nth {A B} (f : A -> B) (g : A -> A) (h : B -> B) n l :
  (forall x, f (g x) = h (f x)) -> map f (upd_nth n g l) = upd_nth n h (map f l).
Proof. intros E. revert n. induction l; destruct n; simpl; auto; rewrite ?E, ?IHl; auto. Qed.

Lemma map_upd_nth_id {A B} (f : A -> B) (g : A -> A) n l :
  (forall x, f (g x) = f x) -> map f (upd_nth n g l) = map f l.
Proof. intros E. revert n. induction l; destruct n; simpl; auto; rewrite ?E, ?IHl; auto. Qed.

(** * Channels *)

Lemma given_push b c : given (push b c) = given c ++ [b].
Proof. unfold given, push; simpl. apply app_assoc. Qed.

Lemma send_one_cases skip b c :
  send_one skip b c = c \/ (unavailable c = false /\ send_one skip b c = push b c).
Proof.
  unfold send_one, try_send. destruct skip; auto. destruct (unavailable c) eqn:U; simpl; auto.
Qed.

Lemma unavailable_false_room c : unavailable c = false -> length (q c) < capacity /\ closed c = false.
Proof.
  unfold unavailable, full. intros H. apply orb_false_elim in H. destruct H as [H1 H2].
  apply Nat.leb_gt in H1. auto.
Qed.

(** the early return of MirroringManager::send changes nothing: each channel is decided by
    its own fullness/closedness alone *)
Lemma mirror_send_pointwise cs b :
  mirror_send cs b = map (fun c => if unavailable c then c else push b c) cs.
Proof.
  unfold mirror_send. destruct (forallb unavailable cs) eqn:F.
  - rewrite forallb_forall in F. apply map_ext_in. intros c HI. unfold send_one.
    rewrite (F c HI). reflexivity.
  - apply map_ext. intros c. unfold send_one, try_send. destruct (unavailable c); reflexivity.
Qed.

Lemma mirror_send_length cs b : length (mirror_send cs b) = length cs.
Proof. unfold mirror_send. apply map_length. Qed.

(** an offered buffer is enqueued whole, at the tail, or not at all; nothing else changes *)
Lemma mirror_send_no_partial cs b n c :
  nth_error cs n = Some c ->
  nth_error (mirror_send cs b) n = Some c \/
  (unavailable c = false /\ nth_error (mirror_send cs b) n = Some (push b c)).
Proof.
  intros H. rewrite mirror_send_pointwise, nth_error_map', H. simpl.
  destruct (unavailable c); auto.
Qed.

Lemma env_step_given e c : Subseq (given (env_step e c)) (given c).
Proof.
  unfold env_step. destruct (closed c) eqn:C; [apply Subseq_refl|].
  destruct e; try apply Subseq_refl.
  - (* Deliver *)
    destruct (lnk c); [|apply Subseq_refl]. destruct (q c) as [|b r] eqn:Q; [apply Subseq_refl|].
    unfold given; simpl. rewrite Q, map_app; simpl. rewrite <- app_assoc. simpl. apply Subseq_refl.
  - (* FailSend *)
    destruct (lnk c); [|apply Subseq_refl]. destruct (q c) as [|b r] eqn:Q; [apply Subseq_refl|].
    unfold given; simpl. rewrite Q. apply Subseq_app_head. apply sub_skip. apply Subseq_refl.
  - (* Reconnect *) destruct (lnk c); unfold given; simpl; apply Subseq_refl.
  - (* DropAll *) unfold given; simpl. apply Subseq_app_head. constructor.
  - (* Close *) unfold given; simpl. apply Subseq_app_head. constructor.
Qed.

Lemma env_step_qlen e c : length (q (env_step e c)) <= length (q c).
Proof.
  unfold env_step. destruct (closed c); [lia|].
  destruct e; simpl; try lia.
  - destruct (lnk c); [|lia]. destruct (q c) eqn:Q; simpl; rewrite ?Q; simpl; lia.
  - destruct (lnk c); [|lia]. destruct (q c) eqn:Q; simpl; rewrite ?Q; simpl; lia.
  - destruct (lnk c); simpl; lia.
Qed.

(** a delivery hands over exactly the oldest queued buffer, whole *)
Lemma deliver_whole c :
  env_step Deliver c = c \/
  exists b r, q c = b :: r /\ q (env_step Deliver c) = r /\
              handed (env_step Deliver c) = handed c ++ [(epoch c, b)].
Proof.
  unfold env_step. destruct (closed c); auto. destruct (lnk c); auto.
  destruct (q c) as [|b r] eqn:Q; auto. right. exists b, r. simpl. auto.
Qed.

(** * A mirror connection's lifetime *)

Lemma epoch_changes_only_on_reconnect e c :
  epoch (env_step e c) <> epoch c ->
  e = Reconnect /\ lnk c = Down /\ closed c = false /\ epoch (env_step e c) = S (epoch c).
Proof.
  unfold env_step. destruct (closed c) eqn:C; [intros H; exfalso; apply H; reflexivity|].
  destruct e; simpl; intros H; try (exfalso; apply H; reflexivity).
  - destruct (lnk c); [|exfalso; apply H; reflexivity]. destruct (q c); simpl in H; exfalso; apply H; reflexivity.
  - destruct (lnk c); [|exfalso; apply H; reflexivity]. destruct (q c); simpl in H; exfalso; apply H; reflexivity.
  - destruct (lnk c) eqn:L; simpl in *; [exfalso; apply H; reflexivity | auto].
Qed.

Lemma link_lost_only_by_failure e c :
  lnk c = Up -> lnk (env_step e c) = Down -> is_failure e = true.
Proof.
  unfold env_step. destruct (closed c); [congruence|].
  destruct e; simpl; intros U D; try reflexivity; try congruence.
  - rewrite U in D. destruct (q c); simpl in D; congruence.
  - rewrite U in D. simpl in D. congruence.
Qed.

Lemma offer_keeps_connection b c :
  epoch (chan_step c (inl b)) = epoch c /\ lnk (chan_step c (inl b)) = lnk c /\ handed (chan_step c (inl b)) = handed c.
Proof. simpl. destruct (unavailable c); simpl; auto. Qed.

(** one continuous connection: the two states a channel can be in while nothing fails *)
Definition one_conn (c : chan) : Prop :=
  (lnk c = Down /\ epoch c = 0 /\ handed c = []) \/
  (lnk c = Up /\ epoch c = 1 /\ Forall (fun x => fst x = 1) (handed c)).

Lemma one_conn_step c x :
  one_conn c -> (match x with inl _ => true | inr e => negb (is_failure e) end) = true -> one_conn (chan_step c x).
Proof.
  intros I NF. destruct x as [b|e].
  - destruct (offer_keeps_connection b c) as [E [L H]]. unfold one_conn. rewrite E, L, H. exact I.
  - simpl. unfold env_step. destruct (closed c); [exact I|].
    destruct e; simpl in NF; try discriminate; try exact I.
    + (* Deliver *)
      destruct I as [[L [E H]]|[L [E H]]]; rewrite L.
      * left. auto.
      * destruct (q c) as [|b r]; [right; auto|]. right. simpl. repeat split; auto.
        apply Forall_app. split; [assumption|]. constructor; [simpl; assumption | constructor].
    + (* Reconnect *)
      destruct I as [[L [E H]]|[L [E H]]]; rewrite L.
      * right. simpl. rewrite E, H. repeat split; auto.
      * right. auto.
Qed.

Lemma one_conn_run xs : forall c, one_conn c -> no_failure xs = true -> one_conn (fold_left chan_step xs c).
Proof.
  induction xs as [|x r IH]; intros c I NF; [exact I|].
  simpl in NF. apply andb_true_iff in NF. destruct NF as [N1 N2].
  simpl. apply IH; [apply one_conn_step; assumption | assumption].
Qed.

Lemma mirror_conn_lifetime xs ep b :
  no_failure xs = true -> In (ep, b) (handed (fold_left chan_step xs new_chan)) ->
  ep = 1 /\ epoch (fold_left chan_step xs new_chan) = 1.
Proof.
  intros NF HI. assert (I : one_conn new_chan) by (left; auto).
  destruct (one_conn_run xs new_chan I NF) as [[_ [_ H]]|[_ [E H]]].
  - rewrite H in HI. contradiction.
  - split; [|assumption]. rewrite Forall_forall in H. exact (H (ep, b) HI).
Qed.

(** * One connection: the primary side does not depend on the mirrors *)

Definition srv_send (s : srv) (be : bytes * bool) : srv := fst (fst (send s [] (fst be) (snd be))).

Lemma send_srv_indep s cs b ok : fst (fst (send s cs b ok)) = srv_send s (b, ok).
Proof. reflexivity. Qed.

Lemma run1_cons_send s m b ok r :
  run1 (s, m) (Send1 b ok :: r) =
  (fst (run1 (srv_send s (b, ok), mirror_send m b) r),
   (b, ok) :: snd (run1 (srv_send s (b, ok), mirror_send m b) r)).
Proof.
  simpl. unfold srv_send, send. simpl.
  destruct (run1 _ r) as [st'' outs]. reflexivity.
Qed.

Lemma run1_cons_env s m j e r :
  run1 (s, m) (Env1 j e :: r) = run1 (s, upd_nth j (env_step e) m) r.
Proof. simpl. destruct (run1 _ r) as [st'' outs]. reflexivity. Qed.

Lemma run1_char ops : forall s m,
  primary_trace (run1 (s, m) ops) = (fold_left srv_send (sends_of ops) s, sends_of ops).
Proof.
  induction ops as [|o r IH]; intros s m; [reflexivity|].
  destruct o as [b ok | j e].
  - rewrite run1_cons_send. specialize (IH (srv_send s (b, ok)) (mirror_send m b)).
    unfold primary_trace in *. simpl in *. inversion IH as [[H1 H2]].
    rewrite H1, H2. reflexivity.
  - rewrite run1_cons_env. apply IH.
Qed.

Lemma noninterference s m1 m2 ops :
  primary_trace (run s m1 ops) = primary_trace (run s m2 ops).
Proof. unfold run. rewrite !run1_char. reflexivity. Qed.

Lemma noninterference_env s m1 m2 ops1 ops2 :
  sends_of ops1 = sends_of ops2 ->
  primary_trace (run s m1 ops1) = primary_trace (run s m2 ops2).
Proof. intros E. unfold run. rewrite !run1_char, E. reflexivity. Qed.

(** the fan-out to mirror j looks at mirror j only *)
Lemma mirror_send_nth cs b j :
  nth_error (mirror_send cs b) j =
  option_map (fun c => if unavailable c then c else push b c) (nth_error cs j).
Proof. rewrite mirror_send_pointwise. apply nth_error_map'. Qed.

Lemma mirrors_independent_send cs1 cs2 b j :
  nth_error cs1 j = nth_error cs2 j ->
  nth_error (mirror_send cs1 b) j = nth_error (mirror_send cs2 b) j.
Proof. intros E. rewrite !mirror_send_nth, E. reflexivity. Qed.

(** ... for whole runs: mirror j ends in the same state whatever the other mirrors are and do *)
Lemma mirrors_independent ops : forall s m1 m2 j,
  nth_error m1 j = nth_error m2 j ->
  nth_error (snd (fst (run1 (s, m1) ops))) j =
  nth_error (snd (fst (run1 (s, m2) (filter (concerns j) ops)))) j.
Proof.
  induction ops as [|o r IH]; intros s m1 m2 j E; [exact E|].
  destruct o as [b ok | i e]; cbn [filter concerns].
  - rewrite !run1_cons_send. cbn [fst snd]. apply IH. apply mirrors_independent_send. exact E.
  - rewrite run1_cons_env. destruct (i =? j) eqn:Q.
    + apply Nat.eqb_eq in Q. subst i. rewrite run1_cons_env. apply IH.
      rewrite !nth_error_upd_nth_eq, E. reflexivity.
    + apply Nat.eqb_neq in Q. apply IH. rewrite nth_error_upd_nth_neq by auto. exact E.
Qed.

(** the channel of mirror j inside a run IS [chan_step] folded over what concerns it *)
Definition view (j : nat) (o : op1) : list (bytes + env) :=
  match o with Send1 b _ => [inl b] | Env1 i e => if i =? j then [inr e] else [] end.

Lemma run1_chan_view ops : forall s m j,
  nth_error (snd (fst (run1 (s, m) ops))) j =
  option_map (fold_left chan_step (flat_map (view j) ops)) (nth_error m j).
Proof.
  induction ops as [|o r IH]; intros s m j.
  - simpl. destruct (nth_error m j); reflexivity.
  - destruct o as [b ok | i e].
    + rewrite run1_cons_send. cbn [fst snd]. rewrite IH, mirror_send_nth.
      simpl. destruct (nth_error m j); reflexivity.
    + rewrite run1_cons_env, IH. simpl. destruct (i =? j) eqn:Q.
      * apply Nat.eqb_eq in Q. subst i. rewrite nth_error_upd_nth_eq. simpl. destruct (nth_error m j); reflexivity.
      * apply Nat.eqb_neq in Q. rewrite nth_error_upd_nth_neq by auto. reflexivity.
Qed.

(** every buffer passed to send appears in the primary trace, once, in order, unchanged *)
Lemma primary_trace_is_the_sends s m ops : snd (primary_trace (run s m ops)) = sends_of ops.
Proof. unfold run. rewrite run1_char. reflexivity. Qed.

Lemma never_blocks s b ok :
  exists s' out, out = (b, ok) /\
    forall cs, send s cs b ok = (s', map (fun c => if unavailable c then c else push b c) cs, out).
Proof.
  exists (srv_send s (b, ok)), (b, ok). split; [reflexivity|]. intros cs.
  unfold send. rewrite mirror_send_pointwise. reflexivity.
Qed.

(** * Attachment *)

Lemma In_enumerate_from {A} (l : list A) k i x :
  In (i, x) (enumerate_from k l) <-> k <= i /\ nth_error l (i - k) = Some x.
Proof.
  revert k. induction l as [|a r IH]; intros k; simpl.
  - split; [contradiction|]. intros [_ H]. destruct (i - k); discriminate.
  - split.
    + intros [H|H].
      * inversion H; subst. rewrite Nat.sub_diag. auto.
      * apply IH in H. destruct H as [H1 H2]. split; [lia|].
        replace (i - k) with (S (i - S k)) by lia. assumption.
    + intros [H1 H2]. destruct (i - k) as [|d] eqn:D.
      * left. simpl in H2. inversion H2. f_equal. lia.
      * right. apply IH. split; [lia|]. simpl in H2. replace (i - S k) with d by lia. assumption.
Qed.

Lemma mirrors_of_spec g sh idx i mc :
  In (i, mc) (mirrors_of g sh idx) <->
  exists s, nth_error g sh = Some s /\ idx < length (servers s) /\
            nth_error (mirrors s) i = Some mc /\ m_target mc = idx.
Proof.
  unfold mirrors_of. destruct (nth_error g sh) as [s|] eqn:G.
  - destruct (idx <? length (servers s)) eqn:L.
    + apply Nat.ltb_lt in L. rewrite filter_In, In_enumerate_from. simpl. rewrite Nat.sub_0_r, Nat.eqb_eq.
      split.
      * intros [[_ H1] H2]. exists s. auto.
      * intros [s' [E [_ [H1 H2]]]]. inversion E; subst. split; [split; [lia|assumption]|reflexivity].
    + apply Nat.ltb_ge in L. split; [contradiction|]. intros [s' [E [H _]]]. inversion E; subst. lia.
  - split; [contradiction|]. intros [s' [E _]]. discriminate.
Qed.

(** in an accepted configuration every mirror is attached, to exactly the server it names *)
Lemma valid_cfg_attaches_all g sh s i mc :
  valid_cfg g = true -> nth_error g sh = Some s -> nth_error (mirrors s) i = Some mc ->
  In (i, mc) (mirrors_of g sh (m_target mc)) /\
  forall idx, In (i, mc) (mirrors_of g sh idx) -> idx = m_target mc.
Proof.
  intros V G M. split.
  - apply mirrors_of_spec. exists s. repeat split; auto.
    unfold valid_cfg in V. rewrite forallb_forall in V.
    specialize (V s (nth_error_In _ _ G)). rewrite forallb_forall in V.
    specialize (V mc (nth_error_In _ _ M)). apply Nat.ltb_lt in V. exact V.
  - intros idx H. apply mirrors_of_spec in H. destruct H as [s' [_ [_ [_ T]]]]. auto.
Qed.

(** * The pooler: invariant of every reachable world *)

Definition attached (g : cfg) (c : conn) (m : mchan) : Prop :=
  In (mc_idx m, mc_cfg m) (mirrors_of g (c_shard c) (c_index c)).

Definition conn_ok (g : cfg) (log : list (nat * bytes * bool)) (cid : nat) (c : conn) : Prop :=
  forall m, In m (c_chans c) ->
    attached g c m /\ Subseq (given (mc_chan m)) (sent_on cid log) /\ length (q (mc_chan m)) <= capacity.

Definition Inv (g : cfg) (w : world) : Prop :=
  forall cid c, nth_error (conns w) cid = Some c -> conn_ok g (plog w) cid c.

Lemma sent_on_snoc cid log cid' b ok :
  sent_on cid (log ++ [(cid', b, ok)]) =
  if cid' =? cid then sent_on cid log ++ [b] else sent_on cid log.
Proof.
  unfold sent_on. rewrite filter_app, map_app. simpl.
  destruct (cid' =? cid); simpl; [reflexivity | apply app_nil_r].
Qed.

Lemma Inv0 g : Inv g world0.
Proof. intros cid c H. destruct cid; discriminate. Qed.

Lemma step_Inv g w o : Inv g w -> Inv g (step g w o).
Proof.
  intros I. destruct o as [sh idx | cid b ok | cid j e | cid]; simpl.
  - (* Startup *)
    destruct (server_exists g sh idx); [|assumption].
    intros k c H. simpl in H.
    destruct (Nat.lt_ge_cases k (length (conns w))) as [L|L].
    + rewrite nth_error_app1 in H by assumption. exact (I k c H).
    + rewrite nth_error_app2 in H by assumption.
      destruct (k - length (conns w)) as [|d]; simpl in H; [|destruct d; discriminate].
      inversion H; subst. intros m HM. simpl in HM. apply in_map_iff in HM.
      destruct HM as [[i mc] [E HI]]. subst m. unfold attached. simpl.
      split; [assumption|]. split; [constructor | lia].
  - (* Send *)
    destruct (nth_error (conns w) cid) as [c0|] eqn:N; [|assumption].
    destruct (c_alive c0); [|assumption].
    intros k c H. simpl in *.
    destruct (Nat.eq_dec k cid) as [E|E].
    + subst k. rewrite nth_error_upd_nth_eq, N in H. simpl in H. inversion H; subst c. clear H.
      intros m HM. simpl in HM. apply in_map_iff in HM. destruct HM as [m0 [E HI]]. subst m.
      destruct (I cid c0 N m0 HI) as [A [S L]].
      rewrite sent_on_snoc, Nat.eqb_refl. unfold attached in *. simpl.
      split; [assumption|].
      destruct (send_one_cases (forallb unavailable (map mc_chan (c_chans c0))) b (mc_chan m0)) as [Q|[U Q]];
        rewrite Q.
      * split; [apply Subseq_app_r; assumption | assumption].
      * rewrite given_push. split; [apply Subseq_snoc; assumption|].
        apply unavailable_false_room in U. unfold push; simpl. rewrite app_length. simpl. lia.
    + rewrite nth_error_upd_nth_neq in H by assumption.
      intros m HM. destruct (I k c H m HM) as [A [S L]].
      rewrite sent_on_snoc. apply Nat.eqb_neq in E. rewrite Nat.eqb_sym, E. auto.
  - (* Env *)
    intros k c H. simpl in *.
    destruct (Nat.eq_dec k cid) as [E|E].
    + subst k. rewrite nth_error_upd_nth_eq in H.
      destruct (nth_error (conns w) cid) as [c0|] eqn:N; simpl in H; [|discriminate].
      inversion H; subst c. clear H.
      intros m HM. simpl in HM. apply In_upd_nth in HM.
      destruct HM as [HM|[m0 [HI E]]].
      * exact (I cid c0 N m HM).
      * subst m. destruct (I cid c0 N m0 HI) as [A [S L]]. unfold attached in *. simpl.
        split; [assumption|]. split.
        -- eapply Subseq_trans; [apply env_step_given | assumption].
        -- pose proof (env_step_qlen e (mc_chan m0)). lia.
    + rewrite nth_error_upd_nth_neq in H by assumption. exact (I k c H).
  - (* DropConn *)
    intros k c H. simpl in *.
    destruct (Nat.eq_dec k cid) as [E|E].
    + subst k. rewrite nth_error_upd_nth_eq in H.
      destruct (nth_error (conns w) cid) as [c0|] eqn:N; simpl in H; [|discriminate].
      inversion H; subst c. clear H. intros m HM. simpl in HM.
      destruct (I cid c0 N m HM) as [A [S L]]. unfold attached in *. simpl. auto.
    + rewrite nth_error_upd_nth_neq in H by assumption. exact (I k c H).
Qed.

Lemma runw_Inv g ops : forall w, Inv g w -> Inv g (runw g w ops).
Proof.
  unfold runw. induction ops as [|o r IH]; intros w I; simpl; [assumption|].
  apply IH. apply step_Inv. assumption.
Qed.

Lemma In_sent_on cid log b : In b (sent_on cid log) -> exists ok, In (cid, b, ok) log.
Proof.
  unfold sent_on. intros H. apply in_map_iff in H. destruct H as [[[k b'] ok] [E HI]].
  apply filter_In in HI. destruct HI as [HI Q]. simpl in *. apply Nat.eqb_eq in Q. subst.
  exists ok. assumption.
Qed.

Lemma handed_sub_given c : Subseq (map snd (handed c)) (given c).
Proof. unfold given. apply Subseq_app_r. apply Subseq_refl. Qed.

Lemma mirror_sees_subsequence g ops cid c m :
  nth_error (conns (runw g world0 ops)) cid = Some c -> In m (c_chans c) ->
  (exists sh, nth_error g (c_shard c) = Some sh /\ c_index c < length (servers sh) /\
              nth_error (mirrors sh) (mc_idx m) = Some (mc_cfg m) /\
              m_target (mc_cfg m) = c_index c) /\
  Subseq (map snd (handed (mc_chan m))) (sent_on cid (plog (runw g world0 ops))).
Proof.
  intros N HM. destruct (runw_Inv g ops world0 (Inv0 g) cid c N m HM) as [A [S _]].
  split.
  - apply mirrors_of_spec in A. assumption.
  - eapply Subseq_trans; [apply handed_sub_given | assumption].
Qed.

Lemma mirror_only_own_server g ops cid c m ep b :
  nth_error (conns (runw g world0 ops)) cid = Some c -> In m (c_chans c) ->
  In (ep, b) (handed (mc_chan m)) ->
  m_target (mc_cfg m) = c_index c /\ exists ok, In (cid, b, ok) (plog (runw g world0 ops)).
Proof.
  intros N HM HI. destruct (mirror_sees_subsequence g ops cid c m N HM) as [[sh [_ [_ [_ T]]]] S].
  split; [assumption|]. apply In_sent_on.
  eapply Subseq_In; [exact S|]. apply in_map_iff. exists (ep, b). auto.
Qed.

Lemma queue_bounded g ops cid c m :
  nth_error (conns (runw g world0 ops)) cid = Some c -> In m (c_chans c) ->
  length (q (mc_chan m)) <= capacity.
Proof. intros N HM. destruct (runw_Inv g ops world0 (Inv0 g) cid c N m HM) as [_ [_ L]]. assumption. Qed.

(** * The pooler: the primary side is the same whatever mirrors are configured *)

Definition psend (b : bytes) (ok : bool) (p : nat * nat * srv * bool) : nat * nat * srv * bool :=
  let '(sh, idx, s, a) := p in (sh, idx, srv_send s (b, ok), a).
Definition pdrop (p : nat * nat * srv * bool) : nat * nat * srv * bool :=
  let '(sh, idx, s, a) := p in (sh, idx, s, false).

Lemma server_exists_same g1 g2 sh idx :
  same_servers g1 g2 -> server_exists g1 sh idx = server_exists g2 sh idx.
Proof.
  unfold same_servers, server_exists. intros E.
  assert (H : option_map servers (nth_error g1 sh) = option_map servers (nth_error g2 sh))
    by (rewrite <- !nth_error_map', E; reflexivity).
  destruct (nth_error g1 sh), (nth_error g2 sh); simpl in H; try discriminate; auto.
  inversion H. rewrite H1. reflexivity.
Qed.

Lemma step_pview g1 g2 w1 w2 o :
  same_servers g1 g2 -> pview w1 = pview w2 -> pview (step g1 w1 o) = pview (step g2 w2 o).
Proof.
  intros SS E. unfold pview in E. inversion E as [[EC EL]]. clear E.
  destruct o as [sh idx | cid b ok | cid j e | cid]; simpl.
  - rewrite (server_exists_same g1 g2 sh idx SS).
    destruct (server_exists g2 sh idx); unfold pview; simpl.
    + rewrite !map_app, EC, EL. reflexivity.
    + rewrite EC, EL. reflexivity.
  - assert (H : option_map pconn (nth_error (conns w1) cid) = option_map pconn (nth_error (conns w2) cid))
      by (rewrite <- !nth_error_map', EC; reflexivity).
    destruct (nth_error (conns w1) cid) as [c1|], (nth_error (conns w2) cid) as [c2|]; simpl in H; try discriminate.
    + inversion H as [HP]. assert (A : c_alive c1 = c_alive c2) by (unfold pconn in HP; inversion HP; auto).
      rewrite A. destruct (c_alive c2); unfold pview; simpl.
      * rewrite (map_upd_nth pconn (conn_send b ok) (psend b ok)) by (intros x; reflexivity).
        rewrite (map_upd_nth pconn (conn_send b ok) (psend b ok) cid (conns w2)) by (intros x; reflexivity).
        rewrite EC, EL. reflexivity.
      * rewrite EC, EL. reflexivity.
    + unfold pview. rewrite EC, EL. reflexivity.
  - unfold pview; simpl.
    rewrite !(map_upd_nth_id pconn (conn_env j e)) by (intros x; reflexivity).
    rewrite EC, EL. reflexivity.
  - unfold pview; simpl.
    rewrite !(map_upd_nth pconn conn_drop pdrop) by (intros x; reflexivity).
    rewrite EC, EL. reflexivity.
Qed.

Lemma runw_pview g1 g2 ops : same_servers g1 g2 ->
  forall w1 w2, pview w1 = pview w2 -> pview (runw g1 w1 ops) = pview (runw g2 w2 ops).
Proof.
  intros SS. unfold runw. induction ops as [|o r IH]; intros w1 w2 E; simpl; [assumption|].
  apply IH. apply step_pview; assumption.
Qed.

Lemma noninterference_world g1 g2 ops :
  same_servers g1 g2 -> pview (runw g1 world0 ops) = pview (runw g2 world0 ops).
Proof. intros SS. apply runw_pview; [assumption | reflexivity]. Qed.

(** a step of a mirror task (or of the mirror) changes nothing on the client path *)
Lemma env_step_pview g w cid j e : pview (step g w (Env cid j e)) = pview w.
Proof.
  unfold pview; simpl. rewrite (map_upd_nth_id pconn (conn_env j e)) by (intros x; reflexivity). reflexivity.
Qed.

(** ... so erasing every mirror-task step from a schedule leaves the client path as it was *)
Lemma client_path_independent g ops : forall w1 w2, pview w1 = pview w2 ->
  pview (runw g w1 ops) = pview (runw g w2 (filter client_op ops)).
Proof.
  unfold runw. induction ops as [|o r IH]; intros w1 w2 E; [exact E|].
  cbn [fold_left filter]. destruct (client_op o) eqn:C.
  - cbn [fold_left]. apply IH. apply step_pview; [reflexivity | assumption].
  - destruct o; try discriminate. apply IH. rewrite env_step_pview. assumption.
Qed.

Lemma strip_same g : same_servers g (strip_mirrors g).
Proof. unfold same_servers, strip_mirrors. rewrite map_map. simpl. reflexivity. Qed.

Lemma strip_no_mirrors g sh idx : mirrors_of (strip_mirrors g) sh idx = [].
Proof.
  unfold mirrors_of, strip_mirrors. rewrite nth_error_map'.
  destruct (nth_error g sh); simpl; [|reflexivity]. destruct (idx <? _); reflexivity.
Qed.

Lemma same_as_without_mirrors g ops :
  pview (runw g world0 ops) = pview (runw (strip_mirrors g) world0 ops).
Proof. apply noninterference_world. apply strip_same. Qed.

(** a send on a live connection completes in that very step, whatever the mirrors do *)
Lemma send_always_completes g w cid c b ok :
  nth_error (conns w) cid = Some c -> c_alive c = true ->
  plog (step g w (Send cid b ok)) = plog w ++ [(cid, b, ok)].
Proof. intros N A. simpl. rewrite N, A. reflexivity. Qed.

(** the model's channel update inside the pooler is Server::send's *)
Lemma conn_send_is_send b ok c :
  c_srv (conn_send b ok c) = fst (fst (send (c_srv c) (map mc_chan (c_chans c)) b ok)) /\
  map mc_chan (c_chans (conn_send b ok c)) = snd (fst (send (c_srv c) (map mc_chan (c_chans c)) b ok)).
Proof.
  split; [reflexivity|]. unfold conn_send, send, mirror_send. simpl. rewrite !map_map. reflexivity.
Qed.
