(** C20 — executable model of pgcat's traffic mirroring.

    Written from the code as it is now (file:line of /repo/src):
    - mirrors.rs:124-153  MirroringManager::from_addresses: per mirror one
      [channel::<Bytes>(N)] (N = Gen.MirrorConsts.mirror_chan_capacity, extracted from the
      source on every run) and one exit channel; a task per mirror (MirroredClient::start).
    - mirrors.rs:155-175  MirroringManager::send: early return when EVERY sender is full or
      closed, otherwise [try_send] of a clone of the WHOLE buffer to each sender (a full or
      closed one drops it with a warning).  A plain (non-async) fn: it cannot wait.
    - mirrors.rs:59-117   the mirror task: [pool.get()] first (an error => [continue], the
      channel is NOT read), then select! over exit signal / reply from the mirror (read and
      discarded) / next buffer from the channel (written to the mirror with Server::send;
      an error marks the connection bad, the buffer is lost).
    - server.rs:881-900   Server::send: [self.mirror_send(messages)], stats, then the write
      of [messages] to the real server; a write error sets [bad] and is returned.
    - server.rs:817-824   the mirror manager of a server connection is built in
      Server::startup from [address.mirrors]; server.rs:1552 Drop calls mirror_disconnect.
    - pool.rs:364-390,403 [address.mirrors] of the server at position [address_index] of a
      shard = the entries of the shard's [mirrors] whose [mirroring_target_index] equals
      [address_index], in order, each carrying its own position as address_index.

    Which buffers go through Server::send and are therefore offered to the mirrors: client
    requests (Query, extended-protocol batches up to Sync, CopyData chunks, CopyDone/Fail) AND
    pgcat's own statements on that server connection (sync_parameters SETs, checkin_cleanup
    ROLLBACK / RESET / DEALLOCATE, health check ";", statement registration Parse+Sync):
    each is a request sent to the mirrored server, and [send] does not look at the content. *)
From Coq Require Import List Bool Arith NArith Lia.
From PV Require Import Gen.MirrorConsts.
Import ListNotations.

Definition byte := N.
Definition bytes := list byte.

(** * One mirror: bounded FIFO + the task that drains it *)

Definition capacity : nat := mirror_chan_capacity.

(** whether the mirror task currently holds a usable connection to the mirror *)
Inductive link := Up | Down.

Record chan := mkChan {
  q : list bytes;               (* the tokio mpsc buffer, oldest first *)
  closed : bool;                (* receiver gone: the task ended (exit signal, panic) *)
  lnk : link;
  epoch : nat;                  (* connections to the mirror opened so far *)
  handed : list (nat * bytes);  (* OBSERVATION: (connection number, buffer) written to the mirror *)
}.

Definition new_chan : chan := mkChan [] false Down 0 [].

(** [sender.capacity() == 0 || sender.is_closed()] (mirrors.rs:162) *)
Definition full (c : chan) : bool := capacity <=? length (q c).
Definition unavailable (c : chan) : bool := full c || closed c.

Definition push (b : bytes) (c : chan) : chan :=
  mkChan (q c ++ [b]) (closed c) (lnk c) (epoch c) (handed c).

(** [sender.try_send(bytes)]: Ok, or Err(Full | Closed) — never waits (mirrors.rs:168) *)
Definition try_send (b : bytes) (c : chan) : chan * bool :=
  if unavailable c then (c, false) else (push b c, true).

(** one sender's part of MirroringManager::send, [skip] = the early-return test *)
Definition send_one (skip : bool) (b : bytes) (c : chan) : chan :=
  if skip then c else fst (try_send b c).

(** MirroringManager::send (mirrors.rs:155-175) *)
Definition mirror_send (cs : list chan) (b : bytes) : list chan :=
  map (send_one (forallb unavailable cs) b) cs.

(** Steps of the mirror task and of the mirror itself, chosen by the environment. *)
Inductive env :=
| Deliver    (* the task takes the oldest buffer and writes it to the mirror (mirrors.rs:96-100) *)
| Fail       (* reading from the mirror fails / it closes: connection marked bad (mirrors.rs:87-91) *)
| FailSend   (* the write to the mirror fails: the buffer is lost, connection bad (mirrors.rs:101-105) *)
| Reconnect  (* pool.get() yields a (new) connection (mirrors.rs:64-65) *)
| DropAll    (* queued buffers are discarded (task exits on the exit signal with a backlog) *)
| Close      (* the task ends: receiver dropped (mirrors.rs:78-81, 108-111, or a panic) *)
| Reply.     (* the mirror answers (anything, also errors): read and discarded (mirrors.rs:84-86) *)

Definition env_step (e : env) (c : chan) : chan :=
  if closed c then c else
  match e with
  | Deliver =>
      match lnk c, q c with
      | Up, b :: r => mkChan r false Up (epoch c) (handed c ++ [(epoch c, b)])
      | _, _ => c            (* no connection: the channel is not read (mirrors.rs:64-73) *)
      end
  | Fail => mkChan (q c) false Down (epoch c) (handed c)
  | FailSend =>
      match lnk c, q c with
      | Up, _ :: r => mkChan r false Down (epoch c) (handed c)
      | _, _ => c
      end
  | Reconnect =>
      match lnk c with
      | Down => mkChan (q c) false Up (S (epoch c)) (handed c)
      | Up => c
      end
  | DropAll => mkChan [] false (lnk c) (epoch c) (handed c)
  | Close => mkChan [] true Down (epoch c) (handed c)
  | Reply => c
  end.

(** A mirror connection's lifetime.  [epoch] counts the connections the mirror task has opened; a new one is
    opened only by [Reconnect], and only when the task holds none ([Down]): initially, or after [Fail] / [FailSend]
    (the connection was marked bad: read or write error) or [Close].  Nothing else -- in particular no reply of the
    mirror (ReadyForQuery 'T' / 'E', SET, PREPARE, COPY, a reply handed over in parts) and no forwarded request --
    ends it: ServerPool::has_broken closes a mirror's connection only when it is bad (pool.rs: the
    `address.role != Role::Mirror` exemption; the role is stamped in MirroringManager::from_addresses). *)
Definition is_failure (e : env) : bool :=
  match e with Fail | FailSend | Close => true | _ => false end.

(** one channel's view of a schedule: a buffer offered to it, or one of its own steps *)
Definition chan_step (c : chan) (x : bytes + env) : chan :=
  match x with
  | inl b => if unavailable c then c else push b c
  | inr e => env_step e c
  end.

Definition no_failure (xs : list (bytes + env)) : bool :=
  forallb (fun x => match x with inl _ => true | inr e => negb (is_failure e) end) xs.

(** * The primary server connection and Server::send *)

Record srv := mkSrv {
  bad : bool;            (* Server.bad *)
  data_sent : N;         (* stats().data_sent *)
  wire : list bytes;     (* buffers written to the real server *)
}.

Definition srv0 : srv := mkSrv false 0 [].

(** what the caller of Server::send and the real server get: the buffer handed to the
    socket of the real server and the Result (true = Ok) *)
Definition primary_out := (bytes * bool)%type.

(** Server::send (server.rs:881-900).  [wr_ok] = outcome of the write to the REAL server
    (an input from that socket, not from any mirror). *)
Definition send (s : srv) (cs : list chan) (b : bytes) (wr_ok : bool)
  : srv * list chan * primary_out :=
  let cs' := mirror_send cs b in
  let s' := mkSrv (bad s || negb wr_ok)
                  (data_sent s + N.of_nat (length b))
                  (if wr_ok then wire s ++ [b] else wire s) in
  (s', cs', (b, wr_ok)).

(** * One server connection with its mirrors, any interleaving of sends and environment steps *)

Fixpoint upd_nth {A} (n : nat) (f : A -> A) (l : list A) : list A :=
  match l, n with
  | [], _ => []
  | x :: r, O => f x :: r
  | x :: r, S n' => x :: upd_nth n' f r
  end.

Inductive op1 :=
| Send1 (b : bytes) (wr_ok : bool)
| Env1 (j : nat) (e : env).

Definition st1 := (srv * list chan)%type.

Definition step1 (st : st1) (o : op1) : st1 * list primary_out :=
  match o with
  | Send1 b ok => let '(s', cs', out) := send (fst st) (snd st) b ok in ((s', cs'), [out])
  | Env1 j e => ((fst st, upd_nth j (env_step e) (snd st)), [])
  end.

Fixpoint run1 (st : st1) (ops : list op1) : st1 * list primary_out :=
  match ops with
  | [] => (st, [])
  | o :: r =>
      let '(st', out) := step1 st o in
      let '(st'', outs) := run1 st' r in
      (st'', out ++ outs)
  end.

(** [m] = the state of the mirrors (how many, how full, closed, connected, ...) *)
Definition run (s : srv) (m : list chan) (ops : list op1) := run1 (s, m) ops.

(** what the real server and the caller of [send] see of a run *)
Definition primary_trace (r : st1 * list primary_out) : srv * list primary_out :=
  (fst (fst r), snd r).

Definition sends_of (ops : list op1) : list (bytes * bool) :=
  flat_map (fun o => match o with Send1 b ok => [(b, ok)] | Env1 _ _ => [] end) ops.

(** the steps that concern mirror [j] (and every send): what is left when the steps of all OTHER mirrors are erased *)
Definition concerns (j : nat) (o : op1) : bool :=
  match o with Send1 _ _ => true | Env1 i _ => i =? j end.

(** * Configuration and attachment (pool.rs:364-390) *)

Record mirror_cfg := mkMirror { m_addr : N (* host:port *); m_target : nat (* mirroring_target_index *) }.
Record shard_cfg := mkShard { servers : list N; mirrors : list mirror_cfg }.
Definition cfg := list shard_cfg.

Fixpoint enumerate_from {A} (i : nat) (l : list A) : list (nat * A) :=
  match l with
  | [] => []
  | x :: r => (i, x) :: enumerate_from (S i) r
  end.

(** the mirrors attached to the server at position [idx] of shard [shard]:
    (position in the shard's mirror list, entry), by index equality only *)
Definition mirrors_of (c : cfg) (shard idx : nat) : list (nat * mirror_cfg) :=
  match nth_error c shard with
  | None => []
  | Some sh =>
      if idx <? length (servers sh)
      then filter (fun im => m_target (snd im) =? idx) (enumerate_from 0 (mirrors sh))
      else []
  end.

(** Shard::validate (config.rs, since the repair of C20-M4): a configuration is accepted only if every
    mirror's mirroring_target_index is the position of one of the shard's servers. *)
Definition valid_cfg (c : cfg) : bool :=
  forallb (fun sh => forallb (fun m => m_target m <? length (servers sh)) (mirrors sh)) c.

(** * The whole pooler: any number of server connections *)

Record mchan := mkMchan { mc_idx : nat; mc_cfg : mirror_cfg; mc_chan : chan }.
Record conn := mkConn {
  c_shard : nat; c_index : nat;      (* which server this is a connection of *)
  c_srv : srv;
  c_alive : bool;                    (* the Server object exists *)
  c_chans : list mchan;              (* its MirroringManager *)
}.

Record world := mkWorld {
  conns : list conn;                         (* connection id = position *)
  plog : list (nat * bytes * bool);          (* OBSERVATION: every Server::send, in order *)
}.

Definition world0 : world := mkWorld [] [].

Inductive op :=
| Startup (shard idx : nat)               (* Server::startup of a connection to that server *)
| Send (cid : nat) (b : bytes) (wr_ok : bool)
| Env (cid j : nat) (e : env)
| DropConn (cid : nat).                   (* Drop for Server *)

Definition with_chan (m : mchan) (c : chan) : mchan := mkMchan (mc_idx m) (mc_cfg m) c.

Definition conn_send (b : bytes) (ok : bool) (c : conn) : conn :=
  let cs := map mc_chan (c_chans c) in
  let skip := forallb unavailable cs in
  mkConn (c_shard c) (c_index c) (fst (fst (send (c_srv c) cs b ok))) (c_alive c)
         (map (fun m => with_chan m (send_one skip b (mc_chan m))) (c_chans c)).

Definition conn_env (j : nat) (e : env) (c : conn) : conn :=
  mkConn (c_shard c) (c_index c) (c_srv c) (c_alive c)
         (upd_nth j (fun m => with_chan m (env_step e (mc_chan m))) (c_chans c)).

Definition conn_drop (c : conn) : conn :=
  mkConn (c_shard c) (c_index c) (c_srv c) false (c_chans c).

Definition server_exists (g : cfg) (shard idx : nat) : bool :=
  match nth_error g shard with
  | Some sh => idx <? length (servers sh)
  | None => false
  end.

Definition step (g : cfg) (w : world) (o : op) : world :=
  match o with
  | Startup sh idx =>
      if server_exists g sh idx
      then mkWorld (conns w ++ [mkConn sh idx srv0 true
                                  (map (fun im => mkMchan (fst im) (snd im) new_chan) (mirrors_of g sh idx))])
                   (plog w)
      else w
  | Send cid b ok =>
      match nth_error (conns w) cid with
      | Some c => if c_alive c
                  then mkWorld (upd_nth cid (conn_send b ok) (conns w)) (plog w ++ [(cid, b, ok)])
                  else w
      | None => w
      end
  | Env cid j e => mkWorld (upd_nth cid (conn_env j e) (conns w)) (plog w)
  | DropConn cid => mkWorld (upd_nth cid conn_drop (conns w)) (plog w)
  end.

Definition runw (g : cfg) (w : world) (ops : list op) : world := fold_left (step g) ops w.

(** the steps of a schedule that belong to the client path (everything but the mirror tasks' own steps) *)
Definition client_op (o : op) : bool := match o with Env _ _ _ => false | _ => true end.

(** the primary side of a world: which connections exist, their Server state, and the log of
    every buffer written to a real server with the value returned to the caller *)
Definition pconn (c : conn) := (c_shard c, c_index c, c_srv c, c_alive c).
Definition pview (w : world) := (map pconn (conns w), plog w).

(** every buffer passed to [send] on connection [cid], in order *)
Definition sent_on (cid : nat) (log : list (nat * bytes * bool)) : list bytes :=
  map (fun e => snd (fst e)) (filter (fun e => fst (fst e) =? cid) log).

(** everything a mirror task has been given so far: written to the mirror, or still queued *)
Definition given (c : chan) : list bytes := map snd (handed c) ++ q c.

Definition same_servers (g1 g2 : cfg) : Prop := map servers g1 = map servers g2.
Definition strip_mirrors (g : cfg) : cfg := map (fun sh => mkShard (servers sh) []) g.

(** in-order subsequence with identical items *)
Inductive Subseq {A} : list A -> list A -> Prop :=
| sub_nil : forall l, Subseq [] l
| sub_take : forall x l1 l2, Subseq l1 l2 -> Subseq (x :: l1) (x :: l2)
| sub_skip : forall x l1 l2, Subseq l1 l2 -> Subseq l1 (x :: l2).

(** executable version for the examples and the correspondence *)
Fixpoint subseqb {A} (eqb : A -> A -> bool) (l1 l2 : list A) : bool :=
  match l1, l2 with
  | [], _ => true
  | _ :: _, [] => false
  | x :: r1, y :: r2 => if eqb x y then subseqb eqb r1 r2 else subseqb eqb l1 r2
  end.

Definition bytes_eqb (a b : bytes) : bool := if list_eq_dec N.eq_dec a b then true else false.
