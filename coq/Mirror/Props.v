(** C20 — "mirroring never affects the primary path": property theorems about the mirroring
    model (coq/Mirror/Model.v), for EVERY sequence of sends and mirror/task steps (deliver,
    fail, failing write, reconnect, backlog dropped, task end, replies of any kind), every
    state of the mirrors and every mapping of mirrors to servers. *)
From Coq Require Import List Bool Arith NArith.
From PV Require Import Gen.MirrorConsts Mirror.Model Mirror.Proofs.
Import ListNotations.

(** The bytes written to the real server, the value returned to the caller of Server::send
    and the Server's own state are the same whatever the mirrors are (how many, full, closed,
    connected or not) and whatever they do in between. *)
Theorem c20_noninterference : forall s m1 m2 ops,
  primary_trace (run s m1 ops) = primary_trace (run s m2 ops).
Proof. exact noninterference. Qed.
Print Assumptions c20_noninterference.

(** ... and also under DIFFERENT environment schedules: only the sends themselves matter. *)
Theorem c20_noninterference_env : forall s m1 m2 ops1 ops2,
  sends_of ops1 = sends_of ops2 ->
  primary_trace (run s m1 ops1) = primary_trace (run s m2 ops2).
Proof. exact noninterference_env. Qed.
Print Assumptions c20_noninterference_env.

(** What the real server gets is exactly the sequence of buffers passed to send. *)
Theorem c20_primary_gets_every_send : forall s m ops,
  snd (primary_trace (run s m ops)) = sends_of ops.
Proof. exact primary_trace_is_the_sends. Qed.
Print Assumptions c20_primary_gets_every_send.

(** The pooler as a whole (any number of connections to any servers): two configurations
    that differ only in their [mirrors] sections give the same primary side for every run;
    in particular a configuration behaves like itself with all mirrors removed. *)
Theorem c20_noninterference_world : forall g1 g2 ops,
  same_servers g1 g2 -> pview (runw g1 world0 ops) = pview (runw g2 world0 ops).
Proof. exact noninterference_world. Qed.
Print Assumptions c20_noninterference_world.

Theorem c20_same_as_without_mirrors : forall g ops,
  pview (runw g world0 ops) = pview (runw (strip_mirrors g) world0 ops).
Proof. exact same_as_without_mirrors. Qed.
Print Assumptions c20_same_as_without_mirrors.

(** The client path does not depend on the mirror tasks: take ANY schedule and erase every step of every
    mirror task and mirror (connecting, failing to connect, delivering, hanging, ...): connections, Server
    states and the log of what the real servers got, with the values returned to the callers, are the same.
    Modelling assumption, stated: a mirror-task step is a step of ITS OWN task and takes nothing from the
    client path but the shared runtime; that the runtime really has a free worker while a mirror task waits
    (no blocking call inside an async task) is outside the model and is what the round-trip latency monitor of
    props/c20.py observes on the real code. *)
Theorem c20_client_path_independent : forall g ops w1 w2, pview w1 = pview w2 ->
  pview (runw g w1 ops) = pview (runw g w2 (filter client_op ops)).
Proof. exact client_path_independent. Qed.
Print Assumptions c20_client_path_independent.

(** send has no mirror-dependent waiting state: it is a total function whose primary result
    is fixed by (server state, buffer, outcome of the real write) alone, and each mirror
    channel is decided by its own fullness/closedness (the early return is redundant). *)
Theorem c20_never_blocks : forall s b ok,
  exists s' out, out = (b, ok) /\
    forall cs, send s cs b ok = (s', map (fun c => if unavailable c then c else push b c) cs, out).
Proof. exact never_blocks. Qed.
Print Assumptions c20_never_blocks.

(** The fan-out to mirror j does not depend on the state of any mirror i <> j: one send gives channel j the
    same result whatever the other channels are (a full, closed or stalled mirror listed BEFORE j does not stop
    the fan-out), and over whole runs mirror j ends in the same state -- queue, connection, everything it was
    handed -- when all other mirrors are replaced by anything and all their steps are erased. *)
Theorem c20_mirrors_independent_send : forall cs1 cs2 b j,
  nth_error cs1 j = nth_error cs2 j ->
  nth_error (mirror_send cs1 b) j = nth_error (mirror_send cs2 b) j.
Proof. exact mirrors_independent_send. Qed.
Print Assumptions c20_mirrors_independent_send.

Theorem c20_mirrors_independent : forall ops s m1 m2 j,
  nth_error m1 j = nth_error m2 j ->
  nth_error (snd (fst (run s m1 ops))) j =
  nth_error (snd (fst (run s m2 (filter (concerns j) ops)))) j.
Proof. exact mirrors_independent. Qed.
Print Assumptions c20_mirrors_independent.

(** A mirror connection's lifetime: the connection number of a mirror task changes only by a reconnect while the
    task holds no connection, and a held connection is lost only by a failure step (read error / the mirror
    closes, write error, task end) -- never by a forwarded request or by anything the mirror answers. *)
Theorem c20_mirror_conn_replaced_only_after_failure : forall e c,
  (epoch (env_step e c) <> epoch c ->
     e = Reconnect /\ lnk c = Down /\ closed c = false /\ epoch (env_step e c) = S (epoch c)) /\
  (lnk c = Up -> lnk (env_step e c) = Down -> is_failure e = true) /\
  (forall b, epoch (chan_step c (inl b)) = epoch c /\ lnk (chan_step c (inl b)) = lnk c /\
             handed (chan_step c (inl b)) = handed c).
Proof.
  intros e c. split; [exact (epoch_changes_only_on_reconnect e c)|].
  split; [exact (link_lost_only_by_failure e c) | intros b; exact (offer_keeps_connection b c)].
Qed.
Print Assumptions c20_mirror_conn_replaced_only_after_failure.

(** While nothing fails, everything a mirror of a server connection is handed goes over ONE connection (the first
    and only one the task opens), in any interleaving of offers, deliveries, replies and (re)connect attempts;
    and inside a run the channel of mirror j evolves by exactly these per-channel steps. *)
Theorem c20_mirror_one_continuous_connection : forall xs ep b,
  no_failure xs = true -> In (ep, b) (handed (fold_left chan_step xs new_chan)) ->
  ep = 1 /\ epoch (fold_left chan_step xs new_chan) = 1.
Proof. exact mirror_conn_lifetime. Qed.
Print Assumptions c20_mirror_one_continuous_connection.

Theorem c20_run_channel_view : forall ops s m j,
  nth_error (snd (fst (run s m ops))) j =
  option_map (fold_left chan_step (flat_map (view j) ops)) (nth_error m j).
Proof. intros. apply run1_chan_view. Qed.
Print Assumptions c20_run_channel_view.

(** In the pooler a send on a live connection is logged in the very step it is issued, in
    every state of every mirror: there is no enabling condition. *)
Theorem c20_send_always_completes : forall g w cid c b ok,
  nth_error (conns w) cid = Some c -> c_alive c = true ->
  plog (step g w (Send cid b ok)) = plog w ++ [(cid, b, ok)].
Proof. exact send_always_completes. Qed.
Print Assumptions c20_send_always_completes.

(** What mirror [m] of connection [cid] has been handed is an in-order subsequence of the
    whole buffers passed to send on that very connection, item by item identical; and [m] is
    an entry of the connection's own shard whose mirroring_target_index equals the
    connection's server index (attachment by index equality only). *)
Theorem c20_mirror_sees_subsequence : forall g ops cid c m,
  nth_error (conns (runw g world0 ops)) cid = Some c -> In m (c_chans c) ->
  (exists sh, nth_error g (c_shard c) = Some sh /\ c_index c < length (servers sh) /\
              nth_error (mirrors sh) (mc_idx m) = Some (mc_cfg m) /\
              m_target (mc_cfg m) = c_index c) /\
  Subseq (map snd (handed (mc_chan m))) (sent_on cid (plog (runw g world0 ops))).
Proof. exact mirror_sees_subsequence. Qed.
Print Assumptions c20_mirror_sees_subsequence.

(** Never a buffer of another server: every buffer a mirror was handed was passed to send on a
    connection of the server the mirror targets. *)
Theorem c20_mirror_only_own_server : forall g ops cid c m ep b,
  nth_error (conns (runw g world0 ops)) cid = Some c -> In m (c_chans c) ->
  In (ep, b) (handed (mc_chan m)) ->
  m_target (mc_cfg m) = c_index c /\ exists ok, In (cid, b, ok) (plog (runw g world0 ops)).
Proof. exact mirror_only_own_server. Qed.
Print Assumptions c20_mirror_only_own_server.

(** The attachment function is exactly "entries of the shard whose target equals the index". *)
Theorem c20_attachment : forall g sh idx i mc,
  In (i, mc) (mirrors_of g sh idx) <->
  exists s, nth_error g sh = Some s /\ idx < length (servers s) /\
            nth_error (mirrors s) i = Some mc /\ m_target mc = idx.
Proof. exact mirrors_of_spec. Qed.
Print Assumptions c20_attachment.

(** A configuration pgcat accepts (Shard::validate: every mirroring_target_index names a server of the
    shard) attaches EVERY mirror, to exactly the server it names: no mirror is silently unused. *)
Theorem c20_valid_cfg_attaches_all : forall g sh s i mc,
  valid_cfg g = true -> nth_error g sh = Some s -> nth_error (mirrors s) i = Some mc ->
  In (i, mc) (mirrors_of g sh (m_target mc)) /\
  forall idx, In (i, mc) (mirrors_of g sh idx) -> idx = m_target mc.
Proof. exact valid_cfg_attaches_all. Qed.
Print Assumptions c20_valid_cfg_attaches_all.

(** An offered buffer is enqueued whole (at the tail) or dropped whole; a delivery hands over
    exactly the oldest queued buffer; every other step only removes whole buffers. *)
Theorem c20_no_partial : forall cs b n c,
  nth_error cs n = Some c ->
  nth_error (mirror_send cs b) n = Some c \/
  (unavailable c = false /\ nth_error (mirror_send cs b) n = Some (push b c)).
Proof. exact mirror_send_no_partial. Qed.
Print Assumptions c20_no_partial.

Theorem c20_no_partial_deliver : forall c,
  env_step Deliver c = c \/
  exists b r, q c = b :: r /\ q (env_step Deliver c) = r /\
              handed (env_step Deliver c) = handed c ++ [(epoch c, b)].
Proof. exact deliver_whole. Qed.
Print Assumptions c20_no_partial_deliver.

Theorem c20_env_only_removes : forall e c, Subseq (given (env_step e c)) (given c).
Proof. exact env_step_given. Qed.
Print Assumptions c20_env_only_removes.

(** Memory held for a mirror is bounded by the channel capacity. *)
Theorem c20_queue_bounded : forall g ops cid c m,
  nth_error (conns (runw g world0 ops)) cid = Some c -> In m (c_chans c) ->
  length (q (mc_chan m)) <= capacity.
Proof. exact queue_bounded. Qed.
Print Assumptions c20_queue_bounded.

(** * Non-vacuity and spec validation (all by computation) *)

Definition buf (i : nat) : bytes := [81%N; N.of_nat i].
Definition bufs (n : nat) : list bytes := map buf (seq 0 n).

(** a healthy mirror gets everything, in order *)
Example ex_all_delivered :
  let ops := [Env1 0 Reconnect; Send1 (buf 1) true; Env1 0 Deliver; Send1 (buf 2) true; Env1 0 Deliver] in
  map snd (handed (nth 0 (snd (fst (run srv0 [new_chan] ops))) new_chan)) = [buf 1; buf 2]
  /\ snd (run srv0 [new_chan] ops) = [(buf 1, true); (buf 2, true)].
Proof. vm_compute. split; reflexivity. Qed.

(** a mirror that is down from the start: the first [capacity] buffers are kept, the rest is
    dropped; when it comes up it gets exactly those, whole and in order — and the real server
    got all of them *)
Example ex_overflow :
  let n := capacity + 5 in
  let ops := map (fun b => Send1 b true) (bufs n)
             ++ [Env1 0 Reconnect] ++ repeat (Env1 0 Deliver) n in
  let r := run srv0 [new_chan] ops in
  map snd (handed (nth 0 (snd (fst r)) new_chan)) = firstn capacity (bufs n)
  /\ map fst (snd r) = bufs n
  /\ wire (fst (fst r)) = bufs n.
Proof. vm_compute. repeat split; reflexivity. Qed.

(** two mirrors, one closed: the open one still gets the buffer (no early return);
    both unavailable: nothing is cloned, nothing changes *)
Example ex_early_return :
  let dead := mkChan [] true Down 0 [] in
  map q (mirror_send [dead; new_chan] (buf 7)) = [[]; [buf 7]]
  /\ mirror_send [dead; dead] (buf 7) = [dead; dead].
Proof. vm_compute. split; reflexivity. Qed.

(** a stalled mirror listed first (never connects, its channel fills up) does not keep anything from the healthy
    mirror listed after it *)
Example ex_stalled_first :
  let n := capacity + 8 in
  let ops := [Env1 1 Reconnect] ++ flat_map (fun b => [Send1 b true; Env1 1 Deliver]) (bufs n) in
  let r := run srv0 [new_chan; new_chan] ops in
  map snd (handed (nth 1 (snd (fst r)) new_chan)) = bufs n
  /\ q (nth 0 (snd (fst r)) new_chan) = firstn capacity (bufs n).
Proof. vm_compute. split; reflexivity. Qed.

(** a transaction, a SET, a COPY ... : whatever is forwarded and answered, one connection; a failure, then two *)
Example ex_one_connection :
  let xs := [inr Reconnect; inl (buf 1); inr Deliver; inr Reply; inl (buf 2); inr Deliver; inr Reply; inr Reconnect;
             inl (buf 3); inr Deliver] in
  handed (fold_left chan_step xs new_chan) = [(1, buf 1); (1, buf 2); (1, buf 3)]
  /\ no_failure xs = true
  /\ map fst (handed (fold_left chan_step (xs ++ [inr Fail; inr Reconnect; inl (buf 4); inr Deliver]) new_chan)) = [1; 1; 1; 2].
Proof. vm_compute. repeat split; reflexivity. Qed.

(** a failing write to the mirror loses that buffer only; a failing write to the REAL server
    is reported to the caller and marks the server bad, mirrors or not *)
Example ex_failures :
  let ops := [Env1 0 Reconnect; Send1 (buf 1) true; Send1 (buf 2) true; Env1 0 FailSend;
              Env1 0 Reconnect; Env1 0 Deliver; Send1 (buf 3) false] in
  let r := run srv0 [new_chan] ops in
  handed (nth 0 (snd (fst r)) new_chan) = [(2, buf 2)]
  /\ snd r = [(buf 1, true); (buf 2, true); (buf 3, false)]
  /\ bad (fst (fst r)) = true
  /\ primary_trace r = primary_trace (run srv0 [] ops).
Proof. vm_compute. repeat split; reflexivity. Qed.

(** attachment: shard 0 has servers [s0; s1] and mirrors with targets 1, 0, 5, 1 *)
Definition g_ex : cfg :=
  [mkShard [100%N; 101%N] [mkMirror 200 1; mkMirror 201 0; mkMirror 202 5; mkMirror 203 1];
   mkShard [110%N] [mkMirror 210 0]].

Example ex_mirrors_of :
  map fst (mirrors_of g_ex 0 0) = [1] /\ map fst (mirrors_of g_ex 0 1) = [0; 3]
  /\ mirrors_of g_ex 0 5 = [] /\ mirrors_of g_ex 0 2 = []
  /\ map fst (mirrors_of g_ex 1 0) = [0] /\ mirrors_of g_ex 2 0 = [].
Proof. vm_compute. repeat split; reflexivity. Qed.

Example ex_valid_cfg :
  valid_cfg g_ex = false
  /\ valid_cfg [mkShard [100%N; 101%N] [mkMirror 200 1; mkMirror 201 0]; mkShard [110%N] [mkMirror 210 0]] = true
  /\ valid_cfg [mkShard [100%N] [mkMirror 200 1]] = false.
Proof. vm_compute. repeat split; reflexivity. Qed.

(** a run of the pooler: traffic of server 0 reaches only the mirror that targets 0, traffic of
    server 1 only the two that target 1; the mirror with target 5 is attached to nothing *)
Example ex_world :
  let ops := [Startup 0 0; Startup 0 1; Startup 0 5;
              Env 0 0 Reconnect; Env 1 0 Reconnect; Env 1 1 Reconnect;
              Send 0 (buf 1) true; Send 1 (buf 2) true; Send 0 (buf 3) true;
              Env 0 0 Deliver; Env 0 0 Deliver; Env 1 0 Deliver; Env 1 1 Deliver;
              DropConn 0; Send 0 (buf 4) true] in
  let w := runw g_ex world0 ops in
  map (fun c => map (fun m => (m_addr (mc_cfg m), map snd (handed (mc_chan m)))) (c_chans c)) (conns w)
  = [[(201%N, [buf 1; buf 3])]; [(200%N, [buf 2]); (203%N, [buf 2])]]
  /\ plog w = [(0, buf 1, true); (1, buf 2, true); (0, buf 3, true)]
  /\ pview w = pview (runw (strip_mirrors g_ex) world0 ops).
Proof. vm_compute. repeat split; reflexivity. Qed.

(** Subseq is not trivially true *)
Example ex_subseq_discriminates :
  subseqb bytes_eqb [buf 1; buf 3] [buf 1; buf 2; buf 3] = true
  /\ subseqb bytes_eqb [buf 3; buf 1] [buf 1; buf 2; buf 3] = false
  /\ subseqb bytes_eqb [buf 1; buf 1] [buf 1; buf 2; buf 3] = false.
Proof. vm_compute. repeat split; reflexivity. Qed.
