#!/usr/bin/env python3
"""T1 translator for C13: the literals the command-language model was transcribed from.

  c13_consts.py <repo>/src/query_router.rs <repo>/src/client.rs <out.v> [<out.json>]

Extracts, from the CURRENT source text,
  * the seven raw-string literals of `const CUSTOM_SQL_REGEXES`,
  * the `n => Command::X` table that maps a RegexSet index to a command,
  * per `(Command::X, _) =>` arm of `Client::handle_custom_protocol`: which reply function is
    called (custom_protocol_response_ok / show_response / error_response) with which literal,
and renders them as Gallina definitions (coq/Gen/CmdGen.v); coq/Cmd/Tie.v proves that the
hand-written model (table `forms`, function `handle`) uses exactly these.  A source shape
the extractor does not recognise is reported (exit 3), never guessed.
"""
import json, re, sys

# the literals the grammar coq/Cmd/Spec.v (Lang) was transcribed from
PINNED_REGEXES = [
    r"(?i-u)^ *SET SHARDING KEY TO '?([0-9]+)'? *;? *$",
    r"(?i-u)^ *SET SHARD TO '?([0-9]+|ANY)'? *;? *$",
    r"(?i-u)^ *SHOW SHARD *;? *$",
    r"(?i-u)^ *SET SERVER ROLE TO '(PRIMARY|REPLICA|ANY|AUTO|DEFAULT)' *;? *$",
    r"(?i-u)^ *SHOW SERVER ROLE *;? *$",
    r"(?i-u)^ *SET PRIMARY READS TO '?(on|off|default)'? *;? *$",
    r"(?i-u)^ *SHOW PRIMARY READS *;? *$",
]
COMMANDS = ["SetShardingKey", "SetShard", "ShowShard", "SetServerRole", "ShowServerRole",
            "SetPrimaryReads", "ShowPrimaryReads", "InvalidShardingKey"]
KIND = {"custom_protocol_response_ok": "ok", "show_response": "show", "error_response": "err"}


class Shape(Exception):
    pass


def fn_body(src, header_re):
    """text of the body { .. } of the first function whose header matches (strings, char
    literals and // comments are skipped while counting braces)"""
    m = re.search(header_re, src)
    if not m:
        raise Shape("function header not found: " + header_re)
    depth, j, instr, start = 0, m.end(), False, None
    chr_lit = re.compile(r"'(\\.|[^\\'])'")
    while j < len(src):
        c = src[j]
        if instr:
            if c == "\\":
                j += 1
            elif c == '"':
                instr = False
        else:
            cm = chr_lit.match(src, j) if c == "'" else None
            if cm:
                j = cm.end()
                continue
            if c == '"':
                instr = True
            elif c == "/" and src.startswith("//", j):
                j = src.index("\n", j)
                continue
            elif c == "{":
                if depth == 0:
                    start = j
                depth += 1
            elif c == "}":
                depth -= 1
                if depth == 0:
                    return src[start:j + 1]
        j += 1
    raise Shape("unbalanced braces")


def extract_regexes(qr):
    m = re.search(r"const\s+CUSTOM_SQL_REGEXES\s*:\s*\[\s*&str\s*;\s*(\d+)\s*\]\s*=\s*\[(.*?)\];", qr, re.S)
    if not m:
        raise Shape("const CUSTOM_SQL_REGEXES: [&str; N] = [...] not found")
    n = int(m.group(1))
    body = m.group(2)
    lits = re.findall(r'r"([^"]*)"', body)
    rest = re.sub(r'r"[^"]*"', "", body)
    if re.sub(r"[\s,]", "", re.sub(r"//[^\n]*", "", rest)):
        raise Shape("CUSTOM_SQL_REGEXES contains something other than raw string literals: %r" % rest.strip()[:80])
    if len(lits) != n:
        raise Shape("CUSTOM_SQL_REGEXES declares %d entries, %d literals found" % (n, len(lits)))
    return lits


def extract_index_map(qr):
    body = fn_body(qr, r"pub\s+fn\s+try_execute_command\s*\(")
    m = re.search(r"let\s+command\s*=\s*match\s+matches\[0\]\s*\{(.*?)\};", body, re.S)
    if not m:
        raise Shape("`let command = match matches[0] { .. }` not found")
    arms = re.findall(r"(\d+)\s*=>\s*Command::(\w+)\s*,", m.group(1))
    idx = [int(a) for a, _ in arms]
    if idx != list(range(len(arms))):
        raise Shape("command index arms are not 0..n-1 in order: %r" % idx)
    for _, c in arms:
        if c not in COMMANDS:
            raise Shape("unknown command " + c)
    rule = re.search(r"if\s+matches\.len\(\)\s*!=\s*1\s*\{", body) is not None
    return [c for _, c in arms], rule


def extract_replies(cl):
    body = fn_body(cl, r"async\s+fn\s+handle_custom_protocol\s*\(")
    toks = re.finditer(r'\(Command::(\w+)\s*,|\b(custom_protocol_response_ok|show_response|error_response)\s*\(|"((?:[^"\\]|\\.)*)"', body)
    cur, callee, out = None, None, []
    for t in toks:
        if t.group(1):
            cur, callee = t.group(1), None
        elif t.group(2):
            callee = t.group(2)
        else:
            if cur is None or callee is None:
                raise Shape("string literal %r outside a Command arm / reply call" % t.group(3))
            if "\\" in t.group(3):
                raise Shape("escape sequence in literal %r" % t.group(3))
            out.append((cur, KIND[callee], t.group(3)))
    return out


def coq_bytes(s):
    return "[" + "; ".join(str(b) for b in s.encode()) + "]%N"


def pieces(fmt):
    return re.split(r"\{(?::\?)?\}", fmt)


def render(regexes, order, rule, replies):
    L = ["(* GENERATED by translate/c13_consts.py from src/query_router.rs and src/client.rs — do not edit *)",
         "From Coq Require Import NArith List.", "From PV Require Import Cmd.Model.", "Import ListNotations.", ""]
    L.append("Definition regex_literals : list (list N) :=\n  [ " + ";\n    ".join(coq_bytes(r) for r in regexes) + " ].")
    L.append("Definition cmd_order : list cmd := [" + "; ".join(order) + "].")
    L.append("Definition exactly_one_rule : bool := %s." % ("true" if rule else "false"))
    seen = {}
    for c, kind, lit in replies:
        name = "gen_%s_%s" % (c, kind)
        if name in seen:
            raise Shape("two %s replies in the arm of %s" % (kind, c))
        seen[name] = 1
        if kind == "err":
            L.append("Definition %s : list (list N) := [%s]." % (name, "; ".join(coq_bytes(p) for p in pieces(lit))))
        else:
            L.append("Definition %s : list N := %s." % (name, coq_bytes(lit)))
    return "\n".join(L) + "\n"


def main():
    qr = open(sys.argv[1]).read()
    cl = open(sys.argv[2]).read()
    try:
        regexes = extract_regexes(qr)
        order, rule = extract_index_map(qr)
        replies = extract_replies(cl)
        text = render(regexes, order, rule, replies)
    except Shape as e:
        print("translator-shape-changed: %s" % e)
        return 3
    open(sys.argv[3], "w").write(text)
    info = {"regexes": regexes, "pinned": PINNED_REGEXES, "regexes_match_pinned": regexes == PINNED_REGEXES,
            "cmd_order": order, "exactly_one_rule": rule, "replies": replies}
    if len(sys.argv) > 4:
        json.dump(info, open(sys.argv[4], "w"), indent=1)
    return 0


if __name__ == "__main__":
    sys.exit(main())
