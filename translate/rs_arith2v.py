#!/usr/bin/env python3
"""T1 translator: straight-line integer Rust (the subset used by src/sharding.rs)
-> Gallina over the primitives of coq/Common/RustInt.v.

usage: rs_arith2v.py <sharding.rs> <out.v>
Exits 3 with 'translator-shape-changed: ...' on anything outside the subset.

Accepted subset (anything else => shape-changed):
  const NAME: T = <int literal>;
  fn name(params) -> ret { stmts ; tail-expr }
  stmts:  let [mut] x[: T] = e;   let (pats) = e;   x = e;   x op= e;
  exprs:  literals (dec/hex, _ separators, u32/u64 suffix), variables, self.shards,
          Self::f(args), x.wrapping_add(e) / wrapping_sub, unary ! , binary
          + - ^ | & << >> % >= < , `e as T`, (tuple), if c { a } else { b },
          std::mem::size_of::<u32>()
"""
import re, sys

FUNS = ["rot", "mix", "_final", "combine", "pg_u32_hash", "pg_bigint_hash"]


class Shape(Exception):
    pass


TOK = re.compile(r"""\s*(?:(//[^\n]*)|(0x[0-9a-fA-F_]+(?:_?[ui](?:8|16|32|64|size))?|\d[\d_]*(?:_?[ui](?:8|16|32|64|size))?)|([A-Za-z_][A-Za-z_0-9]*)|(<<=|>>=|::|<<|>>|\^=|\|=|&=|\+=|-=|>=|<=|==|!=|->|[-+*/%^|&!<>=(){}\[\],;:.#]))""")


def tokenize(s):
    out, i = [], 0
    while i < len(s):
        m = TOK.match(s, i)
        if not m:
            if s[i:].strip() == "":
                break
            raise Shape("cannot tokenize at: %r" % s[i:i + 30])
        i = m.end()
        if m.group(1):
            continue
        if m.group(2):
            out.append(("num", m.group(2)))
        elif m.group(3):
            out.append(("id", m.group(3)))
        else:
            out.append(("op", m.group(4)))
    return out


def find_fn(src, name):
    m = re.search(r"fn\s+%s\s*\(" % re.escape(name), src)
    if not m:
        raise Shape("fn %s not found" % name)
    i = src.index("{", m.end())
    depth, j = 0, i
    while True:
        if src[j] == "{":
            depth += 1
        elif src[j] == "}":
            depth -= 1
            if depth == 0:
                break
        j += 1
    return src[m.start():i], src[i + 1:j]


def parse_num(t):
    m = re.match(r"^(0x[0-9a-fA-F_]+?|\d[\d_]*?)_?((?:[ui](?:8|16|32|64|size))?)$", t)
    if not m:
        raise Shape("bad literal " + t)
    body, suf = m.group(1).replace("_", ""), m.group(2)
    return int(body, 0), (suf or None)


class P:
    def __init__(self, toks, env, consts, sigs):
        self.t, self.i, self.env, self.consts, self.sigs = toks, 0, env, consts, sigs

    def peek(self, k=0):
        return self.t[self.i + k] if self.i + k < len(self.t) else ("eof", "")

    def eat(self, v=None):
        tok = self.peek()
        if v is not None and tok[1] != v:
            raise Shape("expected %r, got %r" % (v, tok[1]))
        self.i += 1
        return tok

    # ---- types
    def ty(self):
        k, v = self.eat()
        if v == "(":
            ts = []
            while self.peek()[1] != ")":
                ts.append(self.ty())
                if self.peek()[1] == ",":
                    self.eat()
            self.eat(")")
            return tuple(ts)
        if v in ("u32", "u64", "i64", "usize", "bool"):
            return v
        raise Shape("unsupported type " + v)

    # ---- expressions: returns (gallina, type) ; type None = untyped int literal
    def expr(self):
        return self.cmp()

    def lit(self, e, want):
        g, t = e
        if t is None:
            if want in ("i64",):
                return ("(%s)%%Z" % g, want)
            return ("%s" % g, want)
        return e

    def unify(self, a, b, what):
        if a[1] is None and b[1] is None:
            raise Shape("cannot type literal-only expression in " + what)
        if a[1] is None:
            a = self.lit(a, b[1])
        if b[1] is None:
            b = self.lit(b, a[1])
        if a[1] != b[1]:
            raise Shape("type mismatch %s vs %s in %s" % (a[1], b[1], what))
        return a, b

    def binop(self, op, a, b):
        if op in ("<<", ">>"):
            if b[1] is None:
                b = (b[0], "shift")
            if a[1] is None:
                raise Shape("shift of untyped literal")
            if a[1] == "i64":
                if op != ">>":
                    raise Shape("i64 << unsupported")
                return ("(i64_shr %s %s)" % (a[0], b[0]), "i64")
            if a[1] not in ("u32", "u64"):
                raise Shape("shift on " + str(a[1]))
            return ("(%s_%s %s %s)" % (a[1], "shl" if op == "<<" else "shr", a[0], b[0]), a[1])
        a, b = self.unify(a, b, op)
        t = a[1]
        names = {"^": "xor", "|": "or", "&": "and", "+": "add", "-": "sub"}
        if op in names:
            if t not in ("u32", "u64"):
                raise Shape("%s on %s" % (op, t))
            if op == "-" and t != "u32":
                raise Shape("- on " + t)
            return ("(%s_%s %s %s)" % (t, names[op], a[0], b[0]), t)
        if op == "%":
            if t != "usize":
                raise Shape("% on " + t)
            return ("(usize_rem %s %s)" % (a[0], b[0]), t)
        if op in (">=", "<"):
            if t != "i64":
                raise Shape("comparison on " + t)
            return ("(i64_%s %s %s)" % ("ge" if op == ">=" else "lt", a[0], b[0]), "bool")
        raise Shape("operator " + op)

    def level(self, ops, sub):
        a = sub()
        while self.peek()[0] == "op" and self.peek()[1] in ops:
            op = self.eat()[1]
            b = sub()
            a = self.binop(op, a, b)
        return a

    def cmp(self):
        return self.level((">=", "<"), self.bor)

    def bor(self):
        return self.level(("|",), self.bxor)

    def bxor(self):
        return self.level(("^",), self.band)

    def band(self):
        return self.level(("&",), self.shift)

    def shift(self):
        return self.level(("<<", ">>"), self.add)

    def add(self):
        return self.level(("+", "-"), self.mul)

    def mul(self):
        return self.level(("%",), self.cast)

    def cast(self):
        a = self.unary()
        while self.peek() == ("id", "as"):
            self.eat()
            to = self.ty()
            if a[1] is None:
                a = self.lit(a, to)
                continue
            key = "cast_%s_%s" % (a[1], to)
            if key not in ("cast_u64_u32", "cast_u32_u64", "cast_u64_usize", "cast_i64_u32",
                           "cast_i64_u64", "cast_usize_u32", "cast_u32_u32"):
                raise Shape("unsupported cast " + key)
            a = ("(%s %s)" % (key, a[0]), to)
        return a

    def unary(self):
        if self.peek() == ("op", "!"):
            self.eat()
            a = self.unary()
            if a[1] not in ("u32", "u64"):
                raise Shape("! on " + str(a[1]))
            return ("(%s_not %s)" % (a[1], a[0]), a[1])
        return self.postfix()

    def args(self):
        self.eat("(")
        xs = []
        while self.peek()[1] != ")":
            xs.append(self.expr())
            if self.peek()[1] == ",":
                self.eat()
        self.eat(")")
        return xs

    def postfix(self):
        a = self.primary()
        while self.peek() == ("op", "."):
            self.eat()
            name = self.eat()[1]
            if name in ("wrapping_add", "wrapping_sub"):
                (b,) = self.args()
                a, b = self.unify(a, b, name)
                if a[1] not in ("u32", "u64"):
                    raise Shape(name + " on " + str(a[1]))
                a = ("(%s_w%s %s %s)" % (a[1], name[9:], a[0], b[0]), a[1])
            else:
                raise Shape("method ." + name)
        return a

    def primary(self):
        k, v = self.peek()
        if k == "num":
            self.eat()
            n, suf = parse_num(v)
            return (str(n), suf)
        if v == "(":
            self.eat()
            xs = [self.expr()]
            while self.peek()[1] == ",":
                self.eat()
                xs.append(self.expr())
            self.eat(")")
            if len(xs) == 1:
                return xs[0]
            if any(x[1] is None for x in xs):
                raise Shape("untyped literal in tuple")
            return ("(%s)" % ", ".join(x[0] for x in xs), tuple(x[1] for x in xs))
        if v == "if":
            self.eat()
            c = self.expr()
            if c[1] != "bool":
                raise Shape("if condition not bool")
            self.eat("{"); a = self.expr(); self.eat("}")
            self.eat("else")
            self.eat("{"); b = self.expr(); self.eat("}")
            a, b = self.unify(a, b, "if")
            return ("(if %s then %s else %s)" % (c[0], a[0], b[0]), a[1])
        if v == "Self":
            self.eat(); self.eat("::")
            f = self.eat()[1]
            if f not in self.sigs:
                raise Shape("call to unknown fn " + f)
            ptys, rty = self.sigs[f]
            xs = self.args()
            if len(xs) != len(ptys):
                raise Shape("arity of " + f)
            gs = []
            for x, pt in zip(xs, ptys):
                x = self.lit(x, pt)
                if x[1] != pt:
                    raise Shape("argument type %s vs %s in call to %s" % (x[1], pt, f))
                gs.append(x[0])
            return ("(%s %s)" % (gname(f), " ".join(gs)), rty)
        if v == "self":
            self.eat(); self.eat(".")
            f = self.eat()[1]
            if f != "shards":
                raise Shape("self." + f)
            return ("shards", "usize")
        if v == "std":
            # std::mem::size_of::<u32>()
            seq = ["std", "::", "mem", "::", "size_of", "::", "<"]
            for s in seq:
                self.eat(s)
            t = self.ty()
            self.eat(">"); self.eat("("); self.eat(")")
            size = {"u32": 4, "u64": 8, "i64": 8, "usize": 8}[t]
            return (str(size), "usize")
        if k == "id":
            self.eat()
            if v in self.env:
                return (self.env[v][0], self.env[v][1])
            if v in self.consts:
                return (v, self.consts[v][1])
            raise Shape("unknown identifier " + v)
        raise Shape("unexpected token %r" % v)


def gname(f):
    return {"_final": "final_"}.get(f, f)


def translate_fn(src, name, consts, sigs):
    header, body = find_fn(src, name)
    hm = re.search(r"\((.*)\)\s*->\s*(.*)$", header.replace("\n", " "), re.S)
    if not hm:
        raise Shape("signature of " + name)
    ht = tokenize(hm.group(1))
    hp = P(ht, {}, consts, sigs)
    params = []
    has_self = False
    while hp.peek()[0] != "eof":
        if hp.peek()[1] == "&":
            hp.eat(); hp.eat("self"); has_self = True
        else:
            if hp.peek()[1] == "mut":
                hp.eat()
            pn = hp.eat()[1]; hp.eat(":"); pt = hp.ty()
            params.append((pn, pt))
        if hp.peek()[1] == ",":
            hp.eat()
    rp = P(tokenize(hm.group(2)), {}, consts, sigs)
    rty = rp.ty()
    sigs[name] = ([t for _, t in params] + (["usize"] if has_self else []), rty)

    env = {pn: (pn + "0", pt) for pn, pt in params}
    counter = {pn: 0 for pn, _ in params}

    def fresh(v):
        counter[v] = counter.get(v, -1) + 1
        return "%s%d" % (v, counter[v])

    p = P(tokenize(body), env, consts, sigs)
    lines = []
    tail = None
    while p.peek()[0] != "eof":
        k, v = p.peek()
        if v == "let":
            p.eat()
            if p.peek()[1] == "(":
                p.eat()
                pats = []
                while p.peek()[1] != ")":
                    if p.peek()[1] == "mut":
                        p.eat()
                    pats.append(p.eat()[1])
                    if p.peek()[1] == ",":
                        p.eat()
                p.eat(")"); p.eat("=")
                e = p.expr(); p.eat(";")
                if not isinstance(e[1], tuple) or len(e[1]) != len(pats):
                    raise Shape("tuple pattern arity")
                names = []
                for pn, pt in zip(pats, e[1]):
                    g = fresh(pn.lstrip("_") if pn.lstrip("_") else pn)
                    names.append((pn, g, pt))
                lines.append("let '(%s) := %s in" % (", ".join(g for _, g, _ in names), e[0]))
                for pn, g, pt in names:
                    env[pn] = (g, pt)
            else:
                if p.peek()[1] == "mut":
                    p.eat()
                x = p.eat()[1]
                ann = None
                if p.peek()[1] == ":":
                    p.eat(); ann = p.ty()
                p.eat("=")
                e = p.expr(); p.eat(";")
                if e[1] is None:
                    if ann is None:
                        raise Shape("untyped let " + x)
                    e = p.lit(e, ann)
                if ann is not None and e[1] != ann:
                    if ann == "u32" and e[1] == "usize":
                        raise Shape("let type mismatch")
                    raise Shape("let %s: %s = <%s>" % (x, ann, e[1]))
                g = fresh(x)
                lines.append("let %s := %s in" % (g, e[0]))
                env[x] = (g, e[1])
        elif k == "id" and p.peek(1)[1] in ("=", "^=", "|=", "&=", "+=", "-=") and v in env:
            x = p.eat()[1]
            op = p.eat()[1]
            e = p.expr(); p.eat(";")
            cur = (env[x][0], env[x][1])
            if op != "=":
                e = p.binop(op[0], cur, e)
            else:
                e = p.lit(e, cur[1]) if e[1] is None else e
                if e[1] != cur[1]:
                    raise Shape("assignment type mismatch for " + x)
            g = fresh(x)
            lines.append("let %s := %s in" % (g, e[0]))
            env[x] = (g, cur[1])
        else:
            tail = p.expr()
            if p.peek()[0] != "eof":
                raise Shape("statement after tail expression in " + name)
    if tail is None:
        raise Shape("no tail expression in " + name)
    if tail[1] != rty:
        raise Shape("return type of %s: %s vs %s" % (name, tail[1], rty))

    def cty(t):
        return "Z" if t == "i64" else "N"
    ps = " ".join("(%s0 : %s)" % (pn, cty(pt)) for pn, pt in params)
    if has_self:
        ps += " (shards : N)"
    out = "Definition %s %s :=\n" % (gname(name), ps)
    for l in lines:
        out += "  " + l + "\n"
    out += "  %s.\n" % tail[0]
    return out


def main():
    src = open(sys.argv[1]).read()
    # drop the test module
    cut = src.find("#[cfg(test)]")
    if cut >= 0:
        src = src[:cut]
    out = ["(* GENERATED by translate/rs_arith2v.py from src/sharding.rs -- do not edit *)",
           "From Coq Require Import ZArith NArith.", "From PV Require Import Common.RustInt.",
           "Open Scope N_scope.", ""]
    try:
        consts = {}
        for m in re.finditer(r"const\s+([A-Z_0-9]+)\s*:\s*(u32|u64)\s*=\s*([^;]+);", src):
            n, suf = parse_num(m.group(3).strip())
            consts[m.group(1)] = (n, m.group(2))
            out.append("Definition %s : N := %d." % (m.group(1), n))
        if "PARTITION_HASH_SEED" not in consts:
            raise Shape("PARTITION_HASH_SEED not found")
        sigs = {}
        for f in FUNS:
            out.append("")
            out.append(translate_fn(src, f, consts, sigs))
        # dispatch in Sharder::shard: which function serves PgBigintHash
        hdr, body = find_fn(src, "shard")
        m = re.search(r"ShardingFunction::PgBigintHash\s*=>\s*self\.(\w+)\(key\)", body)
        m2 = re.search(r"ShardingFunction::Sha1\s*=>\s*self\.(\w+)\(key\)", body)
        if not m or not m2 or m.group(1) != "pg_bigint_hash" or m2.group(1) != "sha1":
            raise Shape("Sharder::shard dispatch changed")
        out.append("Definition shard_pg (key0 : Z) (shards : N) : N := pg_bigint_hash key0 shards.")
    except Shape as e:
        print("translator-shape-changed: %s" % e)
        sys.exit(3)
    open(sys.argv[2], "w").write("\n".join(out) + "\n")


if __name__ == "__main__":
    main()
