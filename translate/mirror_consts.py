#!/usr/bin/env python3
"""T1 translator for C20: the constants and the shape facts of the mirroring code the model
coq/Mirror/Model.v is written from.

usage: mirror_consts.py <mirrors.rs> <server.rs> <pool.rs> <out.v>

Extracted from the CURRENT source on every run (nothing is guessed; anything unexpected =>
exit 3 with 'translator-shape-changed: ...'):

  src/mirrors.rs
    * `channel::<Bytes>(N)`  (exactly one)            -> mirror_chan_capacity : nat
    * `channel::<()>(M)`     (exactly one)            -> mirror_exit_capacity : nat
    * no blocking call (thread::sleep, block_on, ...) in the file; the task's write to the mirror is
      `match server.send(..).await { Ok / Err => mark_bad }` with no timeout around it; create_pool gives the
      mirror's ServerPool `None` for plugins
           -> mirror_task_has_no_blocking_call, mirror_write_whole_or_marked_bad, mirror_pool_has_no_plugins : bool
    * `pub fn send(&mut self, bytes: &BytesMut)` and `pub fn disconnect(&mut self)` of
      MirroringManager are NOT `async` and contain no `.await` (a plain fn cannot wait),
      `send` hands the buffer over with `try_send` only, and its early return is guarded by
      `.all(|sender| sender.capacity() == 0 || sender.is_closed())`
                                                       -> mirror_send_is_sync : bool
    * the mirror task takes a connection (`pool.get().await`) BEFORE the `tokio::select!`, and
      the error arm of that match is `continue`        -> mirror_task_gets_conn_first : bool
  src/server.rs
    * `pub async fn send`: first statement is `self.mirror_send(messages);` (no await on it),
      `mirror_send`/`mirror_disconnect` are plain fns  -> server_send_mirrors_first : bool
    * `mirror_manager: match address.mirrors.len() { 0 => None, _ => Some(MirroringManager::from_addresses(`
  src/pool.rs
    * the attachment test `if mirror_settings.mirroring_target_index != address_index { continue; }`
                                                       -> mirror_attach_by_index_equality : bool
"""
import re, sys


class Shape(Exception):
    pass


def strip_comments(src):
    out, i, n = [], 0, len(src)
    while i < n:
        if src.startswith("//", i):
            while i < n and src[i] != "\n":
                i += 1
            continue
        if src.startswith("/*", i):
            j = src.find("*/", i + 2)
            i = n if j < 0 else j + 2
            continue
        if src[i] == '"':
            j = i + 1
            while j < n and src[j] != '"':
                j += 2 if src[j] == "\\" else 1
            out.append('""')
            i = j + 1
            continue
        out.append(src[i])
        i += 1
    return "".join(out)


def fn_body(src, header_re):
    m = re.search(header_re, src)
    if not m:
        raise Shape("function header not found: " + header_re)
    i = src.index("{", m.end() - 1)
    depth, j = 0, i
    while j < len(src):
        if src[j] == "{":
            depth += 1
        elif src[j] == "}":
            depth -= 1
            if depth == 0:
                return src[m.start():i], src[i:j + 1]
        j += 1
    raise Shape("unbalanced braces after " + header_re)


def main():
    mirrors, server, pool, out = sys.argv[1:5]
    ms = strip_comments(open(mirrors).read())
    ss = strip_comments(open(server).read())
    ps = strip_comments(open(pool).read())

    caps = re.findall(r"channel::<\s*Bytes\s*>\(\s*(\d+)\s*\)", ms)
    if len(caps) != 1:
        raise Shape("expected exactly one channel::<Bytes>(N) in mirrors.rs, found %d" % len(caps))
    exits = re.findall(r"channel::<\s*\(\)\s*>\(\s*(\d+)\s*\)", ms)
    if len(exits) != 1:
        raise Shape("expected exactly one channel::<()>(M) in mirrors.rs, found %d" % len(exits))
    if re.search(r"unbounded_channel", ms):
        raise Shape("an unbounded channel appeared in mirrors.rs")

    # MirroringManager::send / disconnect
    hdr, body = fn_body(ms, r"pub\s+(async\s+)?fn\s+send\s*\(\s*&mut\s+self\s*,\s*bytes\s*:\s*&BytesMut\s*\)")
    if "async" in hdr or ".await" in body:
        raise Shape("MirroringManager::send is async / awaits")
    if not re.search(r"\.try_send\(", body) or re.search(r"[^_]send\(\s*immutable_bytes", body.replace("try_send", "TRY")):
        raise Shape("MirroringManager::send no longer hands over with try_send only")
    if not re.search(r"\.all\(\s*\|sender\|\s*sender\.capacity\(\)\s*==\s*0\s*\|\|\s*sender\.is_closed\(\)\s*\)\s*\{\s*return;\s*\}", body):
        raise Shape("MirroringManager::send: early-return guard changed")
    hdr, body = fn_body(ms, r"pub\s+(async\s+)?fn\s+disconnect\s*\(\s*&mut\s+self\s*\)")
    if "async" in hdr or ".await" in body or ".try_send(" not in body:
        raise Shape("MirroringManager::disconnect is async / awaits / does not use try_send")

    # the mirror task: connection first, then select!; a failed get does not touch the channel
    hdr, body = fn_body(ms, r"pub\s+fn\s+start\s*\(\s*mut\s+self\s*\)")
    g = body.find("pool.get().await")
    s = body.find("tokio::select!")
    r = body.find("self.bytes_rx.recv()")
    if not (0 <= g < s < r):
        raise Shape("mirror task: order pool.get / select! / bytes_rx.recv changed")
    if not re.search(r"match\s+pool\.get\(\)\.await\s*\{\s*Ok\(server\)\s*=>\s*server\s*,\s*Err\(err\)\s*=>\s*\{.*?continue;\s*\}\s*\}\s*;", body, re.S):
        raise Shape("mirror task: the pool.get() error arm is no longer `continue`")
    if not re.search(r"\.max_size\(\s*1\s*\)", ms):
        raise Shape("mirror pool max_size(1) changed")
    # a mirror task that waits must not hold a runtime worker (c20_client_path_independent assumes mirror-task steps
    # take nothing from the client path): no blocking call anywhere in mirrors.rs
    for pat in (r"thread::sleep", r"\bblock_on\b", r"block_in_place", r"std::sync::mpsc", r"\.recv_timeout\(", r"\.blocking_"):
        if re.search(pat, ms):
            raise Shape("a blocking call (%s) appeared in mirrors.rs" % pat)
    # the write to the mirror is awaited to its end or the connection is marked bad (Deliver / FailSend of the model):
    # no timeout or select around it that could abandon a half-written buffer on a connection that stays in use
    if not re.search(r"match\s+server\.send\(&BytesMut::from\(&bytes\[\.\.\]\)\)\.await\s*\{\s*Ok\(_\)\s*=>.*?Err\(err\)\s*=>\s*\{\s*server\.mark_bad\(", body, re.S):
        raise Shape("mirror task: `match server.send(..).await { Ok(_) => .., Err(err) => { server.mark_bad(..` changed")
    if re.search(r"timeout\s*\(", body):
        raise Shape("mirror task: a timeout appeared inside the task loop")
    # the mirror's own connections run nothing of their own: its ServerPool gets no plugins (no prewarmer)
    hdr2, body2 = fn_body(ms, r"async\s+fn\s+create_pool\s*\(\s*&self\s*\)")
    m2 = re.search(r"ServerPool::new\((.*?)\);", body2, re.S)
    if not m2:
        raise Shape("create_pool: ServerPool::new(..) not found")
    args = [a.strip() for a in re.split(r",\s*\n", m2.group(1).strip().rstrip(",")) if a.strip()]
    if len(args) != 9 or args[5] != "None":
        raise Shape("create_pool: the plugins argument of ServerPool::new is no longer None (%s)" % (args[5] if len(args) > 5 else args))

    # Server::send
    hdr, body = fn_body(ss, r"pub\s+async\s+fn\s+send\s*\(\s*&mut\s+self\s*,\s*messages\s*:\s*&BytesMut\s*\)")
    if not re.match(r"\{\s*self\.mirror_send\(messages\);", body):
        raise Shape("Server::send does not start with self.mirror_send(messages);")
    if not re.search(r"write_all_flush\(\s*&mut\s+self\.stream\s*,\s*messages\s*\)\.await", body):
        raise Shape("Server::send: the write of `messages` to self.stream changed")
    for name in ("mirror_send", "mirror_disconnect"):
        hdr, body = fn_body(ss, r"pub\s+(async\s+)?fn\s+%s\s*\(" % name)
        if "async" in hdr or ".await" in body:
            raise Shape("Server::%s is async / awaits" % name)
    if not re.search(r"mirror_manager\s*:\s*match\s+address\.mirrors\.len\(\)\s*\{\s*0\s*=>\s*None\s*,\s*_\s*=>\s*Some\(\s*MirroringManager::from_addresses\(", ss):
        raise Shape("Server::startup: creation of mirror_manager from address.mirrors changed")
    hdr, body = fn_body(ss, r"fn\s+drop\s*\(\s*&mut\s+self\s*\)")
    if "self.mirror_disconnect();" not in body:
        raise Shape("Drop for Server no longer calls mirror_disconnect")

    # pool.rs attachment
    if not re.search(r"if\s+mirror_settings\.mirroring_target_index\s*!=\s*address_index\s*\{\s*continue;\s*\}", ps):
        raise Shape("pool.rs: mirror attachment test (mirroring_target_index != address_index => continue) changed")
    if not re.search(r"for\s*\(\s*address_index\s*,\s*server\s*\)\s*in\s+shard\.servers\.iter\(\)\.enumerate\(\)", ps):
        raise Shape("pool.rs: address_index is no longer the position in shard.servers")
    if not re.search(r"mirrors\s*:\s*mirror_addresses\s*,", ps):
        raise Shape("pool.rs: Address.mirrors is no longer mirror_addresses")

    v = """(* GENERATED by translate/mirror_consts.py from src/mirrors.rs, src/server.rs, src/pool.rs -- do not edit, never committed *)
Definition mirror_chan_capacity : nat := %d.
Definition mirror_exit_capacity : nat := %d.
Definition mirror_send_is_sync : bool := true.
Definition mirror_task_gets_conn_first : bool := true.
Definition server_send_mirrors_first : bool := true.
Definition mirror_attach_by_index_equality : bool := true.
Definition mirror_task_has_no_blocking_call : bool := true.
Definition mirror_write_whole_or_marked_bad : bool := true.
Definition mirror_pool_has_no_plugins : bool := true.
""" % (int(caps[0]), int(exits[0]))
    open(out, "w").write(v)


if __name__ == "__main__":
    try:
        main()
    except Shape as e:
        print("translator-shape-changed: %s" % e)
        sys.exit(3)
