#!/usr/bin/env python3
"""T1 translator for C03: the buffering thresholds and the arm signatures of the relay code.

usage: relay_consts.py <server.rs> <client.rs> <out.v>

Extracted on every run (nothing is guessed; anything unexpected => exit 3 with
'translator-shape-changed: ...'):

  src/server.rs, `pub async fn recv`:
    * the `match code { ... }` arms; for every arm
        - effect on self.data_available   (0 = set false, 1 = set true, 2 = untouched)
        - effect on self.in_copy_mode     (0 / 1 / 2)
        - break kind                      (0 = never, 1 = always, 2 = `if self.buffer.len() <op> N { break; }`)
        - the two effects as they stand WHEN the arm breaks (an assignment placed after the
          conditional break is not executed on that path)
      -> recv_arm_sigs : list (Z * (Z * Z * Z * Z * Z))   (tag byte, -1 for the `_` arm)
    * the two threshold conditions of the 'D' and 'd' arms
      -> recv_break_D / recv_break_d : Z -> bool      (the comparison itself, rendered in Gallina)
    * `self.buffer.put(&message[..])` precedes the match, `self.buffer.clear()` follows the loop
  src/client.rs:
    * 'd' arm of the transaction loop: `if self.buffer.len() <op> N` -> client_copy_flush : Z -> bool
    * 'c' | 'f' arm: number of receive_server_message calls, and whether it loops -> copy_done_recv_calls
    * send_and_receive_loop: `if !server.is_data_available() { break; }` after the write
"""
import re, sys


class Shape(Exception):
    pass


def strip_comments(src):
    out, i, n = [], 0, len(src)
    while i < n:
        if src.startswith("//", i):
            while i < n and src[i] != "\n":
                i += 1
            continue
        if src.startswith("/*", i):
            j = src.find("*/", i + 2)
            i = n if j < 0 else j + 2
            continue
        if src[i] == '"':
            j = i + 1
            while j < n and src[j] != '"':
                j += 2 if src[j] == "\\" else 1
            out.append('""')
            i = j + 1
            continue
        if src[i] == "'" and i + 2 < n and (src[i + 2] == "'" or (src[i + 1] == "\\" and i + 3 < n and src[i + 3] == "'")):
            k = i + 3 if src[i + 2] == "'" else i + 4
            out.append(src[i:k])
            i = k
            continue
        out.append(src[i])
        i += 1
    return "".join(out)


def block_at(src, i):
    """src[i] == '{' -> (body, index after the closing brace)"""
    if src[i] != "{":
        raise Shape("expected '{' at %r" % src[i:i + 20])
    depth, j = 0, i
    while j < len(src):
        c = src[j]
        if c == "'" and j + 2 < len(src) and src[j + 2] == "'":
            j += 3
            continue
        if c == "{":
            depth += 1
        elif c == "}":
            depth -= 1
            if depth == 0:
                return src[i + 1:j], j + 1
        j += 1
    raise Shape("unbalanced braces")


def find_fn(src, sig):
    m = re.search(sig, src)
    if not m:
        raise Shape("function %s not found" % sig)
    i = src.index("{", m.end())
    body, _ = block_at(src, i)
    return body


def split_arms(body):
    """top-level arms of a match body -> [(pattern, armtext)]"""
    arms, i, n = [], 0, len(body)
    while i < n:
        while i < n and body[i] in " \t\r\n,":
            i += 1
        if i >= n:
            break
        j = body.find("=>", i)
        if j < 0:
            raise Shape("arm without '=>': %r" % body[i:i + 40])
        pat = body[i:j].strip()
        k = j + 2
        while k < n and body[k] in " \t\r\n":
            k += 1
        if body[k] == "{":
            text, k = block_at(body, k)
        else:
            e = k
            depth = 0
            while e < n and not (body[e] == "," and depth == 0):
                if body[e] in "({[":
                    depth += 1
                elif body[e] in ")}]":
                    depth -= 1
                e += 1
            text, k = body[k:e], e
        arms.append((pat, text))
        i = k
    return arms


CMP = {">=": ">=?", ">": ">?", "<": "<?", "<=": "<=?", "==": "=?"}


def effect(text, field):
    t = len(re.findall(r"self\.%s\s*=\s*true\s*;" % field, text))
    f = len(re.findall(r"self\.%s\s*=\s*false\s*;" % field, text))
    if t and f:
        raise Shape("arm both sets and clears %s" % field)
    if t + f > 1:
        raise Shape("arm assigns %s more than once" % field)
    return 1 if t else 0 if f else 2


def effect_at_break(text, field):
    """the effect on the path that takes the arm's break: assignments after the break do not count"""
    m = re.search(r"if\s+self\.buffer\.len\(\)\s*(>=|<=|==|>|<)\s*[0-9_]+\s*\{\s*break\s*;\s*\}", text) or re.search(r"\bbreak\s*;", text)
    return effect(text[:m.start()], field) if m else effect(text, field)


def break_kind(text):
    """-> (kind, op, literal)"""
    m = re.search(r"if\s+self\.buffer\.len\(\)\s*(>=|<=|==|>|<)\s*([0-9_]+)\s*\{\s*break\s*;\s*\}", text)
    rest = text
    thr = None
    if m:
        thr = (m.group(1), int(m.group(2).replace("_", "")))
        rest = text[:m.start()] + text[m.end():]
    nb = len(re.findall(r"\bbreak\s*;", rest))
    if thr and nb:
        raise Shape("arm has a conditional and an unconditional break")
    if thr:
        return 2, thr[0], thr[1]
    if nb > 1:
        raise Shape("arm has %d breaks" % nb)
    if nb == 1:
        # must be at the top level of the arm and its last statement
        depth = 0
        pos = re.search(r"\bbreak\s*;", rest).start()
        for ch in rest[:pos]:
            depth += ch == "{"
            depth -= ch == "}"
        if depth != 0 or rest[pos:].replace("break", "").strip(" ;\n\t\r") != "":
            raise Shape("unconditional break is not the last top-level statement of its arm")
        return 1, None, None
    return 0, None, None


def main():
    server_rs, client_rs, out = sys.argv[1:4]
    ssrc = strip_comments(open(server_rs).read())
    csrc = strip_comments(open(client_rs).read())

    recv = find_fn(ssrc, r"pub\s+async\s+fn\s+recv\s*\(")
    if not re.search(r"self\.buffer\.put\(&message\[\.\.\]\)\s*;", recv):
        raise Shape("recv(): `self.buffer.put(&message[..])` not found")
    mi = re.search(r"match\s+code\s*\{", recv)
    if not mi:
        raise Shape("recv(): `match code {` not found")
    if recv.index("self.buffer.put(&message[..])") > mi.start():
        raise Shape("recv(): the frame is no longer buffered before the match")
    mbody, mend = block_at(recv, mi.end() - 1)
    tail = recv[mend:]
    if not re.search(r"let\s+bytes\s*=\s*self\.buffer\.clone\(\)\s*;", tail) or not re.search(r"self\.buffer\.clear\(\)\s*;", tail) or not re.search(r"Ok\(bytes\)", tail):
        raise Shape("recv(): tail `let bytes = self.buffer.clone(); ... self.buffer.clear(); Ok(bytes)` changed")
    sigs, conds = [], {}
    for pat, text in split_arms(mbody):
        tags = []
        for p in pat.split("|"):
            p = p.strip()
            if p == "_":
                tags.append(-1)
            elif re.fullmatch(r"'.'", p):
                tags.append(ord(p[1]))
            else:
                raise Shape("recv(): unexpected arm pattern %r" % pat)
        da, cp = effect(text, "data_available"), effect(text, "in_copy_mode")
        dab, cpb = effect_at_break(text, "data_available"), effect_at_break(text, "in_copy_mode")
        bk, op, lit = break_kind(text)
        if 90 in tags:
            # the Z arm: must read the status byte, accept exactly T / I / E, fail otherwise
            st = re.search(r"match\s+transaction_state\s*\{", text)
            if not st:
                raise Shape("Z arm: match transaction_state not found")
            sb, _ = block_at(text, st.end() - 1)
            pats = sorted(p for p, _ in split_arms(sb))
            if pats != ["'E'", "'I'", "'T'", "_"]:
                raise Shape("Z arm: transaction states %r" % pats)
            rest = text[:st.start()] + text[st.start() + len("match transaction_state ") + len(sb) + 2:]
            bk, op, lit = break_kind(rest)
        for t in tags:
            sigs.append((t, da, cp, bk, dab if bk else da, cpb if bk else cp))
            if bk == 2:
                conds[t] = (op, lit)
    if sorted(conds) != [68, 100]:
        raise Shape("recv(): threshold breaks expected exactly in the 'D' and 'd' arms, found %r" % sorted(conds))

    # client.rs
    marker = re.search(r"'d'\s*=>\s*\{\s*self\.buffer\.put\(&message\[\.\.\]\)\s*;", csrc)
    if not marker:
        raise Shape("client.rs: 'd' arm `self.buffer.put(&message[..]);` not found")
    darm, _ = block_at(csrc, csrc.index("{", marker.start()))
    m = re.search(r"if\s+self\.buffer\.len\(\)\s*(>=|<=|==|>|<)\s*([0-9_]+)\s*\{", darm)
    if not m:
        raise Shape("client.rs 'd' arm: threshold condition not found")
    cbody, _ = block_at(darm, m.end() - 1)
    if not re.search(r"send_server_message\(\s*server\s*,\s*&self\.buffer", cbody) or not re.search(r"self\.buffer\.clear\(\)", cbody):
        raise Shape("client.rs 'd' arm: flush body changed")
    cop, clit = m.group(1), int(m.group(2).replace("_", ""))
    marker = re.search(r"'c'\s*\|\s*'f'\s*=>\s*\{", csrc)
    if not marker:
        raise Shape("client.rs: 'c' | 'f' arm not found")
    carm, _ = block_at(csrc, marker.end() - 1)
    ncalls = len(re.findall(r"\.receive_server_message\(", carm))
    if not re.search(r"self\.buffer\.put\(&message\[\.\.\]\)", carm) or not re.search(r"send_server_message\(\s*server\s*,\s*&self\.buffer", carm):
        raise Shape("client.rs 'c'|'f' arm: flush changed")
    if ncalls != 1:
        raise Shape("client.rs 'c'|'f' arm: %d receive_server_message calls" % ncalls)
    # is the single receive inside `loop { recv; write; if !server.is_data_available() { break; } }` ?
    loops = 0
    lm = re.search(r"\bloop\s*\{", carm)
    if lm:
        lb, _ = block_at(carm, lm.end() - 1)
        a, b = lb.find("receive_server_message"), lb.find("write_all_flush(&mut self.write, &response)")
        c = re.search(r"if\s*!\s*server\.is_data_available\(\)\s*\{\s*break\s*;\s*\}", lb)
        if a < 0 or b < 0 or not c or not (a < b < c.start()):
            raise Shape("client.rs 'c'|'f' arm: loop body changed")
        loops = 1
    elif re.search(r"\bwhile\b", carm):
        raise Shape("client.rs 'c'|'f' arm: unexpected while loop")
    # after the reply: the server is released only if it is not in COPY mode again (a second COPY of the same Query)
    tailc = carm[lm.end():] if lm else carm
    rel = re.search(r"if\s*!\s*server\.in_transaction\(\)\s*\{", tailc)
    release_checks_copy = 0
    if rel:
        rb, _ = block_at(tailc, rel.end() - 1)
        if re.search(r"if\s+self\.transaction_mode\s*&&\s*!\s*server\.in_copy_mode\(\)\s*\{\s*break\s*;", rb):
            release_checks_copy = 1
        elif not re.search(r"if\s+self\.transaction_mode\s*\{\s*break\s*;", rb):
            raise Shape("client.rs 'c'|'f' arm: release condition changed")
    else:
        raise Shape("client.rs 'c'|'f' arm: release block not found")
    # CopyDone/CopyFail outside COPY mode: dropped (buffer cleared, nothing sent)?
    g = re.match(r"\s*if\s*!\s*server\.in_copy_mode\(\)\s*\{", carm)
    outside_dropped = 0
    if g:
        gb, _ = block_at(carm, g.end() - 1)
        if "send_server_message" in gb or "self.buffer.clear()" not in gb or not re.search(r"\bcontinue\s*;", gb):
            raise Shape("client.rs 'c'|'f' arm: not-in-copy guard changed")
        outside_dropped = 1
    # Sync while the server is in COPY mode: `if server.in_copy_mode() { continue; }` first in the 'S' arm?
    sm = None
    for x in re.finditer(r"'S'\s*=>\s*\{", csrc):
        sm = x            # the transaction-loop arm is the last 'S' arm of the file
    if not sm:
        raise Shape("client.rs: 'S' arm not found")
    sarm, _ = block_at(csrc, sm.end() - 1)
    sync_dropped = 1 if re.match(r"\s*if\s+server\.in_copy_mode\(\)\s*\{\s*continue\s*;\s*\}", sarm) else 0
    if not re.search(r"if\s*\*self\.buffer\.first\(\)\.unwrap\(\)\s*==\s*b'S'", sarm):
        raise Shape("client.rs 'S' arm: lone-Sync test changed")
    sarl = find_fn(csrc, r"async\s+fn\s+send_and_receive_loop\s*\(")
    lp = re.search(r"\bloop\s*\{", sarl)
    if not lp:
        raise Shape("send_and_receive_loop: loop not found")
    lbody, _ = block_at(sarl, lp.end() - 1)
    pr, pw, pb = lbody.find("receive_server_message"), lbody.find("write_all_flush(&mut self.write, &response)"), None
    mb = re.search(r"if\s*!\s*server\.is_data_available\(\)\s*\{\s*break\s*;\s*\}", lbody)
    if pr < 0 or pw < 0 or not mb or not (pr < pw < mb.start()):
        raise Shape("send_and_receive_loop: recv / write / `if !server.is_data_available() { break; }` order changed")

    def cond(name, op, lit):
        return "Definition %s (n : Z) : bool := (n %s %d).\n" % (name, CMP[op], lit)

    v = ["(* GENERATED by translate/relay_consts.py from src/server.rs and src/client.rs on every run.  Do not edit. *)",
         "From Coq Require Import ZArith List.", "Import ListNotations.", "Open Scope Z_scope.", "",
         "(* Server::recv: `if self.buffer.len() %s %d { break; }` in the 'D' arm, `%s %d` in the 'd' arm *)" % (conds[68] + conds[100]),
         cond("recv_break_D", *conds[68]) + cond("recv_break_d", *conds[100]),
         "Definition recv_thr_D : Z := %d.\nDefinition recv_thr_d : Z := %d.\n" % (conds[68][1], conds[100][1]),
         "(* client.rs 'd' arm: `if self.buffer.len() %s %d` *)" % (cop, clit),
         cond("client_copy_flush", cop, clit) + "Definition client_copy_thr : Z := %d.\n" % clit,
         "(* arms of `match code` in Server::recv: (tag, (data_available, in_copy_mode, break, data_available when breaking, in_copy_mode when breaking));",
         "   effects: 0 = set false, 1 = set true, 2 = untouched; break: 0 never, 1 always, 2 at the threshold; tag -1 = `_` *)",
         "Definition recv_arm_sigs : list (Z * (Z * Z * Z * Z * Z)) :=\n  [" + ";\n   ".join("(%d, (%d, %d, %d, %d, %d))" % s for s in sorted(sigs, key=lambda s: (s[0] < 0, s[0]))) + "].\n",
         "(* 'c' | 'f' arm: the reply is read in `loop { recv; forward; if !is_data_available() { break } }` (%d);" % loops,
         "   CopyDone/CopyFail while the server is not in COPY mode are dropped (%d); a Sync while it is, is dropped (%d) *)" % (outside_dropped, sync_dropped),
         "Definition copy_done_loops : bool := %s.\nDefinition copy_done_outside_copy_dropped : bool := %s.\nDefinition sync_in_copy_dropped : bool := %s.\n"
         % tuple("true" if x else "false" for x in (loops, outside_dropped, sync_dropped)),
         "(* 'c' | 'f' arm: the server is kept after the reply while it is in COPY mode again (628c2ec) *)",
         "Definition copy_done_release_checks_copy_mode : bool := %s.\n" % ("true" if release_checks_copy else "false")]
    open(out, "w").write("\n".join(v))


if __name__ == "__main__":
    try:
        main()
    except Shape as e:
        print("translator-shape-changed: %s" % e)
        sys.exit(3)
