"""C15 — an accepted configuration is a servable configuration.

P: coq/Config/{Model,Spec,Proofs,Props}.v — validate / from_config / every index operation as
   an executable Gallina model; c15_accepted_servable for ALL configurations, one rejection
   theorem per defect class, c15_key_parse.
T2: bounded grammar of TOML files -> the real config::parse + ConnectionPool::from_config +
   addressing walk + admin SHOW/BAN + ConnectionPool::get against refusing servers
   (harness bin `config`, harness/src/cfgwalk.rs)  vs  the model evaluated in coqc.
Monitor (no model): an accepted file must build and walk without a panic and the addresses
   carrying shard number s must be the servers written under the key denoting s.
"""
import copy, json, os, re, subprocess, sys
from concurrent.futures import ThreadPoolExecutor
import vlib

COQ_FILES = ["Config/Model.v", "Config/Spec.v", "Config/Defaults.v", "Config/Proofs.v", "Config/Props.v"]
PRE = "From PV Require Import Config.Model.\nFrom Coq Require Import ZArith List Bool. Import ListNotations. Open Scope Z_scope."
TMPDIR = os.path.join(vlib.TMP, "c15")
ADMIN = ["SHOW DATABASES", "SHOW POOLS", "SHOW STATS", "SHOW CONFIG", "SHOW BANS", "SHOW LISTS", "SHOW USERS", "SHOW SERVERS",
         "BAN 127.0.0.1 60", "SHOW BANS", "UNBAN 127.0.0.1"]
ROLE_T = {"primary": "Primary", "Primary": "Primary", "replica": "Replica", "Replica": "Replica", "mirror": "Mirror", "Mirror": "Mirror"}
REGEXES = [r"/\* shard_id: (\d+) \*/", r"/\* sharding_key: (\d+) \*/", r"^\d+$", "", "(", "[a-", r"(?P<n", r"(a)\1", r"(?=x)", "*a", r"\p{Foo}"]
U32, U64MAX_TOML = 4294967295, 9223372036854775807
TLSDIR = os.path.join(TMPDIR, "tls")
CERT = os.path.join(vlib.REPO, ".circleci", "server.cert")
KEY = os.path.join(vlib.REPO, ".circleci", "server.key")
CORRUPT, NOPEM, MISSING = os.path.join(TLSDIR, "corrupt.pem"), os.path.join(TLSDIR, "nopem.txt"), os.path.join(TLSDIR, "missing.pem")
TLS_PATHS = [CERT, KEY, CORRUPT, NOPEM, MISSING]
# (name, tls_certificate, tls_private_key)
TLS_OPTIONS = [("pair", CERT, KEY), ("cert_missing", MISSING, KEY), ("key_missing", CERT, MISSING), ("only_cert", CERT, None), ("only_key", None, KEY),
               ("only_missing_key", None, MISSING), ("cert_corrupt", CORRUPT, KEY), ("key_corrupt", CERT, CORRUPT), ("cert_without_pem", NOPEM, KEY),
               ("key_without_pem", CERT, NOPEM), ("swapped", KEY, CERT)]
PLUGS = [{"table_access": (True, ["g"]), "query_logger": True}, {"table_access": (False, ["p", "q"]), "query_logger": None}, {"table_access": None, "query_logger": False},
         {"table_access": None, "query_logger": None}, {"table_access": (True, []), "query_logger": None}]


def write_tls_files():
    os.makedirs(TLSDIR, exist_ok=True)
    open(CORRUPT, "w").write("-----BEGIN CERTIFICATE-----\n!!!notbase64!!!\n-----END CERTIFICATE-----\n")
    open(NOPEM, "w").write("no PEM block in this file\n")
    if os.path.exists(MISSING):
        os.remove(MISSING)


# ----------------------------------------------------------------------------- harness
def _chunk(binp, cases, idx):
    inp = "\n".join(json.dumps(c) for c in cases).encode() + b"\n"
    p = subprocess.run([binp, os.path.join(TMPDIR, "w%d" % idx)], input=inp, stdout=subprocess.PIPE, stderr=subprocess.PIPE, timeout=1200)
    lines = p.stdout.decode().splitlines()
    if p.returncode != 0 or len(lines) != len(cases):
        raise RuntimeError("config harness failed rc=%s: %d/%d lines; stderr: %s" % (p.returncode, len(lines), len(cases), p.stderr.decode()[-800:]))
    return [json.loads(l) for l in lines]


def run_harness(binp, cases, workers=16):
    os.makedirs(TMPDIR, exist_ok=True)
    if not cases:
        return []
    # interleave so that slow (probing) cases spread over the workers
    buckets = [[] for _ in range(min(workers, len(cases)))]
    for i, c in enumerate(cases):
        buckets[i % len(buckets)].append((i, c))
    with ThreadPoolExecutor(max_workers=workers) as ex:
        outs = list(ex.map(lambda t: _chunk(binp, [c for _, c in t[1]], t[0]), list(enumerate(buckets))))
    res = [None] * len(cases)
    for b, o in zip(buckets, outs):
        for (i, _), r in zip(b, o):
            res[i] = r
    return res


# ----------------------------------------------------------------------------- abstract configs
def base_config(rng, nshards=None, probe=False):
    n = nshards if nshards is not None else rng.choice([1, 1, 2, 3, 3, 4])
    port = [0]

    def srv(role):
        port[0] += 1
        return [rng.choice(["127.0.0.1", "127.0.0.2", "127.0.0.3"]), (port[0] - 1) % 9 + 1, role]
    shards = []
    for i in range(n):
        k = rng.choice([0, 1, 2, 3])
        roles = {0: ["primary"], 1: ["primary", "replica"], 2: ["replica", "primary", "replica"], 3: ["replica", "replica"]}[k]
        svs = []
        for r in roles:
            s = srv(r)
            while any(x[0] == s[0] and x[1] == s[1] for x in svs):
                s = srv(r)
            svs.append(s)
        shards.append({"key": str(i), "database": "d%d" % i, "servers": svs, "mirrors": None})
    users = [{"key": "0", "username": "u", "password": "pw", "pool_size": rng.choice([1, 5, 20]), "min_pool_size": None,
              "connect_timeout": None, "idle_timeout": None, "server_lifetime": None,
              "pool_mode": rng.choice([None, None, "transaction", "session"]), "statement_timeout": rng.choice([None, 0, 77]),
              "auth_type": rng.choice([None, None, "md5", "trust"]), "server_username": rng.choice([None, None, "su"]), "server_password": rng.choice([None, None, "sp"])}]
    if rng.random() < 0.4:
        users.append({"key": "1", "username": "v", "password": "pw2", "pool_size": rng.choice([1, 3, U32]), "min_pool_size": rng.choice([None, 0, 1]),
                      "connect_timeout": None, "idle_timeout": None, "server_lifetime": rng.choice([None, 7000]),
                      "pool_mode": rng.choice([None, "transaction", "session"]), "statement_timeout": rng.choice([None, 1500]),
                      "auth_type": rng.choice([None, "md5", "trust"]), "server_username": rng.choice([None, "su2"]), "server_password": rng.choice([None, "sp2"])})
    pool = {"name": "db", "default_role": rng.choice([None, "any", "primary", "replica"]),
            "default_shard": rng.choice([None, None, "shard_0", "shard_%d" % (n - 1), "random", "random_healthy"]),
            "parser": rng.random() < 0.5, "rw_split": False, "plugins": None, "auto_key": None,
            "key_regex": None, "shard_regex": None, "auth_query": None, "auth_query_user": None, "auth_query_password": None,
            "connect_timeout": None, "idle_timeout": None, "server_lifetime": None,
            "activity": None, "shards": shards, "users": users,
            "pool_mode": rng.choice([None, "transaction", "session"]), "extra": {}}
    # options from_config copies into PoolSettings unchanged (checked by the monitor, no model)
    if rng.random() < 0.5:
        pool["extra"] = {"primary_reads_enabled": rng.random() < 0.5, "load_balancing_mode": rng.choice(["random", "loc"]),
                         "sharding_function": rng.choice(["pg_bigint_hash", "sha1"]), "regex_search_limit": rng.choice([10, 1000, 5000]),
                         "query_parser_max_length": rng.choice([64, 100000]), "checkout_failure_limit": rng.choice([1, 9])}
    if pool["parser"]:
        pool["rw_split"] = rng.random() < 0.5
        if rng.random() < 0.4:
            pool["plugins"] = copy.deepcopy(rng.choice(PLUGS))
        if rng.random() < 0.3:
            pool["auto_key"] = "data.id"
    if rng.random() < 0.25:
        pool["shard_regex"] = REGEXES[0]
    if rng.random() < 0.25:
        pool["key_regex"] = REGEXES[1]
    g = {"connect_timeout": 20 if probe else rng.choice([None, 20, 5000]), "idle_timeout": rng.choice([None, 30000]),
         "server_lifetime": rng.choice([None, 86400000]), "auth_query": None, "auth_query_user": None, "auth_query_password": None,
         "plugins": copy.deepcopy(rng.choice(PLUGS)) if rng.random() < 0.4 else None, "tls": None, "extra": {}}
    if rng.random() < 0.4:
        g["extra"] = {"healthcheck_timeout": rng.choice([500, 1000]), "healthcheck_delay": rng.choice([10, 30000]), "ban_time": rng.choice([1, 60, 3600])}
    return {"general": g, "pools": [pool]}


def set_tls(cfg, name):
    _, c, k = next(o for o in TLS_OPTIONS if o[0] == name)
    cfg["general"]["tls"] = {"name": name, "cert": c, "key": k}


def second_pool(rng, cfg):
    c2 = base_config(rng)
    p = c2["pools"][0]
    p["name"] = "db2"
    cfg["pools"].append(p)


# Each mutation: (name, function(cfg, rng) -> None).  "typed": False marks files that serde/toml
# itself refuses (no model verdict needed: the expected verdict is "rejected").
def _p(cfg, rng):
    return rng.choice(cfg["pools"])


def _sh(cfg, rng):
    return rng.choice(_p(cfg, rng)["shards"])


def _u(cfg, rng):
    return rng.choice(_p(cfg, rng)["users"])


def m_keys(style):
    def f(cfg, rng):
        p = _p(cfg, rng)
        sh = p["shards"]
        n = len(sh)
        if style == "gap":
            sh[-1]["key"] = str(n)
        elif style == "not_from_0":
            for i, s in enumerate(sh):
                s["key"] = str(i + 1)
        elif style == "dup_after_parse":
            extra = copy.deepcopy(sh[0]); extra["key"] = rng.choice(["00", "+0", "000"]); extra["servers"] = [["127.0.0.9", 9, "primary"]]
            sh.append(extra)
        elif style == "non_numeric":
            rng.choice(sh)["key"] = rng.choice(["a", "1a", "one", "0x0", "1.0", "1e0", "shard_0"])
        elif style == "negative":
            rng.choice(sh)["key"] = rng.choice(["-1", "-0"])
        elif style == "plus":
            i = rng.randrange(n); sh[i]["key"] = "+%d" % i
        elif style == "leading_zero":
            i = rng.randrange(n); sh[i]["key"] = rng.choice(["0%d", "00%d"]) % i
        elif style == "empty":
            rng.choice(sh)["key"] = ""
        elif style == "space":
            i = rng.randrange(n); sh[i]["key"] = rng.choice([" %d", "%d ", "\t%d"]) % i
        elif style == "unicode_digit":
            i = rng.randrange(n); sh[i]["key"] = "٠" if i == 0 else "١"
        elif style == "huge":
            sh[-1]["key"] = rng.choice(["18446744073709551616", "18446744073709551615", "9223372036854775808", "99999999999999999999999"])
        elif style == "zero_shards":
            p["shards"] = []
        elif style == "plus_plus":
            i = rng.randrange(n); sh[i]["key"] = "++%d" % i
    return f


def m_servers(style):
    def f(cfg, rng):
        s = _sh(cfg, rng)
        if style == "two_primaries":
            s["servers"] = [["127.0.0.1", 1, "primary"], ["127.0.0.2", 1, "primary"]] + s["servers"][1:]
        elif style == "duplicate":
            s["servers"].append(list(rng.choice(s["servers"])))
        elif style == "same_host_other_role":
            x = rng.choice(s["servers"]); s["servers"].append([x[0], x[1], "replica" if x[2] == "primary" else ("primary" if not any(y[2] == "primary" for y in s["servers"]) else "replica")])
            if s["servers"][-1] in s["servers"][:-1]:
                s["servers"].pop()
        elif style == "zero_servers":
            s["servers"] = []
        elif style == "mirror_role":
            rng.choice(s["servers"])[2] = rng.choice(["mirror", "Mirror"])
        elif style == "bad_role":
            rng.choice(s["servers"])[2] = rng.choice(["master", "PRIMARY", "", "any"])
        elif style == "cap_role":
            x = rng.choice(s["servers"]); x[2] = x[2].capitalize()
        elif style == "port_edge":
            rng.choice(s["servers"])[1] = rng.choice([0, 65535])
        elif style == "port_bad":
            rng.choice(s["servers"])[1] = rng.choice([65536, -1])
        elif style == "mirrors_in":
            s["mirrors"] = [["127.0.0.8", 7, rng.randrange(len(s["servers"]))], ["127.0.0.8", 8, 0]]
        elif style == "mirrors_out":
            s["mirrors"] = [["127.0.0.8", 7, len(s["servers"]) + rng.randrange(3)]]
        elif style == "single_mirror_role":    # a shard with exactly one server, and that one has the mirror role
            s["servers"] = [[s["servers"][0][0], s["servers"][0][1], "mirror"]]
        elif style == "single_mirror_out":     # a shard with exactly one server and a mirror that follows none
            s["servers"] = s["servers"][:1]; s["mirrors"] = [["127.0.0.8", 7, 1]]
        elif style == "single_mirror_in":
            s["servers"] = s["servers"][:1]; s["mirrors"] = [["127.0.0.8", 7, 0]]
        elif style == "mirrors_empty":
            s["mirrors"] = []
        elif style == "mirrors_bad":
            s["mirrors"] = [["127.0.0.8", 7, -1]]
    return f


def m_user(style):
    def f(cfg, rng):
        p = _p(cfg, rng); u = rng.choice(p["users"])
        if style == "size0":
            u["pool_size"] = 0; u["min_pool_size"] = rng.choice([None, 0])
        elif style == "size_max":
            u["pool_size"] = U32
        elif style == "size_bad":
            u["pool_size"] = rng.choice([U32 + 1, -1, None])
        elif style == "min_eq":
            u["min_pool_size"] = u["pool_size"] if isinstance(u["pool_size"], int) and 0 <= u["pool_size"] <= 3 else 0
        elif style == "min_gt":
            u["pool_size"] = 5; u["min_pool_size"] = rng.choice([6, U32])
        elif style == "no_password":
            u["password"] = None
        elif style == "dup_username":
            p["users"] = p["users"][:1] + [dict(p["users"][0], key="1", password="other", pool_size=7)]
        elif style == "no_users":
            p["users"] = []
        elif style == "timeout0":
            u[rng.choice(["connect_timeout", "idle_timeout", "server_lifetime"])] = 0
        elif style == "timeout_small":
            u[rng.choice(["connect_timeout", "idle_timeout", "server_lifetime"])] = rng.choice([1, 50])
        elif style == "overrides":
            u["pool_mode"] = rng.choice(["transaction", "session"]); u["statement_timeout"] = rng.choice([0, 1, 123456])
            u["min_pool_size"] = rng.choice([0, 1]); u["server_lifetime"] = rng.choice([5, 99999]); u["idle_timeout"] = rng.choice([7, 88888])
            p["server_lifetime"] = rng.choice([None, 4444]); p["idle_timeout"] = rng.choice([None, 3333]); p["pool_mode"] = rng.choice([None, "transaction", "session"])
        elif style == "statement_timeout_bad":
            u["statement_timeout"] = -1
        elif style == "trust_no_password":
            u["auth_type"] = "trust"; u["password"] = None
            u["server_username"], u["server_password"] = rng.choice([(None, None), ("su", "sp"), (None, "sp")])
        elif style == "trust_password":
            u["auth_type"] = "trust"
        elif style == "server_creds":
            u["server_username"], u["server_password"] = rng.choice([("su", "sp"), (None, "sp"), ("su", None)])
        elif style == "server_creds_no_password":
            u["password"] = None; u["server_username"] = "su"; u["server_password"] = "sp"
        elif style == "auth_type_bad":
            u["auth_type"] = rng.choice(["scram", "TRUST", "password", ""])
        elif style == "no_username":
            u["username"] = None
    return f


def m_pool(style):
    def f(cfg, rng):
        p = _p(cfg, rng); n = len(p["shards"])
        if style == "ds_out":
            p["default_shard"] = "shard_%d" % (n + rng.randrange(3))
        elif style == "ds_out_exact":          # the first number that is out of range
            p["default_shard"] = "shard_%d" % n
        elif style == "ds_last":
            p["default_shard"] = "shard_%d" % (n - 1)
        elif style == "ds_spelling":
            p["default_shard"] = rng.choice(["shard_+0", "shard_00", "shard_0%d" % (n - 1)])
        elif style == "ds_garbage":
            p["default_shard"] = rng.choice(["first", "", "Random", "shard_", "shard_a", "shard_-1", "shard_18446744073709551616", "shard0", "RANDOM", "random_healthy "])
        elif style == "role_bad":
            p["default_role"] = rng.choice(["master", "Primary", "", "ANY", "mirror", "any "])
        elif style == "timeout0":
            p[rng.choice(["connect_timeout", "idle_timeout", "server_lifetime"])] = 0
        elif style == "timeout_set":
            p[rng.choice(["connect_timeout", "idle_timeout", "server_lifetime"])] = rng.choice([1, 3000])
        elif style == "rw_no_parser":
            p["parser"] = False; p["rw_split"] = True
        elif style == "plugins_no_parser":
            p["parser"] = False; p["rw_split"] = False; p["plugins"] = copy.deepcopy(rng.choice(PLUGS))
        elif style == "plugins_parser":
            p["parser"] = True; p["plugins"] = copy.deepcopy(rng.choice(PLUGS))
        elif style == "plugins_both":
            p["parser"] = True; p["plugins"] = copy.deepcopy(rng.choice(PLUGS)); cfg["general"]["plugins"] = copy.deepcopy(rng.choice(PLUGS))
        elif style == "plugins_global_only":
            p["plugins"] = None; cfg["general"]["plugins"] = copy.deepcopy(rng.choice(PLUGS))
        elif style == "pool_mode":
            p["pool_mode"] = rng.choice(["transaction", "session"])
            for u in p["users"]:
                u["pool_mode"] = rng.choice([None, "transaction", "session"])
        elif style == "pool_mode_bad":
            rng.choice([p] + p["users"])["pool_mode"] = rng.choice(["statement", "SESSION", ""])
        elif style == "auto_key":
            p["parser"] = True
            p["auto_key"] = rng.choice(["data.id", "id", "a.b.c", ".", '"data"."id"', "", 'a."b.c"', "..", "a.", '"', "x.y\"z\""])
        elif style == "regex_bad":
            p[rng.choice(["key_regex", "shard_regex"])] = rng.choice(REGEXES[4:])
        elif style == "regex_good":
            p[rng.choice(["key_regex", "shard_regex"])] = rng.choice(REGEXES[:4])
        elif style == "auth_full":
            p["auth_query"] = "SELECT 1"; p["auth_query_user"] = "a"; p["auth_query_password"] = "b"
            if rng.random() < 0.5:
                rng.choice(p["users"])["password"] = None
        elif style == "auth_partial":
            p["auth_query"] = "SELECT 1"
            if rng.random() < 0.5:
                p[rng.choice(["auth_query_user", "auth_query_password"])] = "x"
        elif style == "auth_no_query":
            p["auth_query_user"] = "a"; p["auth_query_password"] = "b"
            if rng.random() < 0.5:
                rng.choice(p["users"])["password"] = None
        elif style == "activity_ok":
            p["activity"] = [True, 100, 900, 50]
        elif style == "activity_zero":
            a = [True, 100, 900, 50]; a[rng.choice([1, 2, 3])] = 0; p["activity"] = a
        elif style == "activity_off_zero":
            p["activity"] = [False, 0, 0, 0]
        elif style == "no_shards_table":
            p["shards"] = None
        elif style == "no_users_table":
            p["users"] = None
    return f


def m_general(style):
    def f(cfg, rng):
        g = cfg["general"]
        if style == "timeout0":
            g[rng.choice(["connect_timeout", "idle_timeout", "server_lifetime"])] = 0
        elif style == "auth_full":
            g["auth_query"] = "SELECT 1"; g["auth_query_user"] = "a"; g["auth_query_password"] = "b"
            if rng.random() < 0.6:
                _u(cfg, rng)["password"] = None
        elif style == "auth_partial":
            g["auth_query"] = "SELECT 1"
            if rng.random() < 0.5:
                g[rng.choice(["auth_query_user", "auth_query_password"])] = "x"
        elif style == "auth_split":       # query in the pool, credentials in [general]
            g["auth_query_user"] = "a"; g["auth_query_password"] = "b"
            _p(cfg, rng)["auth_query"] = "SELECT 1"
            if rng.random() < 0.6:
                _u(cfg, rng)["password"] = None
        elif style == "second_pool":
            if len(cfg["pools"]) == 1:
                second_pool(rng, cfg)
    return f


MUTATIONS = ([("keys:" + s, m_keys(s)) for s in ["gap", "not_from_0", "dup_after_parse", "non_numeric", "negative", "plus", "leading_zero", "empty", "space",
                                                   "unicode_digit", "huge", "zero_shards", "plus_plus"]] +
             [("servers:" + s, m_servers(s)) for s in ["two_primaries", "duplicate", "same_host_other_role", "zero_servers", "mirror_role", "bad_role", "cap_role",
                                                       "port_edge", "port_bad", "mirrors_in", "mirrors_out", "mirrors_empty", "mirrors_bad",
                                                       "single_mirror_role", "single_mirror_out", "single_mirror_in"]] +
             [("user:" + s, m_user(s)) for s in ["size0", "size_max", "size_bad", "min_eq", "min_gt", "no_password", "dup_username", "no_users", "timeout0",
                                                 "timeout_small", "no_username", "overrides", "statement_timeout_bad", "trust_no_password", "trust_password",
                                                 "server_creds", "server_creds_no_password", "auth_type_bad"]] +
             [("pool:" + s, m_pool(s)) for s in ["ds_out", "ds_spelling", "ds_garbage", "role_bad", "timeout0", "timeout_set", "rw_no_parser", "plugins_no_parser",
                                                 "plugins_parser", "auto_key", "regex_bad", "regex_good", "auth_full", "auth_partial", "auth_no_query",
                                                 "activity_ok", "activity_zero", "activity_off_zero", "no_shards_table", "no_users_table",
                                                 "plugins_both", "plugins_global_only", "pool_mode", "pool_mode_bad", "ds_out_exact", "ds_last"]] +
             [("general:" + s, m_general(s)) for s in ["timeout0", "auth_full", "auth_partial", "auth_split", "second_pool"]])


BENIGN_NAMES = {"keys:plus", "keys:leading_zero", "servers:same_host_other_role", "servers:cap_role", "servers:port_edge", "servers:mirrors_in",
                "servers:mirrors_empty", "user:size_max", "user:min_eq", "user:dup_username", "user:timeout_small", "pool:ds_spelling", "pool:timeout_set", "pool:plugins_parser",
                "pool:auto_key", "pool:plugins_both", "pool:plugins_global_only", "pool:pool_mode", "user:overrides", "user:trust_password", "user:server_creds", "pool:ds_last", "servers:single_mirror_in", "pool:regex_good", "pool:auth_full", "pool:auth_no_query", "pool:activity_ok", "pool:activity_off_zero", "general:auth_full", "general:auth_split",
                "general:second_pool"}
BENIGN = [m for m in MUTATIONS if m[0] in BENIGN_NAMES]


# ----------------------------------------------------------------------------- rendering
def tkey(k):
    return k if re.fullmatch(r"[A-Za-z0-9_-]+", k) else json.dumps(k)


def tstr(s):
    return json.dumps(s)


def tval(v):
    return ("true" if v else "false") if isinstance(v, bool) else (tstr(v) if isinstance(v, str) else str(v))


def plug_toml(path, pl):
    out = ["[%s]" % path]
    if pl["table_access"] is not None:
        out += ["[%s.table_access]" % path, "enabled = %s" % tval(pl["table_access"][0]), "tables = [%s]" % ", ".join(tstr(t) for t in pl["table_access"][1])]
    if pl["query_logger"] is not None:
        out += ["[%s.query_logger]" % path, "enabled = %s" % tval(pl["query_logger"])]
    return out


def to_toml(cfg):
    g = cfg["general"]
    out = ['[general]', 'host = "127.0.0.1"', 'port = 6432', 'admin_username = "admin"', 'admin_password = "admin"', 'validate_config = false']
    for k in ("connect_timeout", "idle_timeout", "server_lifetime"):
        if g[k] is not None:
            out.append("%s = %d" % (k, g[k]))
    for k in ("auth_query", "auth_query_user", "auth_query_password"):
        if g[k] is not None:
            out.append("%s = %s" % (k, tstr(g[k])))
    if g["tls"] is not None:
        if g["tls"]["cert"] is not None:
            out.append("tls_certificate = %s" % tstr(g["tls"]["cert"]))
        if g["tls"]["key"] is not None:
            out.append("tls_private_key = %s" % tstr(g["tls"]["key"]))
    for k, v in g["extra"].items():
        out.append("%s = %s" % (k, tval(v)))
    if g["plugins"] is not None:
        out += plug_toml("plugins", g["plugins"])
    for p in cfg["pools"]:
        pn = tkey(p["name"])
        out.append("[pools.%s]" % pn)
        if p["default_role"] is not None:
            out.append("default_role = %s" % tstr(p["default_role"]))
        if p["default_shard"] is not None:
            out.append("default_shard = %s" % tstr(p["default_shard"]))
        out.append("query_parser_enabled = %s" % ("true" if p["parser"] else "false"))
        out.append("query_parser_read_write_splitting = %s" % ("true" if p["rw_split"] else "false"))
        if p["auto_key"] is not None:
            out.append("automatic_sharding_key = %s" % tstr(p["auto_key"]))
        if p["pool_mode"] is not None:
            out.append("pool_mode = %s" % tstr(p["pool_mode"]))
        for k, v in p["extra"].items():
            out.append("%s = %s" % (k, tval(v)))
        if p["key_regex"] is not None:
            out.append("sharding_key_regex = %s" % tstr(p["key_regex"]))
        if p["shard_regex"] is not None:
            out.append("shard_id_regex = %s" % tstr(p["shard_regex"]))
        for k in ("connect_timeout", "idle_timeout", "server_lifetime"):
            if p[k] is not None:
                out.append("%s = %d" % (k, p[k]))
        for k in ("auth_query", "auth_query_user", "auth_query_password"):
            if p[k] is not None:
                out.append("%s = %s" % (k, tstr(p[k])))
        if p["activity"] is not None:
            a = p["activity"]
            out += ["db_activity_based_routing = %s" % ("true" if a[0] else "false"), "db_activity_init_delay = %d" % a[1],
                    "db_activity_ttl = %d" % a[2], "table_mutation_cache_ms_ttl = %d" % a[3]]
        if p["plugins"] is not None:
            out += plug_toml("pools.%s.plugins" % pn, p["plugins"])
        if p["users"] is not None:
            out.append("[pools.%s.users]" % pn)
            for u in p["users"]:
                out.append("[pools.%s.users.%s]" % (pn, tkey(u["key"])))
                if u["username"] is not None:
                    out.append("username = %s" % tstr(u["username"]))
                if u["password"] is not None:
                    out.append("password = %s" % tstr(u["password"]))
                if u["pool_size"] is not None:
                    out.append("pool_size = %d" % u["pool_size"])
                for k in ("min_pool_size", "connect_timeout", "idle_timeout", "server_lifetime", "statement_timeout"):
                    if u[k] is not None:
                        out.append("%s = %d" % (k, u[k]))
                if u["pool_mode"] is not None:
                    out.append("pool_mode = %s" % tstr(u["pool_mode"]))
                for k in ("auth_type", "server_username", "server_password"):
                    if u[k] is not None:
                        out.append("%s = %s" % (k, tstr(u[k])))
        if p["shards"] is not None:
            out.append("[pools.%s.shards]" % pn)
            for s in p["shards"]:
                out.append("[pools.%s.shards.%s]" % (pn, tkey(s["key"])))
                out.append("database = %s" % tstr(s["database"]))
                out.append("servers = [%s]" % ", ".join("[%s, %d, %s]" % (tstr(h), pt, tstr(r)) for h, pt, r in s["servers"]))
                if s["mirrors"] is not None:
                    out.append("mirrors = [%s]" % ", ".join("[%s, %d, %d]" % (tstr(h), pt, ix) for h, pt, ix in s["mirrors"]))
    return "\n".join(out) + "\n"


def typed(cfg):
    """Does toml/serde produce the Rust structs at all (types and required fields)?"""
    for p in cfg["pools"]:
        if p["users"] is None or p["shards"] is None:
            return False
        for u in p["users"]:
            if u["username"] is None or u["pool_size"] is None or not (0 <= u["pool_size"] <= U32):
                return False
            if u["min_pool_size"] is not None and not (0 <= u["min_pool_size"] <= U32):
                return False
            if u["statement_timeout"] is not None and u["statement_timeout"] < 0:
                return False
            if u["pool_mode"] not in (None, "transaction", "session"):
                return False
            if u["auth_type"] not in (None, "md5", "MD5", "trust", "Trust"):
                return False
        if p["pool_mode"] not in (None, "transaction", "session"):
            return False
        if False:
            pass
        for s in p["shards"]:
            for h, pt, r in s["servers"]:
                if r not in ROLE_T or not (0 <= pt <= 65535):
                    return False
            for h, pt, ix in (s["mirrors"] or []):
                if not (0 <= pt <= 65535) or ix < 0:
                    return False
    return True


def cs(s):
    return "[" + "; ".join(str(b) for b in s.encode("utf-8")) + "]"


def copt(v, f=str):
    return "None" if v is None else "(Some %s)" % f(v)


def cz(v):
    return "(%d)" % v


def cb(b):
    return "true" if b else "false"


def cplug(pl):
    if pl is None:
        return "None"
    ta = "None" if pl["table_access"] is None else "(Some (%s, [%s]))" % (cb(pl["table_access"][0]), "; ".join(cs(t) for t in pl["table_access"][1]))
    return "(Some {| pl_table_access := %s; pl_query_logger := %s |})" % (ta, copt(pl["query_logger"], cb))


def cmode(m):
    return {"transaction": "Transaction", "session": "Session"}[m]


def to_coq(cfg, regex_ok):
    """Gallina expression evaluating to (run c, all_panics c) (or (Rejected, []) when a default_shard does not deserialise)."""
    g = cfg["general"]
    raws, pools = [], []
    for i, p in enumerate(cfg["pools"]):
        raws.append(cs(p["default_shard"] if p["default_shard"] is not None else "shard_0"))
        shards = sorted(p["shards"], key=lambda s: s["key"].encode("utf-8"))
        users = sorted(p["users"], key=lambda u: u["key"].encode("utf-8"))
        sh_c = "[" + "; ".join("(%s, {| sh_servers := [%s]; sh_mirrors := [%s] |})" % (
            cs(s["key"]),
            "; ".join("{| sv_host := %s; sv_port := %d; sv_role := %s |}" % (cs(h), pt, ROLE_T[r]) for h, pt, r in s["servers"]),
            "; ".join("{| mi_host := %s; mi_port := %d; mi_target := %d |}" % (cs(h), pt, ix) for h, pt, ix in (s["mirrors"] or []))) for s in shards) + "]"
        us_c = "[" + "; ".join("(%s, {| u_name := %s; u_password := %s; u_pool_size := %d; u_min_pool_size := %s; u_connect_timeout := %s; u_idle_timeout := %s; u_server_lifetime := %s; u_pool_mode := %s; u_statement_timeout := %d; u_auth_type := %s; u_server_username := %s; u_server_password := %s |})" % (
            cs(u["key"]), cs(u["username"]), cb(u["password"] is not None), u["pool_size"], copt(u["min_pool_size"], cz), copt(u["connect_timeout"], cz),
            copt(u["idle_timeout"], cz), copt(u["server_lifetime"], cz), copt(u["pool_mode"], cmode), u["statement_timeout"] or 0,
            "AuthTrust" if (u["auth_type"] or "md5").lower() == "trust" else "AuthMD5", cb(u["server_username"] is not None), cb(u["server_password"] is not None)) for u in users) + "]"
        a = p["activity"] or [False, 100, 900, 50]
        pools.append("{| p_name := %s; p_default_role := %s; p_default_shard := nth %d ds (DShard 0); p_parser := %s; p_rw_split := %s; p_plugins := %s; p_pool_mode := %s; "
                     "p_auto_key := %s; p_key_regex := %s; p_shard_regex := %s; p_auth_query := %s; p_auth_user := %s; p_auth_password := %s; "
                     "p_connect_timeout := %s; p_idle_timeout := %s; p_server_lifetime := %s; p_activity := %s; p_act_delay := %d; p_act_ttl := %d; p_mut_ttl := %d; "
                     "p_shards := %s; p_users := %s |}" % (
                         cs(p["name"]), cs(p["default_role"] if p["default_role"] is not None else "any"), i, cb(p["parser"]), cb(p["rw_split"]), cplug(p["plugins"]), cmode(p["pool_mode"] or "transaction"),
                         copt(p["auto_key"], cs), copt(None if p["key_regex"] is None else regex_ok[p["key_regex"]], cb),
                         copt(None if p["shard_regex"] is None else regex_ok[p["shard_regex"]], cb),
                         cb(p["auth_query"] is not None), cb(p["auth_query_user"] is not None), cb(p["auth_query_password"] is not None),
                         copt(p["connect_timeout"], cz), copt(p["idle_timeout"], cz), copt(p["server_lifetime"], cz), cb(a[0]), a[1], a[2], a[3], sh_c, us_c))
    c = ("{| g_auth_query := %s; g_auth_user := %s; g_auth_password := %s; g_connect_timeout := %s; g_idle_timeout := %s; g_server_lifetime := %s; g_tls_cert := %s; g_tls_key := %s; g_plugins := %s; c_pools := [%s] |}" % (
        cb(g["auth_query"] is not None), cb(g["auth_query_user"] is not None), cb(g["auth_query_password"] is not None),
        "default_connect_timeout" if g["connect_timeout"] is None else str(g["connect_timeout"]),
        "default_idle_timeout" if g["idle_timeout"] is None else str(g["idle_timeout"]),
        "default_server_lifetime" if g["server_lifetime"] is None else str(g["server_lifetime"]),
        copt(None if g["tls"] is None or g["tls"]["cert"] is None else regex_ok[("cert", g["tls"]["cert"])]),
        copt(None if g["tls"] is None or g["tls"]["key"] is None else regex_ok[("key", g["tls"]["key"])]),
        cplug(g["plugins"]), "; ".join(pools)))
    return "[%s]" % "; ".join(raws), c


def coq_run_expr(cfg, regex_ok):
    raws, c = to_coq(cfg, regex_ok)
    return "with_default_shards %s (Rejected, []) (fun ds => let c := %s in (run c, all_panics c))" % (raws, c)


def coq_probe_expr(cfg, regex_ok, db, usr, probes):
    raws, c = to_coq(cfg, regex_ok)
    ps = "[" + "; ".join("(%s, %s)" % (copt(s, cz), copt(r, lambda x: ROLE_T[x])) for s, r in probes) + "]"
    return "with_default_shards %s [] (fun ds => let c := %s in map (fun sr => probe c %s %s (fst sr) (snd sr)) %s)" % (raws, c, cs(db), cs(usr), ps)


# ----------------------------------------------------------------------------- oracles independent of the model
def rust_usize(s):
    """usize::from_str on a Rust str (independent Python transcription)."""
    b = s.encode("utf-8")
    if b[:1] == b"+":
        b = b[1:]
    if not b or any(c < 48 or c > 57 for c in b):
        return None
    v = int(b.decode())
    return v if v < (1 << 64) else None


def bstr(x):
    return bytes(x).decode("utf-8") if isinstance(x, list) else x


def monitor(cfg, r):
    """The property itself on the implementation's observation (no model).  Returns list of problems."""
    bad = []
    if not r.get("accept"):
        return bad
    if r.get("from_config") != "ok":
        return ["accepted configuration, but ConnectionPool::from_config: %s" % r.get("from_config")]
    pools = {(p["db"], p["user"]): p for p in r.get("pools", [])}
    for cp in cfg["pools"]:
        bykey = {}
        for s in (cp["shards"] or []):
            bykey.setdefault(rust_usize(s["key"]), []).append(s)
        for u in (cp["users"] or []):
            bp = pools.get((cp["name"], u["username"]))
            if bp is None:
                bad.append("configured user %s of pool %s has no pool" % (u["username"], cp["name"])); continue
            if bp["panics"]:
                bad.append("walk of %s/%s panicked: %s" % (bp["db"], bp["user"], bp["panics"][:2]))
            if bp["shards"] == 0:
                bad.append("pool %s/%s has no shards (sharder would divide by zero)" % (bp["db"], bp["user"]))
            alla = [a for row in bp["addresses"] for a in row]
            for sh in range(bp["shards"]):
                want = sorted((h, pt, ROLE_T.get(ro, ro).lower()) for c in bykey.get(sh, []) for h, pt, ro in c["servers"])
                got = sorted((a["host"], a["port"], a["role"]) for a in alla if a["shard"] == sh)
                if len(bykey.get(sh, [])) != 1:
                    bad.append("shard number %d of %s is denoted by %d keys" % (sh, cp["name"], len(bykey.get(sh, []))))
                elif want != got:
                    bad.append("candidates of shard %d of %s/%s are %s, configured %s" % (sh, bp["db"], bp["user"], got, want))
                if sh < len(bp["addresses"]):
                    for i, a in enumerate(bp["addresses"][sh]):
                        if a["shard"] != sh or a["index"] != i:
                            bad.append("address at [%d][%d] of %s/%s carries shard %d index %d" % (sh, i, bp["db"], bp["user"], a["shard"], a["index"]))
                        if a.get("banned_after_ban") != (a["role"] != "primary") or a.get("banned_after_unban") or not a.get("state_by_address"):
                            bad.append("ban/unban/pool_state of [%d][%d] of %s/%s: %s" % (sh, i, bp["db"], bp["user"], {k: a.get(k) for k in ("banned_after_ban", "banned_after_unban", "state_by_address")}))
            if any(a["shard"] >= bp["shards"] for a in alla):
                bad.append("an address of %s/%s carries a shard number >= shards()" % (bp["db"], bp["user"]))
            # the settings the pool runs with: documented precedence, computed from the file alone.
            # users sharing a username: the last key wins (its settings are the observed ones)
            last = [x for x in cp["users"] if x["username"] == u["username"]][-1]
            if last is u:
                st = impl_settings(bp["settings"])
                gp = cfg["general"]["plugins"]
                eff_pl = cp["plugins"] if cp["plugins"] is not None else gp
                want_st = {"pool_mode": u["pool_mode"] or cp["pool_mode"] or "transaction",
                           "plugins": None if eff_pl is None else {"table_access": None if eff_pl["table_access"] is None else (eff_pl["table_access"][0], list(eff_pl["table_access"][1])),
                                                                   "query_logger": eff_pl["query_logger"], "other_sections": []},
                           "user": (u["username"], u["pool_size"], u["min_pool_size"], u["pool_mode"], u["statement_timeout"] or 0, u["connect_timeout"], u["idle_timeout"], u["server_lifetime"]),
                           "credentials": ((u["auth_type"] or "md5").lower(), u["password"] is not None, u["server_username"] is not None, u["server_password"] is not None),
                           "auto_key": None if cp["auto_key"] is None else cp["auto_key"].replace('"', ""), "parser": cp["parser"], "rw": cp["rw_split"]}
                for k in want_st:
                    if st[k] != want_st[k]:
                        bad.append("settings.%s of %s/%s is %r, the file says %r" % (k, bp["db"], bp["user"], st[k], want_st[k]))
                raw = bp["settings"]
                names = {"loc": "least_outstanding_connections"}
                for k, v in list(cp["extra"].items()) + list(cfg["general"]["extra"].items()):
                    if raw.get(k) != names.get(v, v):
                        bad.append("settings.%s of %s/%s is %r, the file says %r" % (k, bp["db"], bp["user"], raw.get(k), v))
                if raw["user"]["password"] != u["password"] or raw["db"] != cp["name"] or raw["user"]["server_password"] != u["server_password"] \
                        or raw["user"]["server_username"] != u["server_username"]:
                    bad.append("settings.user/db of %s/%s belong to another section" % (bp["db"], bp["user"]))
            # credentials (the property's "missing credentials"): the pool must have a secret to present to a server that asks
            # for one, whatever auth_type says about the client side
            ru = bp["settings"]["user"]
            aq = all(bp["settings"][k] is not None for k in ("auth_query", "auth_query_user", "auth_query_password"))
            if ru["server_password"] is None and ru["password"] is None and not aq:
                bad.append("pool %s/%s (auth_type %s) has no credentials for its servers: no server_password, no password, auth_query not configured" % (
                    bp["db"], bp["user"], ru["auth_type"]))
    for cmd, v in (r.get("admin") or {}).items():
        if "panic" in v:
            bad.append("admin %s panicked: %s" % (cmd, v["panic"]))
    adm = (r.get("admin") or {}).get("SHOW DATABASES")
    if adm and adm.get("ok"):
        want = sorted((a["name"], a["host"], str(a["port"])) for p in r.get("pools", []) for row in p["addresses"] for a in row)
        got = sorted((row[0], row[1], row[2]) for row in adm["rows"])
        if want != got:
            bad.append("SHOW DATABASES lists %s, pools hold %s" % (got[:6], want[:6]))
    if r.get("show", "ok") != "ok":
        bad.append("Config::show(): %s" % r["show"])
    if r.get("tls", "ok") != "ok":
        bad.append("Tls::new() on an accepted configuration: %s" % r["tls"])
    return bad


def impl_table(r):
    out = []
    for p in r.get("pools", []):
        rows = [[(a["host"], a["port"], a["role"].capitalize(), a["shard"], a["index"], a["replica_number"],
                  [(m["host"], m["port"], m["role"].capitalize(), m["shard"], m["index"], m["replica_number"]) for m in a["mirrors"]]) for a in row] for row in p["addresses"]]
        out.append((p["db"], p["user"], (p["shards"], p["settings_shards"], p["pool_size"]), (p["default_shard"], p["default_role"], not p["panics"]), rows,
                    impl_settings(p["settings"])))
    return sorted(out, key=lambda t: (t[0], t[1]))


def impl_settings(st):
    pl = st["plugins"]
    u = st["user"]
    return {"pool_mode": st["pool_mode"],
            "plugins": None if pl is None else {"table_access": None if pl["table_access"] is None else (pl["table_access"]["enabled"], list(pl["table_access"]["tables"])),
                                                "query_logger": None if pl["query_logger"] is None else pl["query_logger"]["enabled"],
                                                "other_sections": [k for k in ("intercept", "prewarmer") if pl.get(k) is not None]},
            "user": (u["username"], u["pool_size"], u["min_pool_size"], u["pool_mode"], u["statement_timeout"], u["connect_timeout"], u["idle_timeout"], u["server_lifetime"]),
            "credentials": (u["auth_type"].lower(), u["password"] is not None, u["server_username"] is not None, u["server_password"] is not None),
            "auto_key": st["automatic_sharding_key"], "parser": st["query_parser_enabled"], "rw": st["query_parser_read_write_splitting"]}


def opt(x, f=lambda v: v):
    x = ident(x)
    if x is None or x == "None":
        return None
    v = ident(x[1])
    v = {"true": True, "false": False}.get(v, v) if isinstance(v, str) else v
    return f(v)


def model_settings(t):
    mode, plug, (name, size, mn, (umode, stmt), (ct, it, lt), (aty, pw, sun, spw)), (ak, parser, rw), bb8 = t
    return ({"pool_mode": ident(mode).lower(),
             "plugins": opt(plug, lambda pq: {"table_access": opt(pq[0], lambda ta: (ta[0], [bstr(x) for x in ta[1]])), "query_logger": opt(pq[1]), "other_sections": []}),
             "user": (bstr(name), size, opt(mn), opt(umode, lambda m: m.lower()), stmt, opt(ct), opt(it), opt(lt)),
             "credentials": ({"AuthMD5": "md5", "AuthTrust": "trust"}[ident(aty)], pw, sun, spw),
             "auto_key": opt(ak, bstr), "parser": parser, "rw": rw},
            opt(bb8, lambda b: {"max_size": b[0], "min_idle": opt(b[1]), "connect_timeout": b[2][0], "idle_timeout": b[2][1], "max_lifetime": b[2][2]}))


def ident(x):
    """vlib.parse_coq leaves constructor arguments that are bare identifiers as ('#', name)."""
    return x[1] if isinstance(x, tuple) and len(x) == 2 and x[0] == "#" else x


def model_table(m):
    out = []
    for (db, usr, sizes, (ds, dr, ok), rows, st) in m:
        ds_s = "Shard(%d)" % ds[1] if isinstance(ds, tuple) else {"DRandom": "Random", "DRandomHealthy": "RandomHealthy"}[ds]
        dr_s = None if dr is None else ident(dr[1]).lower()
        rr = [[(bstr(h), pt, ident(ro), sh, ix, rn, [(bstr(mh), mp, ident(mr), ms, mi, mn) for (mh, mp, mr, ms, mi, mn) in mirrors]) for (h, pt, ro, sh, ix, rn, mirrors) in row] for row in rows]
        out.append((bstr(db), bstr(usr), tuple(sizes), (ds_s, dr_s, ok), rr, model_settings(st)[0]))
    return sorted(out, key=lambda t: (t[0], t[1]))



# ----------------------------------------------------------------------------- regression corpus (run first)
_G = '[general]\nhost = "127.0.0.1"\nport = 6432\nadmin_username = "admin"\nadmin_password = "admin"\nvalidate_config = false\n'
_U = '[pools.db.users.0]\nusername = "u"\npassword = "pw"\npool_size = 5\n'
_S0 = '[pools.db.shards.0]\ndatabase = "d0"\nservers = [["127.0.0.1", 1, "primary"], ["127.0.0.1", 2, "replica"]]\n'


def _one(k, port):
    return '[pools.db.shards.%s]\ndatabase = "d"\nservers = [["127.0.0.1", %d, "primary"]]\n' % (tkey(k), port)


# (name, text, must_accept)
CORPUS = [
    ("F2 shard keys {1,3}", _G + "[pools.db]\n" + _U + _one("1", 1) + _one("3", 2), False),
    ("F2 Pool::default() key {1}", _G + "[pools.db]\n" + _U + _one("1", 1), False),
    ("keys 0 and 00 denote the same number", _G + "[pools.db]\n" + _U + _one("0", 1) + _one("00", 2), False),
    ("no shards with default_shard = random", _G + '[pools.db]\ndefault_shard = "random"\n' + _U + "[pools.db.shards]\n", False),
    ("D1 pool_size = 0", _G + "[pools.db]\n" + _U.replace("pool_size = 5", "pool_size = 0") + _S0, False),
    ("D2 [general] connect_timeout = 0", _G + "connect_timeout = 0\n[pools.db]\n" + _U + _S0, False),
    ("D2 pool connect_timeout = 0", _G + "[pools.db]\nconnect_timeout = 0\n" + _U + _S0, False),
    ("D2 user connect_timeout = 0", _G + "[pools.db]\n" + _U + "connect_timeout = 0\n" + _S0, False),
    ("D3 [general] idle_timeout = 0", _G + "idle_timeout = 0\n[pools.db]\n" + _U + _S0, False),
    ("D3 pool idle_timeout = 0", _G + "[pools.db]\nidle_timeout = 0\n" + _U + _S0, False),
    ("D4 [general] server_lifetime = 0", _G + "server_lifetime = 0\n[pools.db]\n" + _U + _S0, False),
    ("D4 user server_lifetime = 0", _G + "[pools.db]\n" + _U + "server_lifetime = 0\n" + _S0, False),
    ("server with the mirror role", _G + "[pools.db]\n" + _U + '[pools.db.shards.0]\ndatabase = "d"\nservers = [["127.0.0.1", 1, "mirror"]]\n', False),
    ("mirror with mirroring_target_index out of range", _G + "[pools.db]\n" + _U + '[pools.db.shards.0]\ndatabase = "d"\nservers = [["127.0.0.1", 1, "primary"]]\nmirrors = [["127.0.0.1", 2, 1]]\n', False),
    ("mirror on an existing server", _G + "[pools.db]\n" + _U + '[pools.db.shards.0]\ndatabase = "d"\nservers = [["127.0.0.1", 1, "primary"], ["127.0.0.1", 2, "replica"]]\nmirrors = [["127.0.0.1", 3, 1], ["127.0.0.1", 4, 1]]\n', True),
    ("TLS pair loads, shard keys {1,2} (the pool checks must still run)", _G + 'tls_certificate = %s\ntls_private_key = %s\n' % (json.dumps(CERT), json.dumps(KEY)) + "[pools.db]\n" + _U + _one("1", 1) + _one("2", 2), False),
    ("TLS pair loads, pool_size = 0", _G + 'tls_certificate = %s\ntls_private_key = %s\n' % (json.dumps(CERT), json.dumps(KEY)) + "[pools.db]\n" + _U.replace("pool_size = 5", "pool_size = 0") + _S0, False),
    ("TLS pair loads, valid pools", _G + 'tls_certificate = %s\ntls_private_key = %s\n' % (json.dumps(CERT), json.dumps(KEY)) + "[pools.db]\n" + _U + _S0, True),
    ("D7 tls pair swapped (key file holds no private key)", _G + 'tls_certificate = %s\ntls_private_key = %s\n' % (json.dumps(KEY), json.dumps(CERT)) + "[pools.db]\n" + _U + _S0, False),
    ("D7 tls_private_key = the certificate file", _G + 'tls_certificate = %s\ntls_private_key = %s\n' % (json.dumps(CERT), json.dumps(CERT)) + "[pools.db]\n" + _U + _S0, False),
    ("D7 tls_certificate = the key file", _G + 'tls_certificate = %s\ntls_private_key = %s\n' % (json.dumps(KEY), json.dumps(KEY)) + "[pools.db]\n" + _U + _S0, False),
    ("trust user without password, server_password or auth_query", _G + "[pools.db]\n" + '[pools.db.users.0]\nusername = "u"\nauth_type = "trust"\npool_size = 5\n' + _S0, False),
    ("md5 user without password", _G + "[pools.db]\n" + '[pools.db.users.0]\nusername = "u"\npool_size = 5\n' + _S0, False),
    ("trust user without password, auth_query fully configured in [general]", _G + 'auth_query = "SELECT 1"\nauth_query_user = "a"\nauth_query_password = "b"\n[pools.db]\n'
     + '[pools.db.users.0]\nusername = "u"\nauth_type = "trust"\npool_size = 5\n' + _S0, True),
    ("trust user with password and server credentials", _G + "[pools.db]\n" + _U + 'auth_type = "trust"\nserver_username = "su"\nserver_password = "sp"\n' + _S0, True),
    ("tls_certificate without tls_private_key", _G + 'tls_certificate = %s\n' % json.dumps(CERT) + "[pools.db]\n" + _U + _S0, False),
    ("D6 auth_query_user/password without auth_query (pool)", _G + '[pools.db]\nauth_query_user = "a"\nauth_query_password = "b"\n' + _U + _S0, True),
    ("D6 auth_query_user/password without auth_query ([general])", _G + 'auth_query_user = "a"\nauth_query_password = "b"\n[pools.db]\n' + _U + _S0, True),
    ("keys +1 and 01 spell shard 1", _G + "[pools.db]\n" + _U + _one("0", 1) + _one("+1", 2), True),
    ("repo pgcat.toml shape: 3 shards, 2 users", _G + '[pools.db]\ndefault_role = "any"\nquery_parser_enabled = true\n' + _U + '[pools.db.users.1]\nusername = "v"\npassword = "x"\npool_size = 21\nmin_pool_size = 3\n'
     + _one("0", 1) + _one("1", 2) + _one("2", 3), True),
]


def run_corpus(run, binp):
    res = run_harness(binp, [{"toml": t, "admin": ADMIN, "show": True} for _, t, _ in CORPUS])
    n = 0
    for (name, toml, must), r in zip(CORPUS, res):
        n += 1
        rep = {"input": {"toml": toml, "corpus": name}, "impl": {k: r.get(k) for k in ("accept", "error", "from_config", "show")}}
        bad = []
        if r.get("accept"):
            if r.get("from_config") != "ok":
                bad.append("from_config: %s" % r.get("from_config"))
            bad += ["walk: %s" % p["panics"][:2] for p in r.get("pools", []) if p["panics"]]
            bad += ["address [%d][%d] carries shard %d" % (sh, i, a["shard"]) for p in r.get("pools", []) for sh, row in enumerate(p["addresses"]) for i, a in enumerate(row) if a["shard"] != sh or a["index"] != i]
            bad += ["admin %s: %s" % (c, v["panic"]) for c, v in (r.get("admin") or {}).items() if "panic" in v]
        if bad:
            run.violation("counterexample", "regression input '%s' is accepted and not servable: %s" % (name, bad[0]), dict(rep, monitor=bad))
        elif bool(r.get("accept")) != must:
            run.violation("tie-broken", "regression input '%s' is %s (expected %s); no panic or misaddressing observed" % (name, "accepted" if r.get("accept") else "rejected", "accepted" if must else "rejected"),
                          dict(rep, correspondence="regression corpus of props/c15.py vs config::parse"), found_input=False)
    return n

# ----------------------------------------------------------------------------- defaults (values of omitted options)
def translate(run):
    """T1: regenerate coq/Gen/ConfigDefaults.v (and the JSON census) from /repo/src/config.rs."""
    os.makedirs(os.path.join(vlib.COQ, "Gen"), exist_ok=True)
    os.makedirs(TMPDIR, exist_ok=True)
    out = os.path.join(vlib.COQ, "Gen", "ConfigDefaults.v")
    tmp, js = out + ".new", os.path.join(TMPDIR, "defaults_census.json")
    rc, log = vlib.sh([sys.executable, os.path.join(vlib.ROOT, "translate", "cfg_defaults.py"), os.path.join(vlib.REPO, "src", "config.rs"), tmp, js], timeout=60)
    if rc != 0:
        return False, log.strip()
    new = open(tmp).read()
    if not os.path.exists(out) or open(out).read() != new:
        os.replace(tmp, out)
    else:
        os.remove(tmp)
    return True, ""


# a value different from the default for every defaulted option: (TOML literal, value as serialised)
FULL = {
    "general.host": ('"127.0.0.9"', "127.0.0.9"), "general.port": ("6999", 6999), "general.prometheus_exporter_port": ("9931", 9931),
    "general.connect_timeout": ("1001", 1001), "general.idle_timeout": ("600001", 600001), "general.tcp_keepalives_idle": ("6", 6),
    "general.tcp_keepalives_count": ("6", 6), "general.tcp_keepalives_interval": ("6", 6), "general.tcp_user_timeout": ("10001", 10001),
    "general.log_client_connections": ("true", True), "general.log_client_disconnections": ("true", True), "general.dns_cache_enabled": ("true", True),
    "general.dns_max_ttl": ("31", 31), "general.shutdown_timeout": ("60001", 60001), "general.healthcheck_timeout": ("1001", 1001),
    "general.healthcheck_delay": ("30001", 30001), "general.ban_time": ("61", 61), "general.idle_client_in_transaction_timeout": ("1", 1),
    "general.server_lifetime": ("3600001", 3600001), "general.server_round_robin": ("false", False), "general.worker_threads": ("5", 5),
    "general.autoreload": ("15000", 15000), "general.server_tls": ("true", True), "general.verify_server_certificate": ("true", True),
    "general.admin_auth_type": ('"trust"', "Trust"), "general.validate_config": ("false", False),
    "pools.pool_mode": ('"session"', "Session"), "pools.load_balancing_mode": ('"loc"', "LeastOutstandingConnections"), "pools.default_role": ('"replica"', "replica"),
    "pools.query_parser_enabled": ("true", True), "pools.query_parser_read_write_splitting": ("true", True), "pools.primary_reads_enabled": ("true", True),
    "pools.sharding_function": ('"sha1"', "Sha1"), "pools.automatic_sharding_key": ('"data.id"', "data.id"), "pools.default_shard": ('"random"', "random"),
    "pools.cleanup_server_connections": ("false", False), "pools.log_client_parameter_status_changes": ("true", True),
    "pools.prepared_statements_cache_size": ("7", 7), "pools.db_activity_based_routing": ("true", True), "pools.db_activity_init_delay": ("101", 101),
    "pools.db_activity_ttl": ("901", 901), "pools.table_mutation_cache_ms_ttl": ("51", 51),
    "users.auth_type": ('"trust"', "Trust"), "users.statement_timeout": ("9", 9),
}


def defaults_toml(setopts):
    """A file that sets exactly the defaulted options in setopts (option -> TOML literal); everything else that can be omitted is."""
    sec = {"general": [], "pools": [], "users": []}
    for o, lit in setopts.items():
        s_, name = o.split(".", 1)
        sec[s_].append("%s = %s" % (name, lit))
    return ("[general]\nadmin_username = \"admin\"\nadmin_password = \"admin\"\n" + "\n".join(sec["general"]) + "\n[pools.db]\n" + "\n".join(sec["pools"]) +
            "\n[pools.db.users.0]\nusername = \"u\"\npassword = \"pw\"\npool_size = 5\n" + "\n".join(sec["users"]) +
            "\n[pools.db.shards.0]\ndatabase = \"d0\"\nservers = [[\"127.0.0.1\", 1, \"primary\"]]\n")


def parsed_value(cfgjson, option):
    s_, name = option.split(".", 1)
    node = cfgjson["general"] if s_ == "general" else (cfgjson["pools"]["db"] if s_ == "pools" else cfgjson["pools"]["db"]["users"]["0"])
    return node.get(name, "<absent>")


def dval(x):
    x = ident(x)
    if x == "DNone":
        return None
    tag, v = x[0], ident(x[1])
    if tag == "DBool":
        return v if isinstance(v, bool) else v == "true"
    return bstr(v) if tag == "DStr" else v


def defaults_check(run, binp, tr_ok):
    """Values of omitted options: parsed file vs the pinned table (Config/Defaults.v), vs the Default impls, one option at a time."""
    n = 0
    census = json.load(open(os.path.join(TMPDIR, "defaults_census.json"))) if tr_ok else {"table": [], "problems": []}
    try:
        (pv,) = vlib.coq_eval("c15_defaults", "From PV Require Import Config.Defaults.\nFrom Coq Require Import ZArith List Bool. Import ListNotations. Open Scope Z_scope.", ["pinned_defaults"], shard=1)
        pinned = {bstr(k): dval(v) for k, v in vlib.parse_coq(pv)}
    except Exception as ex:          # Defaults.v itself does not build
        run.broken.append("Config/Defaults.v cannot be evaluated: %s" % str(ex)[-300:])
        return 0
    options = sorted(set(pinned) | {t["option"] for t in census["table"]})
    missing_full = [o for o in options if o not in FULL]
    unpinned = [o for o in options if o not in pinned]
    if missing_full or unpinned:
        run.violation("tie-broken", "src/config.rs has defaulted options the C15 defaults table does not know: %s" % (missing_full + unpinned),
                      {"correspondence": "translate/cfg_defaults.py census vs Config/Defaults.v pinned_defaults / props/c15.py FULL", "options": missing_full + unpinned}, found_input=False)
        options = [o for o in options if o in FULL and o in pinned]
    jobs = [{"toml": defaults_toml({}), "dump": True, "parse_only": True}, {"toml": defaults_toml({o: FULL[o][0] for o in options}), "dump": True, "parse_only": True}]
    for o in options:
        setopts = {k: FULL[k][0] for k in options if k != o}
        if o == "pools.query_parser_enabled":
            setopts["pools.query_parser_read_write_splitting"] = "false"     # splitting needs the parser
        jobs.append({"toml": defaults_toml(setopts), "dump": True, "parse_only": True})
    res = run_harness(binp, jobs + [{"op": "defaults"}])
    struct_defaults = res.pop()
    for j, (job, r) in enumerate(zip(jobs, res)):
        what = "all defaulted options omitted" if j == 0 else ("all defaulted options set" if j == 1 else "only %s omitted" % options[j - 2])
        rep = {"input": {"toml": job["toml"], "shape": what}, "impl": {k: r.get(k) for k in ("accept", "error")}}
        if not r.get("accept"):
            run.violation("tie-broken", "defaults file (%s) is rejected: %s" % (what, r.get("error")), dict(rep, correspondence="props/c15.py defaults files vs config::parse"), found_input=False)
            continue
        omitted = options if j == 0 else ([] if j == 1 else [options[j - 2]])
        for o in options:
            n += 1
            got = parsed_value(r["config"], o)
            if o in omitted:
                want, src = pinned[o], "the documented default (Config/Defaults.v pinned_defaults)"
            else:
                want, src = FULL[o][1], "the value written in the file"
                if j >= 2 and options[j - 2] == "pools.query_parser_enabled" and o == "pools.query_parser_read_write_splitting":
                    want = False
            if got != want:
                run.violation("counterexample", "%s: option %s is %r after parsing, %s is %r" % (what, o, got, src, want),
                              dict(rep, option=o, parsed=got, expected=want, census=[t for t in census["table"] if t["option"] == o]))
        if j == 0:
            # the two ways of defaulting must agree: serde's per-field default vs the struct's Default impl
            for o in options:
                s_, name = o.split(".", 1)
                d = struct_defaults[s_].get(name, "<absent>")
                n += 1
                if d != parsed_value(r["config"], o):
                    run.violation("counterexample", "option %s: a file omitting it gets %r, %s::default() holds %r" % (
                        o, parsed_value(r["config"], o), {"general": "General", "pools": "Pool", "users": "User"}[s_], d), dict(rep, option=o))
    # census: each serde attribute names the function of its own field, and that function yields the pinned value
    for t in census["table"]:
        n += 1
        if t["option"] in pinned and t["value"] != pinned[t["option"]] and not run.violations:
            run.violation("tie-broken", "source census: %s defaults to %r through %s, pinned %r; no parsed file showed the difference" % (t["option"], t["value"], t["from"], pinned[t["option"]]),
                          {"correspondence": "translate/cfg_defaults.py vs Config/Defaults.v", "census": t}, found_input=False)
    if census["problems"] and not run.violations:
        run.violation("tie-broken", "source census: %s (values agree today)" % census["problems"][0], {"correspondence": "serde default attribute <-> own default_x function", "problems": census["problems"]}, found_input=False)
    run.cov["defaults"] = {"options": len(options), "files": len(jobs), "comparisons": n, "census_problems": census["problems"]}
    return n


# ----------------------------------------------------------------------------- check
def resource_guard(cfg):
    """min_pool_size is a number of server connections bb8 opens eagerly (one task each): an accepted
    min_pool_size = pool_size = 4294967295 exhausts memory.  Resource limits are outside the property;
    keep eagerly opened connections small."""
    for p in cfg["pools"]:
        for u in (p["users"] or []):
            if isinstance(u["min_pool_size"], int) and isinstance(u["pool_size"], int) and 64 < u["min_pool_size"] <= u["pool_size"]:
                u["min_pool_size"] = 3


def gen_cases(rng, nrand):
    cases = []
    # boundary set: every mutation applied alone to fixed bases of 1, 2 and 3 shards
    # and each of them once more with a loadable TLS pair (the verdict must not depend on it)
    for name, f in MUTATIONS:
        for n in (1, 3):
            c = base_config(rng, nshards=n)
            f(c, rng)
            cases.append(([name], c))
            c2 = copy.deepcopy(c)
            set_tls(c2, "pair")
            cases.append(([name, "tls:pair"], c2))
    for n in (1, 2, 3, 4):
        cases.append(([], base_config(rng, nshards=n)))
    # credentials: auth_type x password x server credentials x where auth_query is configured
    for aty in (None, "md5", "trust"):
        for pw in ("pw", None):
            for su, sp in ((None, None), ("su", "sp"), (None, "sp")):
                for aq in ("none", "pool", "general", "pool_no_query", "split"):
                    c = base_config(rng, nshards=1)
                    p = c["pools"][0]; p["users"] = p["users"][:1]
                    u = p["users"][0]; u["auth_type"] = aty; u["password"] = pw; u["server_username"] = su; u["server_password"] = sp
                    tgt = {"pool": p, "pool_no_query": p, "general": c["general"]}.get(aq)
                    if tgt is not None:
                        tgt["auth_query_user"] = "a"; tgt["auth_query_password"] = "b"
                        if aq != "pool_no_query":
                            tgt["auth_query"] = "SELECT 1"
                    if aq == "split":
                        p["auth_query"] = "SELECT 1"; c["general"]["auth_query_user"] = "a"; c["general"]["auth_query_password"] = "b"
                    cases.append((["cred:%s/%s/%s/%s" % (aty or "absent", "password" if pw else "no_password", "server_creds" if sp else "no_server_creds", aq)], c))
    for tname, _, _ in TLS_OPTIONS:
        for n in (1, 3):
            c = base_config(rng, nshards=n)
            set_tls(c, tname)
            cases.append((["tls:" + tname], c))
    for _ in range(nrand):
        c = base_config(rng)
        k = rng.choice([0, 1, 1, 1, 2, 2, 3])
        names = []
        if rng.random() < 0.2:
            second_pool(rng, c); names.append("general:second_pool")
        for _ in range(k):
            name, f = rng.choice(BENIGN if rng.random() < 0.6 else MUTATIONS)
            try:
                f(c, rng); names.append(name)
            except (IndexError, ValueError, KeyError, TypeError):
                pass            # an earlier mutation removed what this one edits
        t = rng.random()
        if t < 0.35:
            set_tls(c, "pair"); names.append("tls:pair")
        elif t < 0.55:
            tn = rng.choice(TLS_OPTIONS)[0]
            set_tls(c, tn); names.append("tls:" + tn)
        cases.append((names, c))
    for _, c in cases:
        resource_guard(c)
    return cases


def probes_for(cfg):
    n = max(len(p["shards"]) for p in cfg["pools"])
    pr = [(None, None), (None, "primary"), (None, "replica")]
    for s in range(n + 2):
        pr += [(s, None), (s, "primary"), (s, "replica")]
    return pr


def check(run):
    quick = run.tier == "quick"
    rng = run.rng
    run.assumptions += [
        "Coq 8.16.1 kernel + vm_compute; no axioms (Print Assumptions: closed under the global context for all 39 theorems)",
        "coq/Config/Model.v is a hand transcription of Config/Pool/Shard/User::validate, the DefaultShard deserialiser, fill_up_auth_query_config, from_config's construction "
        "and the index operations of pool.rs/admin.rs (validated each run against the real code on the generated files)",
        "toml 0.7 + serde derive (types, required fields, Role aliases) and the regex crate's verdict on a pattern are environment: the model starts from the typed structs "
        "and takes Regex::new(..).is_ok() as an input bit (asked from the real crate by the harness)",
        "bb8 0.8.6 Builder assertions (max_size > 0, non-zero timeouts, min_idle <= max_size) are modelled as read from bb8's source",
        "tls::load_certs / tls::load_keys verdicts on a path are environment bits of the model (asked from the real loaders on the repository's CI certificate, a missing, a corrupt and a PEM-less file); "
        "Tls::new() is run on accepted files but is outside the model",
        "bb8 builder arguments (max_size, min_idle, idle_timeout, max_lifetime) are not observable through the public API: modelled; connection_timeout is observed by coarse timing (40 ms vs 2500 ms) of get() against a refusing server",
        "PoolSettings fields copied unchanged (healthcheck_*, ban_time, load_balancing_mode, sharding_function, regex_search_limit, query_parser_max_length, checkout_failure_limit, primary_reads_enabled) are checked by the model-free monitor only",
        "translate/cfg_defaults.py reads the serde default attributes and the literal bodies of the default_* functions of src/config.rs (fails on shapes it does not know); "
        "Config/Defaults.v pinned_defaults is the documented table (CONFIG.md's 'default:' lines describe the example pgcat.toml and disagree with the code on several options, "
        "so they are not used as the reference)",
        "hypotheses of c15_accepted_servable besides acceptance: fewer than 2^63 shards per pool, DefaultShard::Shard carries a usize (non-negative)",
    ]
    run.cov["trusted_base"] = ["coqc 8.16.1 kernel", "vm_compute", "coq/Config/Model.v (hand transcription)", "harness/src/cfgwalk.rs + bin/config.rs",
                               "props/c15.py generator / TOML writer / canonicaliser", "toml+serde, regex, bb8 crates (environment)",
                               "Print Assumptions: Closed under the global context (all theorems)"]
    tr_ok, tr_msg = translate(run)
    proof_ok, log = (False, tr_msg)
    if tr_ok:
        proof_ok, log = vlib.prove(run, COQ_FILES + ["Gen/ConfigDefaults.v"], "Config/Props.v")
    run.log("translate ok=%s proof ok=%s" % (tr_ok, proof_ok))
    ok, blog, bins = vlib.cargo_build(["config"])
    if not ok:
        run.violation("tie-broken", "harness does not build against /repo (API used by the correspondence changed)",
                      {"correspondence": "config harness build", "log": blog[-3000:]}, found_input=False)
        return
    binp = bins["config"]

    if not tr_ok:
        run.violation("tie-broken", "translate/cfg_defaults.py no longer recognises the defaults of src/config.rs: %s" % tr_msg[-300:],
                      {"correspondence": "translate/cfg_defaults.py", "log": tr_msg[-2000:]}, found_input=False)
    ndefaults = defaults_check(run, binp, tr_ok)
    run.log("defaults: %d comparisons, violations so far: %d" % (ndefaults, len(run.violations)))

    ncorpus = run_corpus(run, binp)
    run.log("regression corpus: %d files, violations so far: %d" % (ncorpus, len(run.violations)))

    rx = run_harness(binp, [{"op": "regex", "patterns": REGEXES}])[0]["ok"]
    regex_ok = dict(zip(REGEXES, rx))
    # the real loaders' verdicts on the TLS files (environment bits of the model, like the regex verdicts)
    write_tls_files()
    tl = run_harness(binp, [{"op": "tls", "paths": TLS_PATHS}])[0]
    lv = lambda n: "LoadErr" if n < 0 else ("LoadEmpty" if n == 0 else "LoadSome")
    for pth, nc, nk in zip(TLS_PATHS, tl["certs"], tl["keys"]):
        regex_ok[("cert", pth)] = lv(nc)
        regex_ok[("key", pth)] = lv(nk)
    if not (regex_ok[("cert", CERT)] == "LoadSome" and regex_ok[("key", KEY)] == "LoadSome"):
        run.broken.append("the repository's CI certificate/key (%s, %s) do not load: the TLS part of the grammar cannot be run" % (CERT, KEY))

    cases = gen_cases(rng, 900 if quick else 12000)
    tomls = [to_toml(c) for _, c in cases]
    jobs = [{"toml": t, "admin": ADMIN, "show": True} for t in tomls]
    res = run_harness(binp, jobs)
    run.log("implementation ran %d files" % len(res))

    typed_idx = [i for i, (_, c) in enumerate(cases) if typed(c)]
    model_vals = {}
    if proof_ok:
        exprs = [coq_run_expr(cases[i][1], regex_ok) for i in typed_idx]
        vals = vlib.coq_eval("c15_eval", PRE, exprs, shard=max(20, len(exprs) // 16 + 1))
        for i, v in zip(typed_idx, vals):
            model_vals[i] = vlib.parse_coq(v)
    run.log("model evaluated on %d typed files" % len(model_vals))

    evals, distinct, samples = ncorpus + ndefaults, set(t for _, t, _ in CORPUS), []
    hist = {"accepted": 0, "rejected": 0, "untyped": 0, "mutations": {}}
    classes = set()
    for i, ((names, cfg), toml, r) in enumerate(zip(cases, tomls, res)):
        evals += 1
        distinct.add(toml)
        for nme in names:
            hist["mutations"][nme] = hist["mutations"].get(nme, 0) + 1
        hist["accepted" if r.get("accept") else "rejected"] += 1
        classes.add((tuple(sorted(names)), bool(r.get("accept"))))
        rep = {"input": {"toml": toml, "mutations": names}, "impl": {k: r.get(k) for k in ("accept", "error", "from_config", "show")}}
        # monitor first: the property on the implementation alone
        probs = monitor(cfg, r)
        show_only = [p for p in probs if p.startswith("Config::show()")]
        probs = [p for p in probs if not p.startswith("Config::show()")]
        # the verdict must not depend on a loadable TLS pair: same file without it, generated just before
        if names and names[-1] == "tls:pair" and i > 0 and cases[i - 1][0] == names[:-1] and bool(res[i - 1].get("accept")) != bool(r.get("accept")):
            run.violation("counterexample", "the verdict depends on tls_certificate/tls_private_key: %s without, %s with a loadable pair (mutations %s)" % (
                "accepted" if res[i - 1].get("accept") else "rejected", "accepted" if r.get("accept") else "rejected", names[:-1]),
                dict(rep, without_tls={"toml": tomls[i - 1], "accept": res[i - 1].get("accept")}))
            continue
        if show_only:
            # outside the property's theorem (startup logging, overflow checks are a debug-build feature): recorded, not reported
            run.cov.setdefault("observations", {})["Config::show() u32 overflow of summed pool sizes (debug builds)"] = \
                run.cov.get("observations", {}).get("Config::show() u32 overflow of summed pool sizes (debug builds)", 0) + 1
        if probs:
            rep["impl"]["pools"] = r.get("pools"); rep["monitor"] = probs
            run.violation("counterexample", "accepted configuration is not servable: " + probs[0], rep)
            continue
        if i not in model_vals:
            if not typed(cfg):
                hist["untyped"] += 1
                if r.get("accept"):
                    run.violation("tie-broken", "a file the generator considers ill-typed for toml/serde was accepted (mutations %s)" % names,
                                  dict(rep, correspondence="typed() oracle of props/c15.py vs config::parse"), found_input=False)
            continue
        run.cov["traces_validated_against_impl"] += 1
        mres, mpanics = model_vals[i]
        m_accept = mres != "Rejected"
        rep["model"] = str(mres)[:1500]
        if m_accept != bool(r.get("accept")):
            run.violation("tie-broken", "validation verdicts differ (mutations %s): config::parse %s, model %s" % (names, "accepts" if r.get("accept") else "rejects", "accepts" if m_accept else "rejects"),
                          dict(rep, correspondence="Config.Model.accept vs config::parse"), found_input=False)
            continue
        if not m_accept:
            continue
        if isinstance(mres, tuple) and mres[0] == "AcceptedPanics":
            # implementation built fine (monitor passed) but the model predicts a panic
            run.violation("tie-broken", "model predicts a from_config panic (%s), the implementation builds the pools" % (mpanics,),
                          dict(rep, correspondence="Config.Model.build vs ConnectionPool::from_config"), found_input=False)
            continue
        mt, it = model_table(mres[1]), impl_table(r)
        if mt != it:
            d = next(((a, b) for a, b in zip(mt, it) if a != b), (mt[:1], it[:1]))
            rep["model_table"], rep["impl_table"] = str(d[0])[:2000], str(d[1])[:2000]
            run.violation("tie-broken", "addressing tables differ (mutations %s)" % names,
                          dict(rep, correspondence="Config.Model.build vs ConnectionPool::from_config + walk"), found_input=False)
            continue
        if len(samples) < 3 and names:
            samples.append({"mutations": names, "accept": r.get("accept"), "toml_head": toml[:300], "model": str(mres)[:300]})
    run.log("accept/reject + addressing compared; violations so far: %d" % len(run.violations))

    # get() against refusing servers: the candidate set the real code computes
    nprobe = 48 if quick else 600
    pcases = []
    for t in range(nprobe):
        c = base_config(rng, probe=True)
        if rng.random() < 0.3:
            second_pool(rng, c); c["general"]["connect_timeout"] = 20
        for _ in range(rng.choice([0, 0, 1])):
            name, f = rng.choice([m for m in MUTATIONS if m[0] in ("keys:plus", "keys:leading_zero", "servers:same_host_other_role", "servers:mirrors_in",
                                                                   "pool:ds_spelling", "user:dup_username", "servers:cap_role")])
            f(c, rng)
        for p in c["pools"]:
            p["connect_timeout"] = None
            for u in p["users"]:
                u["connect_timeout"] = None
        for p in c["pools"]:
            for s in p["shards"]:
                for sv in s["servers"]:
                    sv[1] = min(max(sv[1], 1), 9)
        pcases.append(c)
    pjobs, pmeta = [], []
    for c in pcases:
        p = rng.choice(c["pools"]); u = p["users"][-1]
        pr = probes_for(c)
        pjobs.append({"toml": to_toml(c), "probe": {"db": p["name"], "user": u["username"], "probes": [[s, r] for s, r in pr]}})
        pmeta.append((c, p["name"], u["username"], pr))
    pres = run_harness(binp, pjobs)
    pvals = vlib.coq_eval("c15_probe", PRE, [coq_probe_expr(c, regex_ok, db, usr, pr) for c, db, usr, pr in pmeta], shard=max(4, len(pmeta) // 16 + 1)) if proof_ok else []
    nprobes = 0
    for (c, db, usr, pr), job, r, v in zip(pmeta, pjobs, pres, pvals or [None] * len(pmeta)):
        rep = {"input": {"toml": job["toml"], "probe": job["probe"]}, "impl": {k: r.get(k) for k in ("accept", "error", "from_config")}}
        probs = monitor(c, r)
        if not r.get("accept") or probs:
            run.violation("counterexample" if probs else "tie-broken", "probe configuration: %s" % (probs[:1] or "rejected"), dict(rep, monitor=probs), found_input=bool(probs))
            continue
        mv = vlib.parse_coq(v) if v is not None else None
        cp = next(p for p in c["pools"] if p["name"] == db)
        bykey = {rust_usize(s["key"]): s for s in cp["shards"]}
        n = len(cp["shards"])
        for j, ((s, role), ob) in enumerate(zip(pr, r["probe"])):
            nprobes += 1; evals += 1
            distinct.add((job["toml"], s, role))
            tried = sorted((t[0], t[1]) for t in ob["tried"])
            out = ob["outcome"]
            if out.startswith("panic") or out.startswith("connected"):
                rep["probe_result"] = ob
                run.violation("counterexample" if out.startswith("panic") else "tie-broken", "ConnectionPool::get(%s, %s) on %s/%s: %s" % (s, role, db, usr, out), rep,
                              found_input=out.startswith("panic"))
                break
            # monitor: a selected shard number reaches only that shard's servers of the requested role
            if s is not None and (n == 1 or s < n):
                eff = 0 if n == 1 else s
                want = sorted((eff, i) for i, sv in enumerate(bykey[eff]["servers"]) if role is None or ROLE_T[sv[2]].lower() == role)
                if tried != want or out != "AllServersDown":
                    rep["probe_result"] = ob
                    run.violation("counterexample", "get(shard %s, role %s) of %s/%s tried %s (%s); the servers written under that shard are %s" % (s, role, db, usr, tried, out, want), rep)
                    break
            if s is not None and n > 1 and s >= n and (not out.startswith("InvalidShardId") or tried):
                rep["probe_result"] = ob
                run.violation("counterexample", "get(shard %s) with %d shards was not refused: %s, tried %s" % (s, n, out, tried), rep)
                break
            if mv is not None:
                run.cov["traces_validated_against_impl"] += 1
                m = mv[j]
                m_out = None if m is None else ident(m[1])   # Some (Some l) | Some None | None
                if m is None:
                    want_m = "no pool"
                elif m_out is None or m_out == "None":
                    want_m = ("InvalidShardId", [])
                else:
                    want_m = ("AllServersDown", sorted((a, b) for a, b in m_out[1]))
                got_m = ("InvalidShardId" if out.startswith("InvalidShardId") else out, tried)
                if want_m != got_m:
                    rep["probe_result"] = ob; rep["model"] = str(m)
                    run.violation("tie-broken", "get(%s, %s) of %s/%s: implementation %s, model %s" % (s, role, db, usr, got_m, want_m),
                                  dict(rep, correspondence="Config.Model.get_candidates vs ConnectionPool::get"), found_input=False)
                    break
    if pmeta:
        samples.append({"kind": "probe", "db": pmeta[0][1], "user": pmeta[0][2], "probe": pres[0].get("probe", [])[:3]})
    run.log("get() probes compared: %d" % nprobes)

    # connect_timeout precedence (user over pool over [general]) observed on the real bb8 pool: a get() against a
    # refusing server gives up after the effective timeout.  Coarse bounds only: 40 ms vs 2500 ms.
    tcases = []
    for lvl_u, lvl_p, lvl_g in [(40, None, 2500), (None, 40, 2500), (None, None, 40), (2500, 40, 40), (None, 2500, 40), (None, None, 2500), (40, 2500, 2500), (2500, None, 40)]:
        c = base_config(rng, nshards=1, probe=True)
        c["general"]["connect_timeout"] = lvl_g
        p = c["pools"][0]; p["connect_timeout"] = lvl_p; p["users"] = p["users"][:1]; p["users"][0]["connect_timeout"] = lvl_u
        p["shards"][0]["servers"] = [["127.0.0.1", 1, "primary"]]; p["default_role"] = None; p["auth_query"] = None
        tcases.append((c, lvl_u if lvl_u is not None else (lvl_p if lvl_p is not None else lvl_g)))
    tjobs = [{"toml": to_toml(c), "probe": {"db": "db", "user": "u", "probes": [[None, None]]}} for c, _ in tcases]
    tres = run_harness(binp, tjobs)
    tvals = vlib.coq_eval("c15_time", PRE, [coq_run_expr(c, regex_ok) for c, _ in tcases], shard=1) if proof_ok else [None] * len(tcases)
    for (c, want), job, r, v in zip(tcases, tjobs, tres, tvals):
        evals += 1
        rep = {"input": {"toml": job["toml"], "probe": job["probe"]}, "impl": {k: r.get(k) for k in ("accept", "error", "from_config")}, "expected_connect_timeout_ms": want}
        if not r.get("accept") or r.get("from_config") != "ok":
            run.violation("tie-broken", "connect_timeout precedence file not accepted/built: %s" % r.get("error", r.get("from_config")), rep, found_input=False); continue
        el = r["probe"][0]["elapsed_ms"]
        rep["elapsed_ms"] = el
        if v is not None:
            mres, _ = vlib.parse_coq(v)
            mb = model_settings(mres[1][0][5])[1] if isinstance(mres, tuple) and mres[0] == "AcceptedBuilt" else None
            run.cov["traces_validated_against_impl"] += 1
            if mb is None or mb["connect_timeout"] != want:
                run.violation("tie-broken", "model's bb8 connection_timeout is %s, the precedence user > pool > general gives %s" % (mb and mb["connect_timeout"], want),
                              dict(rep, correspondence="Config.Model.mk_pool vs documented precedence"), found_input=False); continue
        if (want >= 2500 and el < 2400) or (want <= 40 and el >= 2000):
            run.violation("counterexample", "effective connect_timeout should be %d ms (user over pool over general); get() against a refusing server gave up after %d ms" % (want, el), rep)
    run.log("connect_timeout precedence probes: %d" % len(tcases))

    run.cov["evaluations"] = evals
    run.cov["distinct_nontrivial"] = len(distinct)
    run.cov["rule"] = ("TOML files from a bounded grammar: 1-2 pools, 1-4 shards, 1-3 servers, 1-2 users; %d named mutations (shard key sets/spellings, server lists, roles, users' sizes, "
                       "timeouts, pool_mode / statement_timeout overrides, default_shard/default_role values, regexes, plugin sections at global / pool / both levels, auth_query combinations, "
                       "automatic_sharding_key forms, missing fields), each alone on a 1- and a 3-shard base, once without and once with a loadable tls_certificate/tls_private_key pair, "
                       "%d TLS option shapes (pair, missing / corrupt / PEM-less files, only one of the two, swapped), plus 0-3 random mutations and a random TLS option on random bases; "
                       "every file through config::parse, accepted ones through from_config, the addressing walk, every PoolSettings field, 11 admin statements, Config::show and Tls::new; "
                       "a second stream of valid files through ConnectionPool::get for every (shard|none|out-of-range, role) against refusing servers; 8 timing probes of the effective "
                       "connect_timeout. distinct = distinct TOML texts + distinct (file, shard, role) probes" % (len(MUTATIONS), len(TLS_OPTIONS)))
    run.cov["samples"] = samples[:6]
    run.cov["input_distribution"] = {"files": len(cases), "accepted": hist["accepted"], "rejected": hist["rejected"], "ill_typed_for_serde": hist["untyped"],
                                     "mutation_classes_x_verdict": len(classes), "per_mutation": hist["mutations"], "probe_files": len(pcases), "get_probes": nprobes}
    run.cov["mutations_total"] = len(MUTATIONS)
    run.cov["mutations_covered"] = len([m for m, _ in MUTATIONS if hist["mutations"].get(m)])

    if not proof_ok and not run.violations and not run.broken:
        run.violation("proof-broken", "Config/Props.v no longer checks; the implementation passed the monitor on all %d generated files" % len(cases),
                      {"theorem": "Config/Props.v", "coq_log": log[-2500:]}, found_input=False)
    if not quick and proof_ok:
        vlib.coqchk(run, ["PV.Config.Props"])


def replay(run, path):
    r = json.load(open(path))
    ok, blog, bins = vlib.cargo_build(["config"])
    if not ok:
        print(blog[-2000:]); return 2
    inp = r.get("input", {})
    job = {"toml": inp.get("toml", ""), "admin": ADMIN, "show": True}
    if "probe" in inp:
        job["probe"] = inp["probe"]
    out = run_harness(bins["config"], [job])[0]
    print(inp.get("toml", ""))
    print(json.dumps({k: out.get(k) for k in ("accept", "error", "from_config", "show")}, indent=1))
    bad = []
    if out.get("accept"):
        if out.get("from_config") != "ok":
            bad.append("from_config: %s" % out.get("from_config"))
        for p in out.get("pools", []):
            if p["panics"]:
                bad.append("walk %s/%s: %s" % (p["db"], p["user"], p["panics"][:3]))
            for sh, row in enumerate(p["addresses"]):
                for i, a in enumerate(row):
                    if a["shard"] != sh or a["index"] != i:
                        bad.append("address [%d][%d] carries shard %d index %d" % (sh, i, a["shard"], a["index"]))
        for cmd, v in (out.get("admin") or {}).items():
            if "panic" in v:
                bad.append("admin %s: %s" % (cmd, v["panic"]))
        for ob in out.get("probe", []) or []:
            if ob["outcome"].startswith("panic"):
                bad.append("get %s: %s" % (ob["probe"], ob["outcome"]))
    print("replay:", "STILL FAILING: %s" % bad if bad else "no panic / misaddressing on this input")
    return 1 if bad else 0
