"""Cross-feature mix: ONE shared, model-free stage used by every property's check.

A seeded random generator of wire scenarios (harness bin `wire`) that combines ALL features in one
configuration and one history (shards x replicas, pool/user pool_mode, statement cache, parser / splitting,
sharding regexes + automatic key, plugins, pause / reload / ban, backend faults, simple + extended + COPY
protocol, custom commands, cancel, disconnects), plus model-free monitors, one group per property, each
evaluating THAT property's own predicate directly on the observed trace.  No Coq model is involved: the
stage supports the search for a failing input; the theorems stay where they are.

Entry points:  gen(rng, n) -> scenarios (each with `_truth`),  run_for(run, prop),  replay_scenario(scn, prop).
"""
import copy, gzip, hashlib, json, os, random, re, subprocess, time
from collections import Counter, defaultdict

import vlib
from props import wirelib as W
from props import session_common as S
from props.c06 import pg_partition

# Until /repo 2a7a370, SET SERVER ROLE TO 'primary'|'replica'|'any' switched the session's parser and with it the plugins
# off; while that was so, denied/intercepted statements sent after such a command were excluded from the C19 monitor.
# Repaired: messages are parsed whenever the pool runs plugins (QueryRouter::parses_messages).  No exclusion any more.
C19_EXCLUDE_AFTER_SET_ROLE = False

# Genuine defect found by this stage on 2a7a370 (F36): a client that connected BEFORE its user was removed by a RELOAD and
# re-added by a later RELOAD was not held by a later PAUSE (Client::handle waited on its stale pool object).  Repaired in /repo
# 75dfce1 (the pool is looked up before wait_paused as well): no exclusion any more, such sessions must be held.
C16_EXCLUDE_READDED_USER = False

TRACKED = ["client_encoding", "DateStyle", "TimeZone", "standard_conforming_strings", "application_name"]
TAG_RE = re.compile(r"/\*t(\d+)_(\d+)\*/")
INTERCEPT_SQL = "select 7 as intercepted"
PLUGIN_TOML = ('[plugins]\n[plugins.table_access]\nenabled = true\ntables = ["secret"]\n[plugins.intercept]\nenabled = true\n'
               '[plugins.intercept.queries.0]\nquery = "%s"\nschema = [["id", "int4"]]\nresult = [["7"]]\n' % INTERCEPT_SQL)
TZS = ["Europe/Rome", "Asia/Tokyo", "America/Lima", "Etc/UTC"]
DSS = ["ISO, DMY", "German, DMY", "ISO, MDY"]
MONITORED = ["C01", "C02", "C03", "C04", "C05", "C06", "C08", "C10", "C12", "C14", "C16", "C18", "C19"]
STUBS = ["C07", "C09", "C11", "C13", "C15", "C17", "C20"]


# ============================================================================ configuration
def sample_cfg(rng, need=()):
    need = set(need)
    nsh = rng.choice([1, 1, 2, 2, 3])
    if "multi_shard" in need and nsh == 1:
        nsh = rng.choice([2, 3])
    if "single_server" in need:
        nsh = 1
    shards = []
    for s in range(nsh):
        nrep = rng.choice([0, 1, 1, 2])
        if "replica" in need and s == 0 and nrep == 0:
            nrep = rng.choice([1, 2])
        if "single_server" in need:
            nrep = 0
        shards.append([["s%dp" % s, "primary"]] + [["s%dr%d" % (s, k), "replica"] for k in range(nrep)])
    all_rep = all(len(s) > 1 for s in shards)
    parser = rng.random() < 0.6 or bool(need & {"split", "plugins_eff", "autokey_eff"})
    splitting = parser and (rng.random() < 0.6 or bool(need & {"split", "autokey_eff"}))
    plugins = rng.choice([None, "global", "pool"])
    if "plugins_eff" in need and plugins is None:
        plugins = rng.choice(["global", "pool"])
    if "no_plugins" in need:
        plugins = None
    if plugins == "pool" and not parser:
        plugins = "global"
    cache = rng.choice([0, 1, 8])
    if "cache" in need and cache == 0:
        cache = rng.choice([1, 8, 8])
    if "cache8" in need:
        cache = 8
    pool_mode = "transaction" if (rng.random() < 0.72 or "txn_pool" in need or "cache" in need or "cache8" in need) else "session"
    nusers = 2 if ("two_users" in need or rng.random() < 0.5) else 1
    users = []
    for i in range(nusers):
        u = {"username": "u%d" % (i + 1), "password": "pw%d" % (i + 1), "pool_size": rng.choice([1, 2, 2, 3]), "statement_timeout": rng.choice([0, 1500])}
        if rng.random() < 0.25:
            u["pool_mode"] = "session" if pool_mode == "transaction" else "transaction"
        users.append(u)
    if "txn_pool" in need or "cache" in need or "cache8" in need:
        users[0].pop("pool_mode", None)
    if "session_pool" in need and all((u.get("pool_mode") or pool_mode) == "transaction" for u in users):
        users[-1]["pool_mode"] = "session"
    if "single_server" in need:
        users[0]["pool_size"] = rng.choice([1, 2])
    cfg = {
        "shards": shards, "users": users,
        "pool": {"pool_mode": pool_mode, "prepared_statements_cache_size": cache, "query_parser_enabled": parser,
                 "query_parser_read_write_splitting": splitting,
                 "primary_reads_enabled": True if not all_rep else rng.random() < 0.6,
                 "default_role": rng.choice(["any", "any", "primary"] + (["replica"] if all_rep else [])),
                 "default_shard": rng.choice(["shard_0", "random", "random_healthy"]),
                 "cleanup_server_connections": rng.random() < 0.8},
        "regex": rng.random() < 0.5 or "regex" in need,
        "autokey": rng.random() < 0.5 or "autokey_eff" in need,
        "plugins": plugins,
        "general": {"connect_timeout": 1500, "healthcheck_timeout": 300, "ban_time": 2},
    }
    if rng.random() < 0.45 or "hc0" in need:
        cfg["general"]["healthcheck_delay"] = 0
    return cfg


def backends_of(cfg):
    out, i = [], 0
    for sh in cfg["shards"]:
        for b, _ in sh:
            out.append({"name": b, "host": "127.0.0.%d" % (10 + i)})
            i += 1
    return out


def host_of(cfg, b):
    return next(x["host"] for x in backends_of(cfg) if x["name"] == b)


def render_toml(cfg):
    opts = dict(cfg["pool"])
    if cfg["regex"]:
        opts["shard_id_regex"] = "/\\* shard_id: (\\d+) \\*/"
        opts["sharding_key_regex"] = "/\\* sharding_key: (\\d+) \\*/"
    if cfg["autokey"]:
        opts["automatic_sharding_key"] = "data.id"
    pool = {"opts": opts, "users": [dict(u) for u in cfg["users"]], "shards": [{"servers": [list(x) for x in sh]} for sh in cfg["shards"]]}
    if cfg["plugins"] == "pool":
        pool["plugins"] = PLUGIN_TOML
    t = W.make_toml(general=dict(cfg["general"]), pools={"db": pool}, plugins=PLUGIN_TOML if cfg["plugins"] == "global" else None)
    for b in backends_of(cfg):
        t = t.replace('["127.0.0.1", @PORT:%s@' % b["name"], '["%s", @PORT:%s@' % (b["host"], b["name"]))
    return t


def shard_of(b):
    return int(re.match(r"s(\d+)", b).group(1))


def role_of(cfg, b):
    for sh in cfg["shards"]:
        for n, r in sh:
            if n == b:
                return r
    return None


def user_cfg(cfg, user):
    return next((u for u in cfg["users"] if u["username"] == user), None)


def mode_of(cfg, user):
    u = user_cfg(cfg, user)
    return None if u is None else (u.get("pool_mode") or cfg["pool"]["pool_mode"])


def cache_on(cfg, user):
    return mode_of(cfg, user) == "transaction" and cfg["pool"]["prepared_statements_cache_size"] > 0


def feats(cfg):
    f = set()
    if any(len(s) > 1 for s in cfg["shards"]):
        f.add("replica")
    if len(cfg["shards"]) > 1:
        f.add("multi_shard")
    if len(cfg["shards"]) == 1 and len(cfg["shards"][0]) == 1:
        f.add("single_server")
    if len(cfg["users"]) > 1:
        f.add("two_users")
    if cfg["plugins"]:
        f.add("plugins")
        if cfg["pool"]["query_parser_enabled"]:
            f.add("plugins_eff")
    else:
        f.add("no_plugins")
    if cfg["regex"]:
        f.add("regex")
    if cfg["pool"]["query_parser_enabled"] and cfg["pool"]["query_parser_read_write_splitting"]:
        f.add("split")
        if cfg["autokey"]:
            f.add("autokey_eff")
    if any(cache_on(cfg, u["username"]) for u in cfg["users"]):
        f.add("cache")
        if cfg["pool"]["prepared_statements_cache_size"] == 8:
            f.add("cache8")
    if any(mode_of(cfg, u["username"]) == "transaction" for u in cfg["users"]):
        f.add("txn_pool")
    if any(mode_of(cfg, u["username"]) == "session" for u in cfg["users"]):
        f.add("session_pool")
    if cfg["general"].get("healthcheck_delay") == 0:
        f.add("hc0")
    return f


# ============================================================================ generator
class CS:
    """what the generator believes about one scripted client"""

    def __init__(self, idx, user, ps, mode):
        self.idx, self.name, self.user = idx, "c%d" % idx, user
        self.alive, self.blocked = True, False
        self.ps = ps                  # statement caching as decided at connect (client.rs: prepared_statements_enabled)
        self.mode = mode              # pool mode the client task currently runs with (refreshed at every checkout)
        self.holding = False          # holds a server connection (open transaction / COPY / session mode after the first checkout)
        self.session_hold = False
        self.txn, self.copy = "I", False
        self.role_sel = None          # explicit SET SERVER ROLE primary|replica
        self.sticky_role = None       # role that stays when nothing infers (default_role / after 'default')
        self.parser_override = None
        self.shard_sel = None         # int | ["sticky", id] | None
        self.named = {}               # client statement name -> text (what this client most recently prepared under it)
        self.n = 0
        self.used_set_role = False
        self.stale = False            # holds a server of a configuration that a reload has replaced
        self.fragile = False          # caching flag differs from the reloaded configuration: anything may happen to its batches
        self.checkout_epoch = 0
        self.cur_role = None          # expectation fixed at the checkout of the current holding period
        self.cur_shard = None
        self.follow = 0               # plain transactions still owed after a custom command / plugin verdict
        self.removed = False          # its user has been removed by a reload
        self.readded = False          # ... and re-added since this client connected


KINDS = {}


def kind(name, w=1.0, req=()):
    def deco(fn):
        KINDS[name] = {"fn": fn, "w": w, "req": frozenset(req)}
        return fn
    return deco


class Builder:
    def __init__(self, rng, cfg, forced=(), counts=None):
        self.r, self.cfg0 = rng, cfg
        self.epochs = [copy.deepcopy(cfg)]
        self.steps, self.ops, self.quiesces, self.pauses, self.reloads, self.cancels, self.faults = [], [], [], [], [], [], []
        self.clients = {}
        self.nclients = 0
        self.paused = {}             # user -> pause id
        self.gates = 0
        self.preps = 0
        self.nact = 0
        self.kinds = Counter()
        self.forced = list(forced)
        self.counts = counts if counts is not None else Counter()
        self.faulted = False
        self.distinct_texts = defaultdict(set)   # user -> texts registered in the statement cache
        self.adm_n = 0
        self.sticky_n = 0
        self.removed_users = set()
        self.tasks = 0
        self.refused_b = set()

    # ------------------------------------------------------------------ helpers
    @property
    def cfg(self):
        return self.epochs[-1]

    @property
    def epoch(self):
        return len(self.epochs) - 1

    def nsh(self):
        return len(self.cfg["shards"])

    def alive(self):
        return [c for c in self.clients.values() if c.alive]

    def holders(self, user):
        return sum(1 for c in self.alive() if c.user == user and c.holding)

    def any_holder(self):
        return any(c.holding or c.copy for c in self.alive())

    def can_checkout(self, cs):
        u = user_cfg(self.cfg, cs.user)
        return (u is not None and not cs.removed and cs.user not in self.paused and self.holders(cs.user) < u["pool_size"])

    def can_connect(self, user):
        """a pool that a reload has just built connects to its servers when the first client arrives (pool.validate):
        that needs a free server connection"""
        u = user_cfg(self.cfg, user)
        return u is not None and user not in self.removed_users and (self.epoch == 0 or self.holders(user) < u["pool_size"])

    def free(self, cs):
        return cs.alive and not cs.blocked and not cs.copy

    def outer(self, cs):
        return self.free(cs) and not cs.holding and cs.txn == "I"

    def canfwd(self, cs):
        return self.free(cs) and cs.txn != "E" and (cs.holding or self.can_checkout(cs))

    def pick(self, pred):
        c = [x for x in self.alive() if pred(x)]
        return self.r.choice(c) if c else None

    def parser_eff(self, cs):
        return cs.parser_override if cs.parser_override is not None else self.cfg["pool"]["query_parser_enabled"]

    def split_eff(self, cs):
        return bool(self.parser_eff(cs) and self.cfg["pool"]["query_parser_read_write_splitting"])

    def plugins_block(self, cs):
        """(must_block, excluded): do the plugins certainly act on this client's next statement?  None = cannot tell.
        client.rs parses a message (and runs the plugins on it) when the session's parser is on or the pool has the parser
        on and plugins configured; SET SERVER ROLE only switches the role inference off."""
        if not self.cfg["plugins"]:
            return False, False
        if cs.used_set_role and C19_EXCLUDE_AFTER_SET_ROLE:
            return None, True
        if self.cfg["pool"]["query_parser_enabled"]:
            return True, False
        # global plugins with the pool's parser off: they only run for a session that switched its parser on ('auto')
        return (None if cs.parser_override is True else False), False

    def tag(self, cs):
        t = "t%d_%d" % (cs.idx, cs.n)
        cs.n += 1
        return t

    def mark(self, tag):
        self.steps.append({"op": "mark_events", "ev": "-", "mark": tag})

    def act(self, k):
        self.nact += 1

    def count(self, k):
        self.kinds[k] += 1
        self.counts[k] += 1

    def newop(self, cs, tag, kind_, **kw):
        op = {"i": len(self.ops), "tag": tag, "c": cs.name if cs else "adm", "ci": cs.idx if cs else 0, "user": cs.user if cs else None, "kind": kind_,
              "epoch": self.epoch, "faulted": self.faulted}
        if cs:
            u = user_cfg(self.cfg, cs.user)
            op.update({"holders_before": self.holders(cs.user), "pool_size": u["pool_size"] if u else None, "anypaused": bool(self.paused)})
            op.update({"first": not cs.holding, "txn_before": cs.txn, "ps": cs.ps, "mode": cs.mode, "paused": cs.user in self.paused,
                       "stale": cs.stale, "fragile": cs.fragile, "removed": cs.removed, "readded": cs.readded})
        op.update(kw)
        self.ops.append(op)
        self.count(kind_)
        return op

    # ------------------------------------------------------------------ routing beliefs
    def note_first(self, cs, op, texts, is_write, has_parse, nparse=1):
        """called for a message that makes the client check a server out: fix the role / shard expectations of the
        holding period that starts here (client.rs outer loop: comment regexes, plugins, infer; then pool.get)"""
        cfg = self.cfg
        n = self.nsh()
        # shard: comment regexes first (they return before any other command processing), then the automatic key
        commented = False
        if cfg["regex"] and has_parse:
            for t in texts:
                m = re.search(r"/\* shard_id: (\d+) \*/", t)
                if m:
                    cs.shard_sel, commented = int(m.group(1)), True
                    break
                m = re.search(r"/\* sharding_key: (\d+) \*/", t)
                if m:
                    cs.shard_sel, commented = pg_partition(int(m.group(1)), n), True
                    break
        inferred = False
        if has_parse and self.split_eff(cs):
            inferred = True
            if cfg["autokey"]:
                for t in texts:
                    m = re.search(r"(?:FROM|UPDATE) data .*WHERE id = (\d+)", t)
                    if m:
                        cs.shard_sel = pg_partition(int(m.group(1)), n)
        role = None
        if cs.role_sel in ("primary", "replica"):
            role = cs.role_sel
        elif not self.split_eff(cs):
            role = cs.sticky_role
        op["write_split"] = bool(inferred and is_write and nparse == 1 and cs.role_sel is None)
        if op["write_split"]:
            role = "primary"
        sh = cs.shard_sel
        if sh is None and n > 1:
            sh = 0 if cfg["pool"]["default_shard"] == "shard_0" else None
        if n == 1:
            sh = 0
        cs.cur_role, cs.cur_shard, cs.checkout_epoch = role, sh, self.epoch
        cs.stale = False
        cs.mode = mode_of(cfg, cs.user) or cs.mode

    def stamp(self, cs, op):
        op["role_expect"], op["shard_expect"], op["role_epoch"] = cs.cur_role, cs.cur_shard, cs.checkout_epoch

    def after_fwd(self, cs, txn_after, copy=False):
        """belief after a forwarded message was answered"""
        cs.txn, cs.copy = txn_after, copy
        if cs.mode == "session":
            cs.holding, cs.session_hold = True, True
        else:
            cs.holding = (txn_after != "I") or copy
        if not cs.holding and not cs.ps:
            cs.named.clear()

    # ------------------------------------------------------------------ message emitters
    def simple(self, cs, stmts, kind_, until="Z", held=False, timeout=4000, expect="Z", extra=None, no_recv=False):
        """one simple Query made of statement descriptors (skind, text); every statement carries the op's tag"""
        tag = self.tag(cs)
        texts = ["%s /*%s*/" % (t, tag) for _, t in stmts]
        for t in texts:
            assert not (t.lstrip().upper().startswith(("SELECT", "select")) and len(t.strip()) > 64), t
        sql = "; ".join(texts)
        skinds = [k for k, _ in stmts]
        is_write = any(k in ("begin", "write", "autokey_w") for k in skinds)
        op = self.newop(cs, tag, kind_, proto="Q", sql=sql, skinds=skinds, syncs=1, held=held, expect=expect)
        if extra:
            op.update(extra)
        if not cs.holding:
            self.note_first(cs, op, texts, is_write, True)
        self.stamp(cs, op)
        # belief: the backend's transaction status after the message (mock = PostgreSQL rules)
        t, cp = cs.txn, False
        for k in skinds:
            if t == "E":
                if k in ("commit", "rollback"):
                    t = "I"
                    continue
                break
            if k == "begin":
                t = "T" if t == "I" else t
            elif k in ("commit", "rollback"):
                t = "I"
            elif k in ("fail", "copyin_err"):
                t = "E" if t == "T" else t
                break
            elif k == "copyin":
                cp = True
                break
        op["txn_after"], op["copy_after"] = t, cp
        self.mark(tag)
        snd = {"op": "send", "c": cs.name, "msgs": [{"t": "Q", "sql": sql}]}
        rcv = {"op": "recv", "c": cs.name, "until": until, "timeout_ms": timeout, "label": tag}
        if held:
            self.tasks += 1
            op["task"] = "task%d" % self.tasks
            self.steps.append({"op": "spawn", "task": op["task"], "steps": [snd, dict(rcv, timeout_ms=7000)]})
            cs.blocked = True
            cs.held_op = op
        else:
            self.steps.append(snd)
            if not no_recv:
                self.steps.append(rcv)
        self.after_fwd(cs, t, cp)
        return op

    def local(self, cs, sql, kind_, expect="Z", **kw):
        """a Query the pooler answers itself (custom command, denied / intercepted statement)"""
        tag = self.tag(cs)
        op = self.newop(cs, tag, kind_, proto="L", sql=sql, expect=expect, **kw)
        self.mark(tag)
        self.steps.append({"op": "send", "c": cs.name, "msgs": [{"t": "Q", "sql": sql}]})
        self.steps.append({"op": "recv", "c": cs.name, "until": "Z", "timeout_ms": 4000, "label": tag})
        return op

    def batch(self, cs, msgs, kind_, parses=(), execs=(), descs=(), binds=(), is_write=False, expect="Z", fails=False, **kw):
        """one extended-protocol batch ending in Sync.  parses: [(name, text)], execs: expected statement texts in order,
        descs: expected texts of Describe('S'), binds: client names bound"""
        tag = kw.pop("tag", None) or self.tag(cs)
        op = self.newop(cs, tag, kind_, proto="X", msgs=msgs, parses=[list(p) for p in parses], execs=list(execs), descs=list(descs),
                        binds=list(binds), syncs=sum(1 for m in msgs if m["t"] == "S"), expect=expect, fails=fails, **kw)
        if not cs.holding:
            self.note_first(cs, op, [t for _, t in parses], is_write, bool(parses), nparse=len(parses))
        self.stamp(cs, op)
        t = cs.txn
        if fails and t == "T":
            t = "E"
        op["txn_after"], op["copy_after"] = t, False
        for name, text in parses:
            if cs.ps:
                self.distinct_texts[cs.user].add(text)
        op["cache_overflow"] = bool(cs.ps) and len({t for _, t in parses} | {cs.named.get(n) for n in binds if n in cs.named and n not in dict(parses)}) > max(1, self.cfg["pool"]["prepared_statements_cache_size"])
        self.mark(tag)
        self.steps.append({"op": "send", "c": cs.name, "msgs": msgs})
        self.steps.append({"op": "recv", "c": cs.name, "until": "Z", "count": max(1, op["syncs"]), "timeout_ms": 4000, "label": tag})
        self.after_fwd(cs, t, False)
        return op

    def admin(self, sql, kind_, c="adm", expect="Z", **kw):
        tag = "a_%d" % self.adm_n
        self.adm_n += 1
        op = self.newop(None, tag, kind_, proto="A", sql=sql, expect=expect, **kw)
        op["c"] = c
        self.mark(tag)
        self.steps.append({"op": "send", "c": c, "msgs": [{"t": "Q", "sql": sql}]})
        self.steps.append({"op": "recv", "c": c, "until": "Z", "timeout_ms": 4000, "label": tag})
        return op

    def connect(self, user=None, kind_="connect"):
        cfg = self.cfg
        users = [u["username"] for u in cfg["users"] if u["username"] not in self.removed_users]
        user = user or self.r.choice(users)
        self.nclients += 1
        idx = self.nclients
        cs = CS(idx, user, cache_on(cfg, user), mode_of(cfg, user))
        dr = cfg["pool"]["default_role"]
        cs.sticky_role = None if dr == "any" else dr
        self.clients[cs.name] = cs
        params = {"user": user, "database": "db", "application_name": "app%d" % idx}
        if self.r.random() < 0.3:
            params["TimeZone"] = self.r.choice(TZS)
        pw = user_cfg(cfg, user)["password"]
        self.steps.append({"op": "connect", "c": cs.name, "params": params, "password": pw})
        self.newop(cs, "conn%d" % idx, kind_, proto="C", params=params, expect="auth")
        return cs


# ---------------------------------------------------------------------------- action kinds
P_ = lambda n, t: {"t": "P", "name": n, "sql": t}
B_ = lambda n, params=None: ({"t": "B", "portal": "", "name": n} if params is None else {"t": "B", "portal": "", "name": n, "params": params})
E_ = {"t": "E", "portal": "", "max": 0}
SY = {"t": "S"}
READS = ["SELECT 1", "SELECT 2", "SELECT 1 /*mock: rows=2, size=30*/"]
WRITES = ["INSERT INTO t VALUES (1)", "UPDATE t SET v = 1", "DELETE FROM t WHERE v = 2"]


def _fwd(b, extra=lambda c: True):
    return b.pick(lambda c: b.canfwd(c) and extra(c))


def _simple_kind(name, stmts_fn, w=1.0, req=(), pred=lambda b, c: True):
    def fn(b):
        cs = _fwd(b, lambda c: pred(b, c))
        if not cs:
            return False
        b.simple(cs, stmts_fn(b, cs), name)
        b.act(name)
        return True
    kind(name, w, req)(fn)


_simple_kind("q_read", lambda b, c: [("read", b.r.choice(READS))], w=5)
_simple_kind("q_write", lambda b, c: [("write", b.r.choice(WRITES))], w=4)
_simple_kind("q_big", lambda b, c: [("read", b.r.choice(["SELECT 1 /*mock: rows=1, size=9100*/", "SELECT 1 /*mock: rows=3, size=4200*/"]))], w=2)
_simple_kind("q_error", lambda b, c: [("fail", "SELECT 1 /*mock:error*/")], w=2)
_simple_kind("q_multi", lambda b, c: b.r.choice([[("read", "SELECT 1"), ("write", "INSERT INTO t VALUES (2)")], [("write", "UPDATE t SET v = 3"), ("read", "SELECT 2"), ("read", "SELECT 3")],
                                                 [("read", "SELECT 1"), ("fail", "SELECT 2 /*mock:error*/"), ("read", "SELECT 3")]]), w=2)
_simple_kind("q_multi_txn", lambda b, c: [("begin", "BEGIN"), ("read", "SELECT 1"), ("commit", b.r.choice(["COMMIT", "ROLLBACK"]))], w=1.5, pred=lambda b, c: c.txn == "I")
_simple_kind("begin", lambda b, c: [("begin", b.r.choice(["BEGIN", "START TRANSACTION"]))], w=6, pred=lambda b, c: c.txn == "I")
_simple_kind("txn_stmt", lambda b, c: [b.r.choice([("read", "SELECT 1"), ("write", "INSERT INTO t VALUES (3)"), ("read", "SELECT 2")])], w=6, pred=lambda b, c: c.txn == "T")
_simple_kind("txn_fail_stmt", lambda b, c: [("fail", "SELECT 1 /*mock:error*/")], w=1.5, pred=lambda b, c: c.txn == "T")
_simple_kind("set_tracked", lambda b, c: [b.r.choice([("set", "SET TimeZone TO '%s'" % b.r.choice(TZS)), ("set", "SET application_name TO 'x%d'" % b.r.randint(1, 99)),
                                                      ("set", "SET DateStyle TO '%s'" % b.r.choice(DSS))])], w=3, pred=lambda b, c: c.txn == "I")
_simple_kind("set_tracked_in_txn", lambda b, c: [b.r.choice([("set", "SET TimeZone TO '%s'" % b.r.choice(TZS)), ("set", "SET DateStyle TO '%s'" % b.r.choice(DSS))])], w=2,
             pred=lambda b, c: c.txn == "T")
_simple_kind("set_untracked", lambda b, c: [("set", "SET work_mem TO %d" % b.r.randint(2, 90))], w=2.5, pred=lambda b, c: c.txn == "I")
_simple_kind("set_untracked_in_txn", lambda b, c: [("set", b.r.choice(["SET work_mem TO %d" % b.r.randint(2, 90), "SET LOCAL work_mem TO 5"]))], w=1.5, pred=lambda b, c: c.txn == "T")
_simple_kind("reset", lambda b, c: [("set", b.r.choice(["RESET TimeZone", "RESET ALL", "RESET work_mem", "RESET DateStyle"]))], w=1.5)
_simple_kind("copy_in_server_error", lambda b, c: [("copyin_err", "COPY t FROM STDIN /*mock:error*/")], w=1)
_simple_kind("copy_out", lambda b, c: [("copyout", "COPY t TO STDOUT /*mock: rows=3*/")], w=1, pred=lambda b, c: c.txn == "I")
_simple_kind("copy_out_txn", lambda b, c: [("copyout", "COPY t TO STDOUT /*mock: rows=2, size=5000*/")], w=1, pred=lambda b, c: c.txn == "T")


@kind("failed_txn_stmt", w=1.5)
def k_failed_stmt(b):
    cs = b.pick(lambda c: b.free(c) and c.txn == "E")
    if not cs:
        return False
    b.simple(cs, [("read", "SELECT 1")], "failed_txn_stmt")     # 25P02, status stays E
    b.act("failed_txn_stmt")
    return True


def _end_txn(b, name, sql):
    cs = b.pick(lambda c: b.free(c) and c.txn in ("T", "E"))
    if not cs:
        return False
    b.simple(cs, [(name, sql)], name)
    b.act(name)
    return True


kind("commit", w=7)(lambda b: _end_txn(b, "commit", "COMMIT"))
kind("rollback", w=3)(lambda b: _end_txn(b, "rollback", "ROLLBACK"))


@kind("sql_prepare", w=1.5)
def k_sql_prepare(b):
    cs = _fwd(b)
    if not cs:
        return False
    b.preps += 1
    b.simple(cs, [("prepare", "PREPARE q%d AS VALUES (1)" % b.preps)], "sql_prepare")
    b.act("sql_prepare")
    return True


def _copy_start(b, name, in_txn):
    cs = _fwd(b, lambda c: (c.txn == "T") == in_txn)
    if not cs:
        return False
    b.simple(cs, [("copyin", "COPY t FROM STDIN")], name, until="GZ", expect="G")
    b.act(name)
    return True


kind("copy_in_start", w=2.5)(lambda b: _copy_start(b, "copy_in_start", False))
kind("copy_in_start_txn", w=2)(lambda b: _copy_start(b, "copy_in_start_txn", True))


def _copy_end(b, name, done):
    cs = b.pick(lambda c: c.alive and not c.blocked and c.copy)
    if not cs:
        return False
    tag = b.tag(cs)
    t = cs.txn if done else ("E" if cs.txn == "T" else cs.txn)
    op = b.newop(cs, tag, name, proto="CP", expect="Z", txn_after=t, copy_after=False, syncs=1)
    b.stamp(cs, op)
    b.mark(tag)
    data = [{"t": "d", "data": "1\t%s\n" % ("z" * b.r.choice([3, 3, 9000]))}, {"t": "d", "data": "2\tb\n"}]
    b.steps.append({"op": "send", "c": cs.name, "msgs": data + [{"t": "c"} if done else {"t": "f", "msg": "no"}]})
    b.steps.append({"op": "recv", "c": cs.name, "until": "Z", "timeout_ms": 4000, "label": tag})
    b.after_fwd(cs, t, False)
    b.act(name)
    return True


kind("copy_done", w=6)(lambda b: _copy_end(b, "copy_done", True))
kind("copy_fail", w=3)(lambda b: _copy_end(b, "copy_fail", False))


def _stray(b, name, msg, in_txn):
    if in_txn:
        cs = b.pick(lambda c: b.free(c) and c.txn == "T" and c.holding)
    else:
        cs = b.pick(lambda c: b.outer(c) and b.can_checkout(c))
    if not cs:
        return False
    tag = b.tag(cs)
    op = b.newop(cs, tag, name, proto="S", expect="silence", txn_after=cs.txn, copy_after=False)
    if not cs.holding:
        b.note_first(cs, op, [], False, False)
    b.stamp(cs, op)
    b.mark(tag)
    b.steps.append({"op": "send", "c": cs.name, "msgs": [msg]})
    # nothing is answered to a stray CopyDone/CopyFail; whatever does come (a pool error after a fault) is read here so
    # that it is not taken for the reply to the next statement
    b.steps.append({"op": "recv", "c": cs.name, "until": "Z", "timeout_ms": 70, "label": tag})
    b.after_fwd(cs, cs.txn, False)
    cs.follow = max(cs.follow, 1)
    b.act(name)
    return True


kind("stray_copydone_idle", w=1)(lambda b: _stray(b, "stray_copydone_idle", {"t": "c"}, False))
kind("stray_copyfail_idle", w=1)(lambda b: _stray(b, "stray_copyfail_idle", {"t": "f", "msg": "x"}, False))
kind("stray_copydone_in_txn", w=1)(lambda b: _stray(b, "stray_copydone_in_txn", {"t": "c"}, True))
kind("stray_copyfail_in_txn", w=1)(lambda b: _stray(b, "stray_copyfail_in_txn", {"t": "f", "msg": "x"}, True))


# ---- extended protocol
def _newname(b, cs):
    if cs.ps:
        return b.r.choice(["s1", "s2"])
    b.preps += 1
    return "n%d" % b.preps


def _budget(b, cs, extra=1):
    """caching clients: one batch never names more distinct statements than the cache holds (known finding F11e)"""
    return not cs.ps or b.cfg["pool"]["prepared_statements_cache_size"] >= extra


def _ext(name, w=1.0, req=(), pred=lambda b, c: True):
    def deco(fn):
        def run(b):
            cs = _fwd(b, lambda c: not c.fragile and not (c.stale and c.ps) and pred(b, c))
            if not cs:
                return False
            tag = b.tag(cs)
            if fn(b, cs, tag) is False:
                cs.n -= 1
                return False
            b.act(name)
            return True
        kind(name, w, req)(run)
        return fn
    return deco


@_ext("ext_unnamed", w=3)
def _(b, cs, tag):
    t = "%s /*%s*/" % (b.r.choice(READS[:2]), tag)
    b.batch(cs, [P_("", t), B_(""), E_, SY], "ext_unnamed", parses=[("", t)], execs=[t], binds=[""], tag=tag)


@_ext("ext_write", w=1.5)
def _(b, cs, tag):
    t = "%s /*%s*/" % (b.r.choice(WRITES), tag)
    b.batch(cs, [P_("", t), B_(""), E_, SY], "ext_write", parses=[("", t)], execs=[t], binds=[""], is_write=True, tag=tag)


@_ext("ext_named", w=3)
def _(b, cs, tag):
    n = _newname(b, cs)
    t = "SELECT 3 /*%s*/" % tag
    b.batch(cs, [P_(n, t), B_(n), E_, SY], "ext_named", parses=[(n, t)], execs=[t], binds=[n], tag=tag)
    cs.named[n] = t


@_ext("ext_describe_S", w=1.5)
def _(b, cs, tag):
    usable = [n for n in cs.named if cs.ps or cs.holding]
    if usable and b.r.random() < 0.5:
        n = b.r.choice(usable)
        b.batch(cs, [{"t": "D", "kind": "S", "name": n}, SY], "ext_describe_S", descs=[cs.named[n]], tag=tag)
    else:
        n = _newname(b, cs)
        t = "SELECT 4 /*%s*/" % tag
        b.batch(cs, [P_(n, t), {"t": "D", "kind": "S", "name": n}, SY], "ext_describe_S", parses=[(n, t)], descs=[t], tag=tag)
        cs.named[n] = t


@_ext("ext_describe_P", w=1.5)
def _(b, cs, tag):
    t = "SELECT 5 /*%s*/" % tag
    b.batch(cs, [P_("", t), B_(""), {"t": "D", "kind": "P", "name": ""}, E_, SY], "ext_describe_P", parses=[("", t)], execs=[t], binds=[""], tag=tag)


@_ext("ext_close_S", w=2.5)
def _(b, cs, tag):
    usable = [n for n in cs.named if cs.ps or cs.holding]
    if usable:
        n = b.r.choice(usable)
        b.batch(cs, [{"t": "C", "kind": "S", "name": n}, SY], "ext_close_S", closes=[n], tag=tag)
        del cs.named[n]
    else:
        n = _newname(b, cs)
        t = "SELECT 6 /*%s*/" % tag
        b.batch(cs, [P_(n, t), B_(n), E_, {"t": "C", "kind": "S", "name": n}, SY], "ext_close_S", parses=[(n, t)], execs=[t], binds=[n], closes=[n], tag=tag)
        cs.named.pop(n, None)


@_ext("ext_close_P", w=1)
def _(b, cs, tag):
    t = "SELECT 7 /*%s*/" % tag
    b.batch(cs, [P_("", t), B_(""), E_, {"t": "C", "kind": "P", "name": ""}, SY], "ext_close_P", parses=[("", t)], execs=[t], binds=[""], tag=tag)


@_ext("ext_flush", w=1)
def _(b, cs, tag):
    t = "SELECT 8 /*%s*/" % tag
    b.batch(cs, [P_("", t), {"t": "H"}, B_(""), E_, SY], "ext_flush", parses=[("", t)], execs=[t], binds=[""], tag=tag)


@_ext("ext_lone_sync", w=2)
def _(b, cs, tag):
    b.batch(cs, [SY], "ext_lone_sync", tag=tag, local_reply=True)


@_ext("ext_two_parses", w=1.5, pred=lambda b, c: _budget(b, c, 2))
def _(b, cs, tag):
    if cs.ps:
        n1, n2 = "s1", "s2"
    else:
        n1, n2 = _newname(b, cs), _newname(b, cs)
    t1, t2 = "SELECT 11 /*%s*/" % tag, "SELECT 12 /*%s*/" % tag
    b.batch(cs, [P_(n1, t1), P_(n2, t2), B_(n1), E_, B_(n2), E_, SY], "ext_two_parses", parses=[(n1, t1), (n2, t2)], execs=[t1, t2], binds=[n1, n2], tag=tag)
    cs.named[n1], cs.named[n2] = t1, t2


@_ext("ext_bind_earlier", w=3, pred=lambda b, c: c.named and c.txn == "I" and (c.ps or c.session_hold))
def _(b, cs, tag):
    n = b.r.choice(sorted(cs.named))
    b.batch(cs, [B_(n), E_, SY], "ext_bind_earlier", execs=[cs.named[n]], binds=[n], tag=tag)


@_ext("ext_reparse_after_close", w=2, req=("cache",), pred=lambda b, c: c.ps and c.named)
def _(b, cs, tag):
    n = b.r.choice(sorted(cs.named))
    t = "SELECT 9 /*%s*/" % tag
    b.batch(cs, [{"t": "C", "kind": "S", "name": n}, P_(n, t), B_(n), E_, SY], "ext_reparse_after_close", parses=[(n, t)], execs=[t], binds=[n], closes=[n], tag=tag)
    cs.named[n] = t


@_ext("ext_null_param", w=1.5)
def _(b, cs, tag):
    t = "SELECT $1 /*%s*/" % tag
    b.batch(cs, [P_("", t), B_("", [b.r.choice([None, "abc", "12"])]), E_, SY], "ext_null_param", parses=[("", t)], execs=[t], binds=[""], tag=tag)


@_ext("ext_error", w=1)
def _(b, cs, tag):
    t = "SELECT 1 /*mock:error*/ /*%s*/" % tag
    b.batch(cs, [P_("", t), B_(""), E_, SY], "ext_error", parses=[("", t)], execs=[t], binds=[""], fails=True, tag=tag)


@_ext("auto_shard_bind", w=1.5, req=("autokey_eff", "multi_shard"), pred=lambda b, c: b.outer(c) and b.split_eff(c))
def _(b, cs, tag):
    k = b.r.randint(0, 10 ** 6)
    t = "SELECT * FROM data WHERE id = $1 /*%s*/" % tag
    op = b.batch(cs, [P_("", t), B_("", [str(k)]), E_, SY], "auto_shard_bind", parses=[("", t)], execs=[t], binds=[""], tag=tag)
    cs.shard_sel = pg_partition(k, b.nsh())
    cs.cur_shard = cs.shard_sel
    op["shard_expect"] = cs.shard_sel
    cs.follow = 3


# ---- custom commands (only where the pooler interprets them: client not holding a server)
def _cmd(name, w=1.0, req=(), pred=lambda b, c: True):
    def deco(fn):
        def run(b):
            cs = b.pick(lambda c: b.outer(c) and not c.removed and pred(b, c))
            if not cs:
                return False
            if fn(b, cs) is False:
                return False
            cs.follow = 3
            b.act(name)
            return True
        kind(name, w, req)(run)
        return fn
    return deco


@_cmd("set_shard_n", w=2)
def _(b, cs):
    n = b.r.randrange(b.nsh())
    b.local(cs, b.r.choice(["SET SHARD TO %d", "SET SHARD TO '%d'", "set shard to %d;"]) % n, "set_shard_n", ack="SET SHARD")
    cs.shard_sel = n


@_cmd("set_shard_any", w=1, req=("multi_shard",))
def _(b, cs):
    b.local(cs, "SET SHARD TO 'ANY'", "set_shard_any", ack="SET SHARD")
    b.sticky_n += 1
    cs.shard_sel = ["sticky", b.sticky_n]


@_cmd("set_shard_oor", w=2)
def _(b, cs):
    if b.nsh() == 1 and b.counts["set_shard_oor"] > 0 and b.r.random() < 0.6:
        return False
    b.local(cs, "SET SHARD TO %d" % (b.nsh() + b.r.randint(0, 3)), "set_shard_oor", expect="EZ", err="is not configured")


@_cmd("set_sharding_key", w=2)
def _(b, cs):
    k = b.r.randint(0, 10 ** 9)
    b.local(cs, "SET SHARDING KEY TO '%d'" % k, "set_sharding_key", ack="SET SHARDING KEY")
    cs.shard_sel = pg_partition(k, b.nsh())


def _first_read(name, textfn, w, req, extra_pred=lambda b, c: True):
    def run(b):
        cs = b.pick(lambda c: b.outer(c) and b.can_checkout(c) and extra_pred(b, c))
        if not cs:
            return False
        b.simple(cs, [("read", textfn(b))], name)
        cs.follow = 3
        b.act(name)
        return True
    kind(name, w, req)(run)


_first_read("shard_comment", lambda b: "SELECT 1 /* shard_id: %d */" % b.r.randrange(b.nsh()), 2, ("regex",))
_first_read("sharding_key_comment", lambda b: "SELECT 1 /* sharding_key: %d */" % b.r.randint(0, 10 ** 6), 2, ("regex",))
_first_read("auto_key_simple", lambda b: "SELECT * FROM data WHERE id = %d" % b.r.randint(0, 10 ** 6), 2, ("autokey_eff", "multi_shard"), lambda b, c: b.split_eff(c))


def _set_role(value):
    name = "set_server_role_" + value

    def fn(b, cs):
        if value == "replica" and not all(len(s) > 1 for s in b.cfg["shards"]):
            return False
        b.local(cs, "SET SERVER ROLE TO '%s'" % b.r.choice([value, value.upper()]), name, ack="SET SERVER ROLE")
        dr = b.cfg["pool"]["default_role"]
        if value in ("primary", "replica"):
            cs.role_sel, cs.parser_override, cs.used_set_role = value, False, True
        elif value == "any":
            cs.role_sel, cs.sticky_role, cs.parser_override, cs.used_set_role = None, None, False, True
        elif value == "auto":
            cs.role_sel, cs.sticky_role, cs.parser_override = None, None, True
        else:
            cs.role_sel, cs.sticky_role, cs.parser_override = None, (None if dr == "any" else dr), None
    _cmd(name, w=2.5 if value in ("primary", "replica") else 1.2, req=("replica",) if value == "replica" else ())(fn)


for _v in ("primary", "replica", "any", "auto", "default"):
    _set_role(_v)
def _set_pr(v):
    def fn(b, cs):
        if v == "off" and not all(len(s) > 1 for s in b.cfg["shards"]):
            return False       # reads would ask for a replica that some shard does not have
        b.local(cs, "SET PRIMARY READS TO '%s'" % v, "set_primary_reads_" + v, ack="SET PRIMARY READS")
    _cmd("set_primary_reads_" + v, w=0.8, req=("replica",) if v == "off" else ())(fn)


for _v in ("on", "off", "default"):
    _set_pr(_v)


@_cmd("show_shard", w=1)
def _(b, cs):
    b.local(cs, "SHOW SHARD", "show_shard", show=(str(cs.shard_sel) if isinstance(cs.shard_sel, int) else ("unset" if cs.shard_sel is None else None)))


@_cmd("show_server_role", w=0.8)
def _(b, cs):
    b.local(cs, "SHOW SERVER ROLE", "show_server_role", show=cs.role_sel)


@_cmd("show_primary_reads", w=0.8)
def _(b, cs):
    b.local(cs, "SHOW PRIMARY READS", "show_primary_reads")


# ---- plugins
def _plugin_simple(name, text, verdict, req):
    def run(b):
        def ok(c):
            if not b.free(c) or c.removed:
                return False
            mb, _ = b.plugins_block(c)
            if mb is True:
                return True
            if verdict == "intercept" and mb is False:
                return False
            if mb is None:
                return c.holding and c.txn != "E"
            return b.canfwd(c)
        cs = b.pick(ok)
        if not cs:
            return False
        mb, excl = b.plugins_block(cs)
        if mb is True:
            tag = "t%d_%d" % (cs.idx, cs.n)
            op = b.local(cs, "%s /*%s*/" % (text, tag), name, expect="EZ" if verdict == "deny" else "Z", must_block=True, verdict=verdict,
                         err="permission for table" if verdict == "deny" else None)
        else:
            op = b.simple(cs, [("secret", text)], name, extra={"must_block": False, "c19_excluded": excl, "verdict": verdict, "ambiguous": mb is None})
        cs.follow = max(cs.follow, 2)
        b.act(name)
        return True
    kind(name, 2.5, req)(run)


_plugin_simple("denied_simple", "SELECT 1 FROM secret", "deny", ("plugins",))
_plugin_simple("denied_simple_write", "INSERT INTO secret VALUES (1)", "deny", ("plugins",))
_plugin_simple("intercept_simple", INTERCEPT_SQL, "intercept", ("plugins_eff",))
_plugin_simple("secret_plugins_off", "SELECT 1 FROM secret", "deny", ("no_plugins",))


def _plugin_ext(name, text, verdict, after_allowed):
    def run(b):
        cs = b.pick(lambda c: b.free(c) and not c.removed and not c.fragile and c.txn != "E" and b.plugins_block(c)[0] is True and (c.holding or b.can_checkout(c)))
        if not cs:
            return False
        tag = b.tag(cs)
        bad = "%s /*%s*/" % (text, tag)
        msgs = []
        if after_allowed:
            msgs += [P_("", "SELECT 1 /*%s*/" % tag), B_(""), E_]
        msgs += [P_("", bad), B_(""), E_, SY]
        # answered at the Sync by the pooler; nothing of the batch reaches a server, no check-out happens
        op = b.newop(cs, tag, name, proto="XL", msgs=msgs, expect="EZ" if verdict == "deny" else "Z", must_block=True, verdict=verdict, syncs=1,
                     err="permission for table" if verdict == "deny" else None)
        b.mark(tag)
        b.steps.append({"op": "send", "c": cs.name, "msgs": msgs})
        b.steps.append({"op": "recv", "c": cs.name, "until": "Z", "timeout_ms": 4000, "label": tag})
        cs.follow = max(cs.follow, 2)
        b.act(name)
        return True
    kind(name, 2, ("plugins_eff",))(run)


_plugin_ext("denied_ext_first", "SELECT 1 FROM secret", "deny", False)
_plugin_ext("denied_ext_after_allowed", "SELECT 2 FROM secret", "deny", True)
_plugin_ext("intercept_ext_first", INTERCEPT_SQL, "intercept", False)
_plugin_ext("intercept_ext_after_allowed", INTERCEPT_SQL, "intercept", True)


# ---- cancel
def _cancel_step(b, kname, target, holds, wrong=False, splits=None, tag=None):
    k = "k%d" % (len(b.cancels) + 1)
    st = {"op": "cancel", "c": k, "timeout_ms": 400}
    if wrong:
        st.update({"pid_of": target.name, "key": 4242})
    else:
        st["of"] = target.name
    if splits:
        st["splits"] = splits
    b.mark(k)
    b.steps.append(st)
    b.steps.append({"op": "sleep", "ms": 40})
    b.count(kname)
    b.cancels.append({"k": k, "at_op": len(b.ops), "faulted": b.faulted, "of": target.name, "ci": target.idx, "wrong": wrong, "holds": holds, "kind": kname, "tag": tag, "split": bool(splits),
                      "session_hold": target.session_hold, "in_txn": target.txn != "I"})


def _cancel_gated(b, name, splits=None):
    cs = _fwd(b, lambda c: not c.fragile)
    if not cs:
        return False
    b.gates += 1
    g = "g%d" % b.gates
    op = b.simple(cs, [("read", "SELECT 1 /*mock: gate=%s*/" % g)], name, no_recv=True)
    b.steps.append({"op": "wait_event", "ev": "msg", "contains": op["tag"], "timeout_ms": 1500})
    _cancel_step(b, name, cs, True, splits=splits, tag=op["tag"])
    for be in backends_of(b.cfg):
        b.steps.append({"op": "backend", "b": be["name"], "open_gate": g})
    b.steps.append({"op": "recv", "c": cs.name, "until": "Z", "timeout_ms": 4000, "label": op["tag"]})
    b.act(name)
    return True


kind("cancel_own_gated", w=2)(lambda b: _cancel_gated(b, "cancel_own_gated"))
kind("cancel_split", w=1.5)(lambda b: _cancel_gated(b, "cancel_split", splits=[b.r.choice([4, 7, 12])]))


@kind("cancel_idle", w=3.5)
def k_cancel_idle(b):
    cs = b.pick(lambda c: c.alive and not c.blocked and not c.holding and c.n > 0) or b.pick(lambda c: c.alive and not c.blocked)
    if not cs:
        return False
    if not (cs.holding or cs.copy):
        # the client has read its last reply, pgcat may still be on its way to giving the server back (and to forgetting the
        # cancel key): wait until the pools report the believed number of borrowed connections, as quiesce() does
        inuse = sum(1 for c in b.alive() if (c.holding or c.copy) and not c.stale and not c.blocked)
        b.steps.append({"op": "wait_inuse", "n": inuse, "timeout_ms": 2000})
    _cancel_step(b, "cancel_idle", cs, cs.holding or cs.copy)
    b.act("cancel_idle")
    return True


@kind("cancel_wrong_key", w=1.5)
def k_cancel_wrong(b):
    cs = b.pick(lambda c: c.alive and not c.blocked)
    if not cs:
        return False
    _cancel_step(b, "cancel_wrong_key", cs, cs.holding or cs.copy, wrong=True, splits=[8] if b.r.random() < 0.3 else None)
    b.act("cancel_wrong_key")
    return True


# ---- disconnects
def _leave(b, name, how, state):
    def ok(c):
        if not c.alive or c.blocked:
            return False
        if state == "idle":
            return c.txn == "I" and not c.copy
        if state == "txn":
            return c.txn in ("T", "E") and not c.copy
        return c.copy
    if len(b.alive()) <= 1:
        return False
    cs = b.pick(ok)
    if not cs:
        return False
    b.newop(cs, "bye%d" % cs.idx, name, proto="D", expect="none", how=how)
    b.mark("bye%d" % cs.idx)
    if how == "terminate":
        b.steps.append({"op": "send", "c": cs.name, "msgs": [{"t": "X"}]})
    else:
        b.steps.append({"op": "close", "c": cs.name, "rst": how == "rst"})
    b.steps.append({"op": "sleep", "ms": 60})
    cs.alive, cs.holding, cs.copy = False, False, False
    b.act(name)
    return True


for _how in ("terminate", "close", "rst"):
    for _st, _w in (("idle", 1.0), ("txn", 1.2), ("copy", 1.5)):
        _n = "%s_%s" % (_how, {"idle": "idle", "txn": "in_txn", "copy": "mid_copy"}[_st])
        kind(_n, _w)(lambda b, n=_n, h=_how, s=_st: _leave(b, n, h, s))


@kind("connect", w=2)
def k_connect(b):
    if len(b.alive()) >= 4 or b.nclients >= 9:
        return False
    users = [u["username"] for u in b.cfg["users"] if b.can_connect(u["username"])]
    if not users:
        return False
    b.connect(b.r.choice(users))
    b.act("connect")
    return True


# ---- quiescent observation points
SHOWS = ["POOLS", "CLIENTS", "SERVERS", "LISTS", "STATS"]


def quiesce(b, label=None, shows=None, probes=True):
    """nothing is in flight: wait until the pools report exactly the believed number of borrowed connections, probe every
    client for stray frames / a closed socket, ask the admin console, take a snapshot"""
    label = label or "q%d" % len(b.quiesces)
    inuse = sum(1 for c in b.alive() if (c.holding or c.copy) and not c.stale and not c.blocked)
    b.steps.append({"op": "wait_inuse", "n": inuse, "timeout_ms": 2000})
    b.steps.append({"op": "wait_clients", "n": len(b.alive()), "timeout_ms": 1500, "label": label})
    b.mark("Q:" + label)
    if probes:
        for c in b.alive():
            if not c.blocked:
                b.steps.append({"op": "recv", "c": c.name, "until": "", "count": 0, "timeout_ms": 25, "label": "probe:%s:%s" % (label, c.name)})
    shows = shows if shows is not None else ["POOLS", "CLIENTS"] + [s for s in SHOWS[2:] if b.r.random() < 0.5]
    for s in shows:
        b.steps.append({"op": "send", "c": "adm", "msgs": [{"t": "Q", "sql": "SHOW " + s}]})
        b.steps.append({"op": "recv", "c": "adm", "until": "Z", "timeout_ms": 4000, "label": "show:%s:%s" % (label, s)})
        b.count("show_" + s.lower())
    b.steps.append({"op": "snapshot", "label": label})
    b.quiesces.append({"label": label, "at_op": len(b.ops), "epoch": b.epoch, "alive": [c.name for c in b.alive()], "users": {c.name: c.user for c in b.alive()},
                       "holders": [c.name for c in b.alive() if (c.holding or c.copy) and not c.blocked], "blocked": [c.name for c in b.alive() if c.blocked], "in_txn": [c.name for c in b.alive() if c.txn != "I" or c.copy],
                       "stale": [c.name for c in b.alive() if c.stale], "paused": sorted(b.paused), "faulted": b.faulted, "shows": shows,
                       "removed_users": sorted(b.removed_users), "inuse": inuse})
    return label


@kind("quiesce", w=2.5)
def k_quiesce(b):
    if any(c.blocked for c in b.alive()):
        return False
    quiesce(b)
    b.count("quiesce")
    b.act("quiesce")
    return True


for _s in SHOWS:
    KINDS["show_" + _s.lower()] = {"fn": k_quiesce, "w": 0.0, "req": frozenset()}


# ---- admin: pause / resume (with clients arriving, holders going on, optionally a reload in between)
def _plain_read(b, cs, kname, held=False):
    return b.simple(cs, [("read", "SELECT 1")], kname, held=held)


def _pause_window(b, scope, with_reload):
    if b.paused or any(c.blocked for c in b.alive()) or b.removed_users:
        return False
    users = [u["username"] for u in b.cfg["users"]]
    if scope == "pool_u2":
        scope, target = "pool", "u2"
        sql, rsql, paused_users = "PAUSE db,u2", "RESUME db,u2", ["u2"]
    elif scope == "pool":
        target = b.r.choice(users)
        sql, rsql, paused_users = "PAUSE db,%s" % target, "RESUME db,%s" % target, [target]
    else:
        sql, rsql, paused_users = "PAUSE", "RESUME", list(users)
    pid = len(b.pauses)
    pop = b.admin(sql, "pause_" + scope, ack="PAUSE")
    b.act("pause_" + scope)
    for u in paused_users:
        b.paused[u] = pid
    rec = {"id": pid, "at_op": len(b.ops), "scope": scope, "users": paused_users, "pause_tag": pop["tag"], "held": [], "reload": None}
    b.pauses.append(rec)
    # clients already inside a transaction / a session go on; idle ones are held at their next statement
    cands = [c for c in b.alive() if c.user in paused_users and b.free(c) and not c.removed]
    b.r.shuffle(cands)
    cands.sort(key=lambda c: not c.readded)      # sessions that survived a remove + re-add of their user first (F36)
    nheld = 0
    for c in cands:
        if c.holding and c.txn != "E":
            if b.r.random() < 0.7:
                _plain_read(b, c, "holder_goes_on")
                b.act("holder_goes_on")
        elif not c.holding and c.txn == "I" and nheld < 2 and b.holders(c.user) + nheld < user_cfg(b.cfg, c.user)["pool_size"]:
            if b.r.random() < 0.3:
                b.local(c, "SET SHARD TO 0", "set_shard_n", ack="SET SHARD")     # custom commands are answered while paused
                c.shard_sel = 0
                b.act("set_shard_n")
            op = b.simple(c, [b.r.choice([("read", "SELECT 1"), ("begin", "BEGIN"), ("write", "INSERT INTO t VALUES (4)")])], "held_by_pause", held=True,
                          extra={"pause": pid})
            rec["held"].append(op["tag"])
            nheld += 1
            b.act("held_by_pause")
    if b.r.random() < 0.6 and len(b.alive()) < 4 and b.nclients < 9:
        u = b.r.choice(paused_users)
        if b.holders(u) + sum(1 for c in b.alive() if c.user == u and c.blocked) < user_cfg(b.cfg, u)["pool_size"] and b.can_connect(u):
            c = b.connect(u, "arrive_while_paused")
            op = b.simple(c, [("read", "SELECT 1")], "arrive_while_paused", held=True, extra={"pause": pid})
            rec["held"].append(op["tag"])
            b.act("arrive_while_paused")
    for c in b.alive():
        if c.user not in paused_users and b.canfwd(c) and b.r.random() < 0.8:
            _plain_read(b, c, "other_pool_goes_on")
            b.act("other_pool_goes_on")
    if with_reload:
        how = b.r.choice([h for h in ("swap_roles", "pool_size", "pool_mode", "cache_size", "unchanged") if _reload_possible(b, h)])
        rec["reload"] = how
        _do_reload(b, how, "pause_reload_resume")
        # the pause outlives the reload: a statement that arrives now is held as well
        for c in b.alive():
            if (c.user in paused_users and b.free(c) and not c.holding and c.txn == "I" and not c.removed and not c.fragile
                    and b.holders(c.user) < user_cfg(b.cfg, c.user)["pool_size"]):
                op = b.simple(c, [("read", "SELECT 2")], "held_by_pause", held=True, extra={"pause": pid, "after_reload_in_pause": True})
                rec["held"].append(op["tag"])
                b.act("held_by_pause")
                break
    b.steps.append({"op": "sleep", "ms": 120})
    b.mark("resume:%d" % pid)
    rop = b.admin(rsql, "resume_" + scope, ack="RESUME")
    b.act("resume_" + scope)
    rec["resume_tag"] = rop["tag"]
    b.paused = {}
    for c in b.alive():
        if c.blocked:
            c.blocked = False
    for t in rec["held"]:
        op = next(o for o in b.ops if o["tag"] == t)
        b.steps.append({"op": "join", "task": op["task"], "timeout_ms": 8000})
    return True


kind("pause_global", w=2)(lambda b: _pause_window(b, "global", False))
kind("pause_pool", w=2)(lambda b: _pause_window(b, "pool", False))
kind("pause_reload_resume", w=2)(lambda b: _pause_window(b, b.r.choice(["global", "pool"]), True))
for _n in ("resume_global", "resume_pool", "held_by_pause", "arrive_while_paused", "holder_goes_on", "other_pool_goes_on"):
    KINDS[_n] = {"fn": lambda b: _pause_window(b, b.r.choice(["global", "pool"]), False), "w": 0.0, "req": frozenset(("two_users",) if _n == "other_pool_goes_on" else ())}


# ---- admin: reload
def _reload_possible(b, how):
    cfg = b.cfg
    if how == "swap_roles":
        return any(len(s) > 1 for s in cfg["shards"])
    if how == "remove_user":
        return len(cfg["users"]) > 1 and not b.removed_users and not any(c.user == "u2" and (c.holding or c.copy or c.blocked) for c in b.alive())
    if how == "readd_user":
        return bool(b.removed_users)
    return True


def _do_reload(b, how, kname):
    old = b.cfg
    new = copy.deepcopy(old)
    rec = {"how": how, "at_op": len(b.ops), "epoch_before": b.epoch, "changed": True, "valid": True}
    if how == "swap_roles":
        sh = b.r.choice([s for s in new["shards"] if len(s) > 1])
        k = b.r.randrange(1, len(sh))
        pi = next(i for i, x in enumerate(sh) if x[1] == "primary")
        ri = [i for i, x in enumerate(sh) if x[1] == "replica"][k - 1]
        sh[pi][1], sh[ri][1] = "replica", "primary"
    elif how == "pool_mode":
        new["pool"]["pool_mode"] = "session" if old["pool"]["pool_mode"] == "transaction" else "transaction"
    elif how == "pool_size":
        u = b.r.choice(new["users"])
        u["pool_size"] = b.r.choice([x for x in (1, 2, 3) if x != u["pool_size"] and x >= max(1, b.holders(u["username"]))] or [u["pool_size"] + 1])
    elif how == "cache_size":
        new["pool"]["prepared_statements_cache_size"] = b.r.choice([x for x in (0, 1, 8) if x != old["pool"]["prepared_statements_cache_size"]])
    elif how == "remove_user":
        rec["removed_user_cfg"] = new["users"].pop(1)
    elif how == "readd_user":
        new["users"].append(b.saved_user)
    elif how == "unchanged":
        rec["changed"] = False
    if how == "invalid":
        rec.update({"changed": False, "valid": False})
        bad = copy.deepcopy(old)
        which = b.r.choice(["pool_size0", "role", "two_primaries"])
        if which == "pool_size0":
            bad["users"][0]["pool_size"] = 0
        elif which == "role":
            bad["pool"]["default_role"] = "bogus"
        else:
            bad["shards"][0].append(["s0p", "primary"])
        lab = quiesce(b, "r%d_before" % len(b.reloads), shows=[], probes=False)
        b.steps.append({"op": "write_config", "toml": render_toml(bad)})
        b.nclients_adm = getattr(b, "nclients_adm", 1) + 1
        a2 = "adm%d" % b.nclients_adm
        b.steps.append({"op": "connect", "c": a2, "params": {"user": "admin", "database": "pgcat"}, "password": "adminpw"})
        op = b.admin("RELOAD", kname, c=a2, expect="closed_or_E")
        b.steps.append({"op": "write_config", "toml": render_toml(old)})
        b.steps.append({"op": "sleep", "ms": 40})
        rec.update({"tag": op["tag"], "before": lab, "after": quiesce(b, "r%d_after" % len(b.reloads), shows=[], probes=False), "which": which})
        b.reloads.append(rec)
        return rec
    if how == "unchanged":
        rec["before"] = quiesce(b, "r%d_before" % len(b.reloads), shows=[], probes=False)
    b.steps.append({"op": "write_config", "toml": render_toml(new)})
    op = b.admin("RELOAD", kname, ack="RELOAD")
    rec["tag"] = op["tag"]
    if how == "unchanged":
        rec["after"] = quiesce(b, "r%d_after" % len(b.reloads), shows=[], probes=False)
    else:
        b.epochs.append(new)
        b.distinct_texts = defaultdict(set)
        if how == "remove_user":
            b.saved_user = rec["removed_user_cfg"]
            b.removed_users.add("u2")
        if how == "readd_user":
            b.removed_users.discard("u2")
        for c in b.alive():
            if c.blocked:
                # held by PAUSE: its check-out happens after RESUME, on the pools of the new configuration
                c.mode = mode_of(new, c.user) or c.mode
                c.checkout_epoch = b.epoch
                c.held_op["role_epoch"] = b.epoch
                c.held_op["across_reload"] = True
                c.holding = (c.mode == "session") or c.txn != "I"
                c.session_hold = c.mode == "session"
            elif c.holding or c.copy:
                c.stale = True
            if how == "remove_user" and c.user == "u2":
                c.removed = True
            elif how == "readd_user" and c.user == "u2":
                c.removed = False
                c.readded = True
            if not c.removed and c.ps != cache_on(new, c.user):
                c.fragile = True
    rec["epoch_after"] = b.epoch
    b.reloads.append(rec)
    return rec


def _reload_kind(how, w, req=()):
    name = "reload_" + how

    def run(b):
        if b.paused or any(c.blocked for c in b.alive()) or not _reload_possible(b, how):
            return False
        _do_reload(b, how, name)
        b.act(name)
        if how == "readd_user" and any(c.readded and b.outer(c) for c in b.alive()) and b.r.random() < 0.7:
            # the first statement of a session that survived the removal and the re-adding of its user arrives while paused (F36)
            _pause_window(b, b.r.choice(["global", "pool_u2"]), False)
        for c in b.alive():
            c.follow = max(c.follow, 2)
        return True
    kind(name, w, req)(run)


_reload_kind("swap_roles", 2, ("replica",))
_reload_kind("pool_mode", 1.5)
_reload_kind("pool_size", 1.5)
_reload_kind("cache_size", 1.5)
_reload_kind("remove_user", 1.5, ("two_users",))
_reload_kind("readd_user", 3)
_reload_kind("unchanged", 1.5)
_reload_kind("invalid", 1.5)


@kind("stmt_after_user_removed", w=4)
def k_removed_stmt(b):
    cs = b.pick(lambda c: c.removed and b.free(c) and not c.holding and c.txn == "I")
    if not cs:
        return False
    tag = b.tag(cs)
    sql = "SELECT 1 /*%s*/" % tag
    b.newop(cs, tag, "stmt_after_user_removed", proto="R", sql=sql, expect="E_closed", err="No pool configured")
    b.mark(tag)
    b.steps.append({"op": "send", "c": cs.name, "msgs": [{"t": "Q", "sql": sql}]})
    b.steps.append({"op": "recv", "c": cs.name, "until": "Z", "timeout_ms": 3000, "label": tag})
    b.steps.append({"op": "sleep", "ms": 40})
    cs.alive = False
    b.act("stmt_after_user_removed")
    return True


# ---- admin: ban / unban of a replica
def _replicas(b):
    return [n for sh in b.cfg["shards"] for n, r in sh if r == "replica"]


@kind("ban_replica", w=1.5, req=("replica",))
def k_ban(b):
    reps = _replicas(b)
    if not reps:
        return False
    r = b.r.choice(reps)
    b.admin("BAN %s 2" % host_of(b.cfg, r), "ban_replica", ack="BAN", backend=r)
    b.act("ban_replica")
    return True


@kind("unban_replica", w=1.5, req=("replica",))
def k_unban(b):
    reps = _replicas(b)
    if not reps:
        return False
    r = b.r.choice(reps)
    b.admin("UNBAN %s" % host_of(b.cfg, r), "unban_replica", ack="UNBAN", backend=r)
    b.act("unban_replica")
    return True


# ---- backend faults between transactions (nobody holds a server)
def _fault(b, name, fn):
    if b.any_holder() or b.paused or any(c.blocked for c in b.alive()):
        return False
    if fn(b) is False:
        return False
    b.faulted = True
    b.count(name)
    b.faults.append({"kind": name, "at_op": len(b.ops)})
    for c in b.alive():
        c.follow = max(c.follow, 1)
    b.act(name)
    return True


def _f_reset(b):
    be = b.r.choice(backends_of(b.cfg))["name"]
    b.mark("fault%d" % len(b.faults))
    b.steps.append({"op": "backend", "b": be, "reset_sessions": True})
    b.steps.append({"op": "sleep", "ms": 70})


def _f_slow(b):
    be = b.r.choice(backends_of(b.cfg))["name"]
    b.mark("fault%d" % len(b.faults))
    b.steps.append({"op": "backend", "b": be, "slow_exact": {"sql": ";", "ms": 450, "count": 1}})


def _f_refuse(b):
    reps = [r for r in _replicas(b) if r not in b.refused_b]
    if not reps:
        return False
    r = b.r.choice(reps)
    b.refused_b.add(r)
    b.mark("fault%d" % len(b.faults))
    b.steps.append({"op": "backend", "b": r, "mode": "refuse"})
    b.steps.append({"op": "sleep", "ms": 50})


def _f_back(b):
    if not b.refused_b:
        return False
    r = b.r.choice(sorted(b.refused_b))
    b.refused_b.discard(r)
    b.mark("fault%d" % len(b.faults))
    b.steps.append({"op": "backend", "b": r, "mode": "normal"})


kind("fault_reset_sessions", w=0.5)(lambda b: _fault(b, "fault_reset_sessions", _f_reset))
kind("fault_slow_healthcheck", w=0.5, req=("hc0",))(lambda b: _fault(b, "fault_slow_healthcheck", _f_slow))
kind("fault_replica_refuse", w=0.5, req=("replica",))(lambda b: _fault(b, "fault_replica_refuse", _f_refuse))
kind("fault_replica_back", w=3, req=("replica",))(lambda b: _fault(b, "fault_replica_back", _f_back))


# ---- capacity: every server connection of a one-server pool is borrowed
def _capacity(b, name, served):
    if b.paused or b.faulted or any(c.blocked for c in b.alive()) or "single_server" not in feats(b.cfg):
        return False
    users = [u for u in b.cfg["users"] if mode_of(b.cfg, u["username"]) == "transaction" and u["username"] not in b.removed_users]
    if not users:
        return False
    u = b.r.choice(users)
    un, ps = u["username"], u["pool_size"]
    mine = [c for c in b.alive() if c.user == un]
    if any(c.copy or c.txn == "E" or c.session_hold or c.stale or c.removed for c in mine):
        return False
    idle = [c for c in mine if b.outer(c)]
    need = ps - b.holders(un) + 1
    while len(idle) < need:
        if b.nclients >= 9 or len(b.alive()) >= 6 or not b.can_connect(un):
            return False
        idle.append(b.connect(un))
    b.r.shuffle(idle)
    victim, fill = idle[0], idle[1:need]
    for c in fill:
        b.simple(c, [("begin", "BEGIN")], "begin")
    assert b.holders(un) == ps
    if served:
        op = b.simple(victim, [("read", "SELECT 1")], name, held=True, extra={"capacity_wait": True})
        b.steps.append({"op": "wait_waiting", "n": 1, "timeout_ms": 1000})
        b.steps.append({"op": "sleep", "ms": 80})
        rel = b.r.choice([c for c in b.alive() if c.user == un and c.holding])
        b.simple(rel, [("commit", "COMMIT")], "commit")
        b.steps.append({"op": "join", "task": op["task"], "timeout_ms": 8000})
        victim.blocked = False
    else:
        tag = b.tag(victim)
        sql = "SELECT 1 /*%s*/" % tag
        b.newop(victim, tag, name, proto="R", sql=sql, expect="EZ", err="could not get connection from the pool", capacity_refused=True)
        b.mark(tag)
        b.steps.append({"op": "send", "c": victim.name, "msgs": [{"t": "Q", "sql": sql}]})
        b.steps.append({"op": "recv", "c": victim.name, "until": "Z", "timeout_ms": 5000, "label": tag})
    for c in b.alive():
        if c.user == un and c.txn == "T" and b.r.random() < 0.8:
            b.simple(c, [("commit", b.r.choice(["COMMIT", "ROLLBACK"]))], "commit")
    b.act(name)
    return True


kind("capacity_refused", w=1.5, req=("single_server", "txn_pool"))(lambda b: _capacity(b, "capacity_refused", False))
kind("capacity_wait_served", w=1.5, req=("single_server", "txn_pool"))(lambda b: _capacity(b, "capacity_wait_served", True))


# ---------------------------------------------------------------------------- scheduling
def _plain_txn(b, cs):
    """one further ordinary transaction of this client (after a custom command, a plugin verdict, a reload, a fault)"""
    if cs.txn in ("T", "E"):
        b.simple(cs, [("commit", "COMMIT")], "commit")
        return
    k = b.r.random()
    if k < 0.35:
        b.simple(cs, [("read", b.r.choice(READS))], "q_read")
    elif k < 0.6:
        b.simple(cs, [("write", b.r.choice(WRITES))], "q_write")
    elif k < 0.8 and not cs.fragile:
        tag = b.tag(cs)
        t = "SELECT 1 /*%s*/" % tag
        b.batch(cs, [P_("", t), B_(""), E_, SY], "ext_unnamed", parses=[("", t)], execs=[t], binds=[""], tag=tag)
    else:
        b.simple(cs, [("begin", "BEGIN")], "begin")
        b.simple(cs, [b.r.choice([("read", "SELECT 1"), ("write", "INSERT INTO t VALUES (5)")])], "txn_stmt")
        b.simple(cs, [("commit", b.r.choice(["COMMIT", "COMMIT", "ROLLBACK"]))], "commit")


def prerequisite(k):
    if k in ("reload_readd_user", "stmt_after_user_removed"):
        return "reload_remove_user"
    if k == "fault_replica_back":
        return "fault_replica_refuse"
    if k in ("ext_bind_earlier", "ext_reparse_after_close"):
        return "ext_named"
    if k == "failed_txn_stmt":
        return "txn_fail_stmt"
    if k.endswith("_mid_copy") or k in ("copy_done", "copy_fail"):
        return "copy_in_start"
    if k.endswith("_in_txn") or k.endswith("_txn") or k in ("txn_stmt", "txn_fail_stmt", "commit", "rollback"):
        return "begin"
    return None


def _step(b):
    owe = [c for c in b.alive() if c.follow > 0 and b.free(c) and (b.canfwd(c) or c.txn == "E")]
    if owe and b.r.random() < 0.6:
        c = b.r.choice(owe)
        c.follow -= 1
        if c.used_set_role and b.cfg["plugins"] and b.plugins_block(c)[0] is True and b.r.random() < 0.4:
            tag = "t%d_%d" % (c.idx, c.n)
            deny = b.r.random() < 0.6
            b.local(c, "%s /*%s*/" % ("SELECT 1 FROM secret" if deny else INTERCEPT_SQL, tag), "denied_simple" if deny else "intercept_simple",
                    expect="EZ" if deny else "Z", must_block=True, verdict="deny" if deny else "intercept", err="permission for table" if deny else None, after_set_role=True)
        else:
            _plain_txn(b, c)
        b.act("follow")
        return
    f = feats(b.cfg)
    if b.forced and b.r.random() < 0.6:
        for k in b.r.sample(b.forced, len(b.forced)):
            if not KINDS[k]["req"] <= f:
                continue
            if KINDS[k]["fn"](b):
                b.forced = [x for x in b.forced if b.kinds[x] == 0]
                return
            pre = prerequisite(k)
            if pre and KINDS[pre]["req"] <= f and KINDS[pre]["fn"](b):
                return
    names = [k for k, v in KINDS.items() if v["w"] > 0 and v["req"] <= f]
    weights = [KINDS[k]["w"] / (1.0 + 0.15 * b.counts[k]) for k in names]
    for _ in range(10):
        k = b.r.choices(names, weights)[0]
        if KINDS[k]["fn"](b):
            return
    b.nact += 1      # nothing feasible: count the attempt so that the loop ends


def build(b):
    b.steps.append({"op": "connect", "c": "adm", "params": {"user": "admin", "database": "pgcat"}, "password": "adminpw"})
    for u in b.cfg["users"][:1] + [x for x in b.cfg["users"][1:]]:
        b.connect(u["username"])
    for _ in range(b.r.choice([0, 1, 1, 2])):
        if len(b.alive()) < 4:
            b.connect()
    target = b.r.randint(16, 30)
    while b.nact < target and len(b.ops) < 58:
        _step(b)
    # ---- epilogue: finish what is open, observe the idle state, let everybody leave, observe the empty state
    for c in b.alive():
        if c.copy and b.r.random() < 0.8:
            cs_copy = c
            tag = b.tag(c)
            op = b.newop(c, tag, "copy_done", proto="CP", expect="Z", txn_after=c.txn, copy_after=False, syncs=1)
            b.stamp(c, op)
            b.mark(tag)
            b.steps.append({"op": "send", "c": c.name, "msgs": [{"t": "d", "data": "1\n"}, {"t": "c"}]})
            b.steps.append({"op": "recv", "c": c.name, "until": "Z", "timeout_ms": 4000, "label": tag})
            b.after_fwd(c, c.txn, False)
        if not c.copy and c.txn in ("T", "E") and b.r.random() < 0.75:
            b.simple(c, [("commit", b.r.choice(["COMMIT", "ROLLBACK"]))], "commit")
    for c in b.alive():
        if c.follow > 0 and b.canfwd(c) and c.txn == "I":
            _plain_txn(b, c)
    quiesce(b, "end_idle", shows=list(SHOWS))
    b.count("quiesce")
    for c in b.alive():
        how = b.r.choice(["terminate", "terminate", "close", "rst"])
        st = "mid_copy" if c.copy else ("in_txn" if c.txn != "I" else "idle")
        b.newop(c, "bye%d" % c.idx, "%s_%s" % (how, st), proto="D", expect="none", how=how)
        b.mark("bye%d" % c.idx)
        if how == "terminate":
            b.steps.append({"op": "send", "c": c.name, "msgs": [{"t": "X"}]})
        else:
            b.steps.append({"op": "close", "c": c.name, "rst": how == "rst"})
        c.alive, c.holding, c.copy = False, False, False
    b.steps.append({"op": "sleep", "ms": 40})
    quiesce(b, "all_left", shows=list(SHOWS), probes=False)
    cfg0 = b.epochs[0]
    truth = {"epochs": b.epochs, "ops": b.ops, "quiesces": b.quiesces, "pauses": b.pauses, "reloads": b.reloads, "cancels": b.cancels, "faults": b.faults,
             "clients": {c.name: {"idx": c.idx, "user": c.user} for c in b.clients.values()}, "kinds": dict(b.kinds), "feats": sorted(feats(cfg0)),
             "c19_exclude_after_set_role": C19_EXCLUDE_AFTER_SET_ROLE}
    return {"backends": backends_of(cfg0), "toml": render_toml(cfg0), "steps": b.steps, "workers": 2, "log_out": True, "_truth": truth}


CONFLICTS = [({"single_server"}, {"replica", "multi_shard"}), ({"no_plugins"}, {"plugins", "plugins_eff"})]


def gen(rng, n):
    """n scenario dicts (wire.rs format), each carrying `_truth`; kinds that are still rare are forced first"""
    counts = Counter()
    scns = []
    for i in range(n):
        sub = random.Random(rng.getrandbits(64))
        order = sorted((k for k in KINDS), key=lambda k: (counts[k], sub.random()))
        forced, need = [], set()
        for k in order:
            if counts[k] > max(0, i // 12) or len(forced) >= 7:
                break
            req = set(KINDS[k]["req"])
            if prerequisite(k):
                req |= set(KINDS[prerequisite(k)]["req"])
            bad = any((req & a and need & bb) or (req & bb and need & a) for a, bb in CONFLICTS)
            if not bad:
                forced.append(k)
                need |= req
        cfg = sample_cfg(sub, need)
        b = Builder(sub, cfg, forced, counts)
        scn = build(b)
        scn["_truth"]["index"] = i
        scn["_truth"]["forced"] = forced
        scns.append(scn)
    return scns


def histogram(scns):
    kinds, cfgv = Counter(), Counter()
    for s in scns:
        t = s["_truth"]
        kinds.update(t["kinds"])
        c = t["epochs"][0]
        cfgv["shards=%d" % len(c["shards"])] += 1
        cfgv["replicas/shard=%s" % sorted({len(x) - 1 for x in c["shards"]})] += 1
        cfgv["users=%d" % len(c["users"])] += 1
        for k in ("pool_mode", "prepared_statements_cache_size", "query_parser_enabled", "query_parser_read_write_splitting", "primary_reads_enabled",
                  "default_role", "default_shard", "cleanup_server_connections"):
            cfgv["%s=%s" % (k, c["pool"][k])] += 1
        cfgv["user_pool_mode_override=%s" % any("pool_mode" in u for u in c["users"])] += 1
        cfgv["pool_sizes=%s" % sorted(u["pool_size"] for u in c["users"])] += 1
        cfgv["statement_timeout=%s" % sorted({u["statement_timeout"] for u in c["users"]})] += 1
        cfgv["regex=%s" % c["regex"]] += 1
        cfgv["automatic_sharding_key=%s" % c["autokey"]] += 1
        cfgv["plugins=%s" % c["plugins"]] += 1
        cfgv["healthcheck_delay=%s" % c["general"].get("healthcheck_delay", "default")] += 1
    missing = sorted(k for k in KINDS if kinds[k] == 0)
    return {"kinds": dict(sorted(kinds.items())), "config": dict(sorted(cfgv.items())), "missing_kinds": missing,
            "ops": sum(len(s["_truth"]["ops"]) for s in scns), "steps": sum(len(s["steps"]) for s in scns)}


# ============================================================================ trace digestion
def _frames_of_hex(h):
    b = bytes.fromhex(h or "")
    out, i = [], 0
    while i + 5 <= len(b):
        l = int.from_bytes(b[i + 1:i + 5], "big")
        out.append([chr(b[i]), l - 4])
        i += 1 + l
    return out


def slim(res):
    """drop the bulky raw bytes of a result: backend `out` events keep only [tag, body length] per frame"""
    for e in res.get("events", []):
        if e.get("ev") == "out":
            e["frames"] = _frames_of_hex(e.pop("hex", ""))
        elif e.get("ev") == "msg":
            d = e.get("detail") or {}
            d.pop("raw", None)
        elif e.get("ev") in ("sent", "recv"):
            e.pop("hex", None)
            e.pop("raw", None)
    res.pop("hook_log", None)
    return res


class Trace:
    def __init__(self, scn, res):
        self.scn, self.res, self.t = scn, res, scn["_truth"]
        self.ev = res.get("events", [])
        self.snaps = {s.get("label"): s for s in res.get("snapshots", [])}
        self.marks, self.recv, self.startup, self.conn_user = {}, {}, {}, {}
        self.msgs, self.outs, self.cancel_ev, self.cancel_sent, self.inuse_to, self.wait_clients = [], defaultdict(list), [], [], [], {}
        self.mark_seqs = []
        bnames = {b["name"] for b in scn["backends"]}
        self.bnames = bnames
        for e in self.ev:
            k, who = e.get("ev"), e.get("who")
            if k == "mark":
                self.marks[e.get("mark")] = e["seq"]
                self.mark_seqs.append(e["seq"])
            elif k == "recv":
                if e.get("label") is not None and e["label"] not in self.recv:
                    self.recv[e["label"]] = e
            elif k == "startup_done":
                self.startup[who] = e
            elif k == "open" and who in bnames:
                self.conn_user[(who, e["conn"])] = (e.get("params") or {}).get("user")
            elif k == "msg" and who in bnames:
                m = TAG_RE.search(str((e.get("detail") or {}).get("sql") or ""))
                e["_ci"] = int(m.group(1)) if m else None
                self.msgs.append(e)
            elif k == "out" and who in bnames:
                self.outs[(who, e["conn"])].append(e)
            elif k == "cancel" and who in bnames:
                self.cancel_ev.append(e)
            elif k == "cancel_sent":
                self.cancel_sent.append(e)
            elif k == "wait_inuse_timeout":
                self.inuse_to.append(e)
            elif k == "wait_clients":
                self.wait_clients[e.get("label")] = e
        self.ops = self.t["ops"]
        self.by_tag = {o["tag"]: o for o in self.ops}
        self._classify()

    # ---- per-op observations
    def window(self, op):
        lo = self.marks.get(op["tag"])
        if lo is None:
            return None
        r = self.recv.get(op["tag"])
        if r is not None:
            return lo, r["seq"]
        nxt = [s for s in self.mark_seqs if s > lo]
        return lo, (nxt[0] if nxt else 10 ** 12)

    def arrivals(self, op, tagged_only=True):
        w = self.window(op)
        if w is None:
            return []
        return [m for m in self.msgs if w[0] < m["seq"] < w[1] and m["_ci"] == op["ci"]]

    def window_msgs(self, op):
        w = self.window(op)
        if w is None:
            return []
        return [m for m in self.msgs if w[0] < m["seq"] < w[1]]

    def reply(self, op):
        r = self.recv.get(op["tag"])
        if r is None:
            return None
        fr = r.get("frames", [])
        errs = [f.get("fields", {}) for f in fr if f.get("t") == "E"]
        return {"outcome": r.get("outcome"), "frames": fr, "errs": errs, "z": [f.get("status") for f in fr if f.get("t") == "Z"],
                "last": fr[-1].get("t") if fr else None, "pooler_err": [x.get("M", "") for x in errs if x.get("C") == "58000"], "seq": r["seq"]}

    def _classify(self):
        """compare every op's reply with what the script expected; the first deviation of a client ends the evaluation of the
        belief-based monitors for that client, and of the population-based ones for the scenario (never guess)"""
        self.div = []                      # (op index, reason)
        self.client_taint = {}             # client name -> op index of its first deviation
        self.gtaint = None                 # op index of the first deviation of anybody
        for op in self.ops:
            why = self._deviation(op)
            if why:
                self.div.append((op["i"], op["kind"], op["tag"], why + (" [after a backend fault]" if op.get("faulted") else "") + (" [fragile]" if op.get("fragile") else "") + (" [stale]" if op.get("stale") else "")))
                self.client_taint.setdefault(op["c"], op["i"])
                if self.gtaint is None:
                    self.gtaint = op["i"]
        # a probe that found a closed socket or stray frames is a deviation as well
        for q in self.t["quiesces"]:
            for c in q["alive"]:
                r = self.recv.get("probe:%s:%s" % (q["label"], c))
                if r is not None and (r.get("outcome") != "timeout" or r.get("frames")):
                    self.div.append((q["at_op"], "probe", c, "probe %s frames=%s%s" % (r.get("outcome"), [f.get("t") for f in r.get("frames", [])], " [after a backend fault]" if q["faulted"] else "")))
                    self.client_taint[c] = min(self.client_taint.get(c, q["at_op"] - 1), q["at_op"] - 1)
                    if self.gtaint is None or q["at_op"] - 1 < self.gtaint:
                        self.gtaint = q["at_op"] - 1

    def _deviation(self, op):
        ex = op.get("expect")
        if ex == "auth":
            s = self.startup.get(op["c"])
            return None if s and s.get("auth_ok") else "not admitted"
        if ex == "none":
            return None
        rp = self.reply(op)
        if rp is None:
            return "no recv event"
        if ex == "silence":
            return None if rp["outcome"] == "timeout" and not rp["frames"] else "expected no reply, got %s %s" % (rp["outcome"], [f.get("t") for f in rp["frames"]])
        if ex == "closed_or_E":
            return None
        if ex == "E_closed":
            return None if any(op.get("err", "") in m for m in rp["pooler_err"]) else "expected pooler error %r, got %s" % (op.get("err"), rp["outcome"])
        if rp["outcome"] != "ok":
            return "recv %s" % rp["outcome"]
        if ex == "G":
            return None if rp["last"] == "G" else "expected CopyInResponse, got %s" % rp["last"]
        if rp["last"] != "Z":
            return "reply does not end with ReadyForQuery"
        if ex == "EZ":
            return None if any(op.get("err", "") in m for m in rp["pooler_err"]) else "expected pooler error %r, got %s" % (op.get("err"), [f.get("t") for f in rp["frames"]])
        if rp["pooler_err"] and not (op.get("ambiguous") and op.get("verdict")):
            return "pooler error: %s" % rp["pooler_err"][0][:120]
        if op.get("ack") and not any(f.get("t") == "C" and str(f.get("tag", "")).startswith(op["ack"]) for f in rp["frames"]):
            return "command not acknowledged"
        if op["proto"] in ("Q", "X", "CP") and "txn_after" in op and not op.get("local_reply"):
            if rp["z"] and rp["z"][-1] != op["txn_after"] and not (op.get("ambiguous") and op.get("verdict")):
                return "transaction status %s, script believed %s" % (rp["z"][-1], op["txn_after"])
        return None

    def ok_client(self, op):
        """the client of this op has not deviated before this op"""
        t = self.client_taint.get(op["c"])
        return t is None or op["i"] < t

    def ok_upto(self, op):
        """... or this op is its first deviation"""
        t = self.client_taint.get(op["c"])
        return t is None or op["i"] <= t

    def ok_global(self, at_op):
        """nobody has deviated before the observation point that follows op number at_op - 1"""
        return self.gtaint is None or self.gtaint >= at_op

    def cfg_at(self, epoch):
        return self.t["epochs"][epoch]


# ============================================================================ monitors (model-free; one group per property)
def _remap_for_session_monitors(tr):
    """a copy of the trace in the vocabulary of props/session_common.py: one backend `b0` (connection ids made unique by
    the backend name), client tags /*cN*/; tracked GUCs are taken out of `gucs_out` (the pooler itself sets them for the
    next client at check-out: they are C12's subject, not left-over state)"""
    tracked_l = {k.lower() for k in TRACKED} | {"intervalstyle"}
    sub = lambda s: TAG_RE.sub(lambda m: "/*c%s*//*n%s*/" % (m.group(1), m.group(2)), s) if isinstance(s, str) else s
    evs = []
    for e in tr.ev:
        who, k = e.get("who"), e.get("ev")
        if who in tr.bnames and k in ("open", "msg", "close"):
            n = dict(e, who="b0", conn="%s:%s" % (who, e.get("conn")))
            if k == "msg":
                d = dict(e.get("detail") or {})
                if "sql" in d:
                    d["sql"] = sub(d["sql"]) or ""
                n["detail"] = d
                st = dict(e.get("state") or {})
                st["gucs_out"] = [g for g in st.get("gucs_out", []) if g.lower() not in tracked_l]
                n["state"] = st
            evs.append(n)
        elif isinstance(who, str) and re.fullmatch(r"c\d+", who) and k in ("sent", "recv"):
            n = dict(e)
            if k == "sent":
                n["msgs"] = [dict(m, sql=sub(m["sql"])) if isinstance(m, dict) and "sql" in m else m for m in (e.get("msgs") or [])]
            else:
                fr = []
                for f in e.get("frames", []):
                    if f.get("t") == "D" and f.get("cols"):
                        f = dict(f, cols=[sub(c) for c in f["cols"]])
                    fr.append(f)
                n["frames"] = fr
            evs.append(n)
    return {"events": evs}


def _session_monitors(tr):
    if not hasattr(tr, "_sess"):
        r2 = _remap_for_session_monitors(tr)
        caching = any(e["pool"]["prepared_statements_cache_size"] > 0 for e in tr.t["epochs"])
        cc = tr.t["epochs"][0]["pool"]["cleanup_server_connections"]
        v01, v02 = S.monitors(r2, caching, cc)
        tr._sess = (v01, v02, S.own_reply_problems(r2))
    return tr._sess


def mon_C01(tr, st):
    v01, _, own = _session_monitors(tr)
    st["C01:conn_handoffs+replies"] += len(tr.msgs) + len(tr.recv)
    out = [dict(v, kind=next((k for k in ("foreign_statement_in_transaction_of", "received_result_of", "transaction_spread_over_connections") if k in v), "c01")) for v in v01]
    for v in own:
        # only for a client whose replies have matched the script so far (a reply that a fault made the script miss shifts
        # every later reply of that client by one)
        m = re.search(r"/\*c(\d+)\*//\*n(\d+)\*/", v.get("statement", ""))
        op = tr.by_tag.get("t%s_%s" % (m.group(1), m.group(2))) if m else None
        if op is not None and tr.ok_upto(op):
            out.append(dict(v, kind="row_of_another_statement" if "row_of_another_statement" in v else "reply_without_rows"))
    # stronger than the client check: rows of a tagged simple query carry that very statement's tag
    for op in tr.ops:
        if op.get("proto") != "Q" or not tr.ok_upto(op):
            continue
        rp = tr.reply(op)
        if not rp:
            continue
        st["C01:own_tag_rows"] += 1
        for f in rp["frames"]:
            if f.get("t") == "D" and f.get("cols") and len(f["cols"]) >= 3 and isinstance(f["cols"][2], str):
                m = TAG_RE.search(f["cols"][2])
                if m and "t%s_%s" % (m.group(1), m.group(2)) != op["tag"]:
                    out.append({"kind": "row_of_another_tag", "op": op["tag"], "row_sql": f["cols"][2]})
    # "for a whole transaction": a client that was told T and sends a statement that does not end the transaction must
    # not be told I; and the pooler's own ROLLBACK must not arrive inside the transaction of a client that is still there
    last_z = {}
    byes = {o["c"]: tr.marks.get(o["tag"]) for o in tr.ops if o.get("proto") == "D"}
    for op in tr.ops:
        rp = tr.reply(op) if op.get("expect") not in ("auth", "none") else None
        if op.get("proto") in ("Q", "X") and rp and rp["outcome"] == "ok" and rp["z"] and not op.get("faulted") and not op.get("local_reply"):
            sk = op.get("skinds") or []
            plain = op["proto"] == "X" or all(k in ("read", "write", "set", "prepare", "copyout") for k in sk)
            if last_z.get(op["c"]) == "T" and plain and not op.get("fails") and not rp["errs"] and tr.ok_upto(op):
                st["C01:transaction_kept"] += 1
                if rp["z"][-1] == "I":
                    out.append({"kind": "transaction_ended_without_the_client_ending_it", "op": op["tag"], "op_kind": op["kind"], "sql": op.get("sql"),
                                "backends": sorted({m["who"] for m in tr.arrivals(op)})})
        if rp and rp["z"] and op.get("proto") in ("Q", "X", "CP") and not rp["pooler_err"] and not op.get("local_reply"):
            last_z[op["c"]] = rp["z"][-1]
        elif op.get("proto") in ("Q", "X", "CP", "R", "D"):
            last_z.pop(op["c"], None)
    names = {v["idx"]: c for c, v in tr.t["clients"].items()}
    lastc = {}
    for m in tr.msgs:
        key = (m["who"], m["conn"])
        if m["_ci"] is not None:
            lastc[key] = m["_ci"]
        elif m["tag"] == "Q" and str(m["detail"].get("sql")).strip() == "ROLLBACK" and (m.get("state") or {}).get("txn") in ("T", "E") and key in lastc:
            c = names.get(lastc[key])
            st["C01:pooler_rollbacks"] += 1
            gone = byes.get(c)
            if c and c not in tr.client_taint and not tr.t["faults"] and (gone is None or gone > m["seq"]):
                out.append({"kind": "pooler_rolled_back_the_transaction_of_a_connected_client", "client": c, "backend": m["who"], "conn": m["conn"]})
    return out


def mon_C02(tr, st):
    _, v02, _ = _session_monitors(tr)
    st["C02:handoffs"] += len(tr.msgs)
    return [dict(v, kind="dirty:" + ",".join(sorted(x.split("=")[0] for x in v.get("dirty", []))) if "dirty" in v else "unread_reply") for v in v02]


def _backend_frames(tr, who, conn, lo, hi):
    fr = []
    for e in tr.outs.get((who, conn), []):
        if lo < e["seq"] < hi:
            fr.extend(e.get("frames", []))
    return fr


def mon_C03(tr, st):
    out = []
    for op in tr.ops:
        if op.get("proto") not in ("Q", "X") or not tr.ok_upto(op) or op.get("faulted"):
            continue
        rp = tr.reply(op)
        if rp and rp["outcome"] == "timeout" and tr.ok_upto(op) and not op.get("held") and op.get("expect") == "Z":
            arr = tr.arrivals(op)
            if arr:
                who, conn = arr[0]["who"], arr[0]["conn"]
                bf = _backend_frames(tr, who, conn, arr[0]["seq"], rp["seq"])
                st["C03:reply_completed"] += 1
                if sum(1 for t, _ in bf if t == "Z") >= op.get("syncs", 1):
                    out.append({"kind": "reply_not_relayed_to_its_end", "op": op["tag"], "sql": op.get("sql"), "backend_frames": bf[:30],
                                "client_frames": [[f.get("t"), f.get("len")] for f in rp["frames"]][:30]})
            continue
        if not rp or rp["outcome"] != "ok":
            continue
        arr = tr.arrivals(op)
        cf = [[f.get("t"), f.get("len")] for f in rp["frames"]]
        nz = sum(1 for t, _ in cf if t == "Z")
        if op["proto"] == "Q":
            qs = [m for m in arr if m["tag"] == "Q"]
            if op.get("expect") == "Z":
                st["C03:one_Z"] += 1
                if nz != 1 or cf[-1][0] != "Z":
                    out.append({"kind": "not_exactly_one_Z", "op": op["tag"], "client_frames": [t for t, _ in cf]})
            if len(qs) != 1 or rp["pooler_err"]:
                continue
            m = qs[0]
            nxt = [x["seq"] for x in tr.msgs if x["who"] == m["who"] and x["conn"] == m["conn"] and x["seq"] > m["seq"]]
            bf = _backend_frames(tr, m["who"], m["conn"], m["seq"], min(nxt + [rp["seq"]]))
            st["C03:simple_byte_shape"] += 1
            if bf != cf:
                out.append({"kind": "simple_reply_differs", "op": op["tag"], "sql": op["sql"], "backend_frames": bf[:40], "client_frames": cf[:40]})
        else:
            st["C03:Z_per_Sync"] += 1
            if nz != op["syncs"] and not rp["pooler_err"]:
                out.append({"kind": "Z_per_Sync", "op": op["tag"], "syncs": op["syncs"], "Z": nz, "client_frames": [t for t, _ in cf]})
            if not arr or rp["pooler_err"]:
                continue
            conns = {(m["who"], m["conn"]) for m in arr}
            if len(conns) != 1:
                continue
            who, conn = next(iter(conns))
            first = min(m["seq"] for m in arr)
            nxt = [x["seq"] for x in tr.msgs if x["who"] == who and x["conn"] == conn and x["seq"] > first and (x["tag"] == "Q" or x["_ci"] not in (None, op["ci"]))]
            bf = _backend_frames(tr, who, conn, first, min(nxt + [rp["seq"]]))
            st["C03:ext_rows"] += 1
            if [l for t, l in bf if t == "D"] != [l for t, l in cf if t == "D"]:
                out.append({"kind": "ext_rows_differ", "op": op["tag"], "backend_frames": bf[:40], "client_frames": cf[:40]})
    return out


def _pool_size(cfg, user):
    u = user_cfg(cfg, user)
    return u["pool_size"] if u else None


def _never_served(tr, op):
    """a forwarded statement of a client whose replies matched the script so far got no reply within the (generous) timeout and
    never reached a server, although no pause was in force, no fault had been injected and a server connection was free"""
    if op.get("proto") not in ("Q", "X") or op.get("held") or op.get("faulted") or op.get("removed") or op.get("anypaused") or op.get("paused"):
        return False
    if op.get("pool_size") is None or op["holders_before"] >= op["pool_size"] or not tr.ok_upto(op):
        return False
    rp = tr.reply(op)
    return bool(rp) and rp["outcome"] == "timeout" and not rp["frames"] and not tr.arrivals(op)


def mon_C04(tr, st):
    out = []
    qmarks = sorted((tr.marks.get("Q:" + q["label"], 10 ** 12), q) for q in tr.t["quiesces"])
    prev = -1
    for mseq, q in qmarks:
        ok = tr.ok_global(q["at_op"])
        snap = tr.snaps.get(q["label"])
        cfg = tr.cfg_at(q["epoch"])
        late = [e for e in tr.inuse_to if prev < e["seq"] < mseq]
        prev = mseq
        if not ok or snap is None:
            continue
        st["C04:inuse_settles"] += 1
        if late:
            out.append({"kind": "in_use_differs_at_quiescence" if q["label"] != "all_left" else "in_use_after_all_left", "at": q["label"],
                        "pools_report_in_use": late[0]["got"], "clients_holding": late[0]["want"], "holders": q["holders"]})
        for p in snap.get("pools", []):
            user = p["pool"].split("@")[0]
            ps = _pool_size(cfg, user)
            if ps is None:
                continue
            for sv in p["servers"]:
                st["C04:pool_size_bound"] += 1
                if sv["connections"] > ps:
                    out.append({"kind": "more_connections_than_pool_size", "at": q["label"], "pool": p["pool"], "server": [sv["shard"], sv["index"]],
                                "connections": sv["connections"], "pool_size": ps})
        if q["epoch"] == 0 and not q["faulted"] and not any(r["at_op"] <= q["at_op"] and r["how"] != "invalid" and r["how"] != "unchanged" for r in tr.t["reloads"]):
            for b, info in (snap.get("backends") or {}).items():
                per = Counter(tr.conn_user.get((b, o["conn"])) for o in info.get("open", []))
                for user, n in per.items():
                    ps = _pool_size(cfg, user)
                    st["C04:backend_sessions_bound"] += 1
                    if ps is not None and n > ps:
                        out.append({"kind": "more_backend_sessions_than_pool_size", "at": q["label"], "backend": b, "user": user, "sessions": n, "pool_size": ps})
        if q["label"] == "all_left":
            for b, info in (snap.get("backends") or {}).items():
                for o in info.get("open", []):
                    s_ = (o.get("s") or {}).get("state") or {}
                    st["C04:end_sessions_idle"] += 1
                    if s_.get("txn") not in (None, "I") or s_.get("copy"):
                        out.append({"kind": "backend_session_left_in_transaction", "backend": b, "conn": o["conn"], "state": {k: s_.get(k) for k in ("txn", "copy")}})
    for op in tr.ops:
        if _never_served(tr, op) and not any(p["at_op"] <= op["i"] for p in tr.t["pauses"]):
            out.append({"kind": "statement_never_served_although_capacity_was_free", "op": op["tag"], "op_kind": op["kind"], "holders": op["holders_before"], "pool_size": op["pool_size"]})
    for op in tr.ops:
        if op.get("proto") not in ("Q", "X", "R") or op.get("capacity_refused"):
            continue
        rp = tr.reply(op)
        if not rp or not any("could not get connection from the pool" in m and "InvalidShardId" not in m for m in rp["pooler_err"]):
            continue
        if not tr.ok_global(op["i"]) or op.get("faulted") or op.get("anypaused") or op.get("stale") or op.get("removed") or op.get("held"):
            continue
        if tr.t["faults"] or any(o["kind"] in ("ban_replica",) and o["i"] < op["i"] for o in tr.ops):
            continue
        st["C04:refusals_examined"] += 1
        if op.get("pool_size") is not None and op["holders_before"] < op["pool_size"] and op.get("role_expect") != "replica":
            out.append({"kind": "refused_although_capacity_was_free", "op": op["tag"], "sql": op.get("sql"), "holders": op["holders_before"], "pool_size": op["pool_size"],
                        "error": rp["pooler_err"][0]})
    return out


def _roles_swapped_before(tr, epoch):
    return any(r["how"] == "swap_roles" and r.get("epoch_after", 0) <= epoch for r in tr.t["reloads"])


def _role_problems(tr, st, after_swap, label):
    out = []
    for op in tr.ops:
        if op.get("proto") not in ("Q", "X", "CP", "S") or op.get("stale") or not tr.ok_client(op):
            continue
        want = op.get("role_expect")
        if want not in ("primary", "replica"):
            continue
        ep = op.get("role_epoch", op["epoch"])
        if _roles_swapped_before(tr, ep) != after_swap:
            continue
        cfg = tr.cfg_at(ep)
        for m in tr.arrivals(op):
            st[label] += 1
            got = role_of(cfg, m["who"])
            if got != want:
                out.append({"kind": ("write_on_replica" if op.get("write_split") else "explicit_role_not_honoured") + ("_after_reload" if after_swap else ""),
                            "op": op["tag"], "op_kind": op["kind"], "sql": m["detail"].get("sql"), "backend": m["who"], "backend_role": got, "expected_role": want,
                            "write_split": bool(op.get("write_split")), "epoch": ep})
                break
    return out


def mon_C05(tr, st):
    return _role_problems(tr, st, False, "C05:arrivals_role_checked")


def mon_C06(tr, st):
    out = []
    sticky = {}
    for op in tr.ops:
        if not tr.ok_upto(op):
            continue
        if op["kind"] == "set_shard_oor":
            rp = tr.reply(op)
            st["C06:out_of_range_refused"] += 1
            if rp and rp["outcome"] == "ok" and not rp["errs"]:
                out.append({"kind": "out_of_range_shard_accepted", "op": op["tag"], "sql": op["sql"]})
            continue
        if op["kind"] == "show_shard" and op.get("show") is not None:
            rp = tr.reply(op)
            rows = [f["cols"][0] for f in (rp["frames"] if rp else []) if f.get("t") == "D" and f.get("cols")]
            st["C06:show_shard"] += 1
            nsh = len(tr.cfg_at(op["epoch"])["shards"])
            if rows and rows[0] != op["show"] and not (op["show"] == "unset" and nsh == 1):
                out.append({"kind": "show_shard_differs", "op": op["tag"], "shown": rows[0], "selected": op["show"]})
            continue
        if op.get("proto") not in ("Q", "X", "CP", "S") or op.get("stale"):
            continue
        rp = tr.reply(op) if op.get("expect") not in ("silence", "none") else None
        if rp:
            st["C06:valid_shard_accepted"] += 1
            if any("InvalidShardId" in m for m in rp["pooler_err"]):
                # the script only ever selects configured shards: a refused out-of-range SET SHARD must leave the selection alone
                out.append({"kind": "statement_refused_for_an_invalid_shard_nobody_selected", "op": op["tag"], "op_kind": op["kind"], "error": rp["pooler_err"][0],
                            "selected": op.get("shard_expect")})
                continue
        want = op.get("shard_expect")
        if want is None or not tr.ok_client(op):
            continue
        for m in tr.arrivals(op):
            got = shard_of(m["who"])
            st["C06:arrivals_shard_checked"] += 1
            if isinstance(want, int):
                if got != want:
                    out.append({"kind": "statement_on_wrong_shard", "op": op["tag"], "op_kind": op["kind"], "sql": m["detail"].get("sql"), "backend": m["who"], "expected_shard": want})
                    break
            else:
                key = (op["c"], want[1])
                if sticky.setdefault(key, got) != got:
                    out.append({"kind": "shard_changed_without_command", "op": op["tag"], "backend": m["who"], "first_shard": sticky[key]})
                    break
    return out


def mon_C08(tr, st):
    out = []
    for op in tr.ops:
        if op.get("proto") != "X" or not op.get("ps") or op.get("fragile") or op.get("stale") or not tr.ok_upto(op) or op.get("faulted"):
            continue
        rp = tr.reply(op)
        if not rp:
            continue
        bad_codes = [e.get("C") for e in rp["errs"] if e.get("C") in ("26000", "42P05")] + ["58000:" + m[:60] for m in rp["pooler_err"] if "does not exist" in m]
        st["C08:batches"] += 1
        if bad_codes and not op.get("cache_overflow") and not op.get("fails"):
            out.append({"kind": "statement_error_for_wellformed_program", "op": op["tag"], "op_kind": op["kind"], "codes": bad_codes, "msgs": op["msgs"]})
            continue
        if rp["outcome"] != "ok" or rp["errs"]:
            continue
        ms = [m for m in tr.window_msgs(op) if tr.conn_user.get((m["who"], m["conn"])) == op["user"]]
        execs = [m["detail"].get("sql") for m in ms if m["tag"] == "E"]
        if op["execs"]:
            st["C08:executes"] += len(op["execs"])
            if execs != op["execs"]:
                out.append({"kind": "executed_text_differs", "op": op["tag"], "op_kind": op["kind"], "executed": execs, "prepared_by_client": op["execs"]})
        descs = []
        for m in ms:
            if m["tag"] == "D" and m["detail"].get("kind") == "S":
                stm = {x[0]: x[1] for x in (m.get("state") or {}).get("stmts", [])}
                descs.append(stm.get(m["detail"].get("name")))
        if op["descs"]:
            st["C08:describes"] += len(op["descs"])
            if descs != op["descs"]:
                out.append({"kind": "described_text_differs", "op": op["tag"], "described": descs, "prepared_by_client": op["descs"]})
        for f in rp["frames"]:
            if f.get("t") == "D" and f.get("cols") and len(f["cols"]) >= 3 and isinstance(f["cols"][2], str) and f["cols"][2] not in op["execs"]:
                out.append({"kind": "row_of_another_statement", "op": op["tag"], "row_sql": f["cols"][2], "prepared_by_client": op["execs"]})
                break
    return out


def mon_C10(tr, st):
    out = []
    recs = {c["k"]: c for c in tr.t["cancels"]}
    sent = sorted(({"who": k, "seq": tr.marks[k]} for k in recs if k in tr.marks), key=lambda e: e["seq"])
    seen = Counter()
    for ce in tr.cancel_ev:
        prior = [s for s in sent if s["seq"] < ce["seq"]]
        rec = recs.get(prior[-1]["who"]) if prior else None
        st["C10:backend_cancels"] += 1
        if rec is None:
            out.append({"kind": "cancel_without_request", "backend": ce["who"], "pid": ce["pid"]})
            continue
        seen[rec["k"]] += 1
        t = tr.client_taint.get(rec["of"])
        if t is not None and rec["at_op"] > t:
            continue
        conn = ce["pid"] - 1000
        busy = {b[0]: b[1] for b in ce.get("busy", [])}
        base = {"request": rec["k"], "request_kind": rec["kind"], "requester": rec["of"], "backend": ce["who"], "target_conn": conn, "target_busy_with": busy.get(conn)}
        if rec["wrong"]:
            out.append(dict(base, kind="cancel_with_wrong_key_reached_a_server"))
        elif not rec["holds"]:
            out.append(dict(base, kind="cancel_for_client_without_server_reached_a_server"))
        elif rec.get("tag"):
            if "/*%s*/" % rec["tag"] not in str(busy.get(conn) or ""):
                out.append(dict(base, kind="cancel_hit_a_session_not_running_the_requesters_statement"))
        else:
            last = [m for m in tr.msgs if m["seq"] < ce["seq"] and m["_ci"] == rec["ci"]]
            if last and (last[-1]["who"], last[-1]["conn"]) != (ce["who"], conn):
                out.append(dict(base, kind="cancel_hit_another_session", requesters_session=[last[-1]["who"], last[-1]["conn"]]))
    for rec in tr.t["cancels"]:
        t = tr.client_taint.get(rec["of"])
        if rec.get("tag") and not rec["faulted"] and (t is None or rec["at_op"] <= t) and tr.marks.get(rec["k"]) is not None:
            op = tr.by_tag.get(rec["tag"])
            st["C10:own_cancels"] += 1
            if op and tr.arrivals(op) and seen[rec["k"]] == 0:
                out.append({"kind": "own_cancel_never_reached_the_server", "request": rec["k"], "requester": rec["of"], "statement": rec["tag"]})
    return out


def mon_C12(tr, st):
    out = []
    est, told_bad = {}, []
    cl = {c: v for c, v in tr.t["clients"].items()}
    for op in tr.ops:
        if op.get("proto") == "C":
            s = tr.startup.get(op["c"])
            if not s or not s.get("auth_ok"):
                continue
            e0 = {f["k"]: f["v"] for f in s.get("frames", []) if f.get("t") == "S" and f.get("k") in TRACKED}
            est[cl[op["c"]]["idx"]] = e0
            for k, v in op["params"].items():
                if k in TRACKED:
                    st["C12:told_at_startup"] += 1
                    if e0.get(k) != v:
                        out.append({"kind": "told_at_startup_differs", "client": op["c"], "param": k, "sent": v, "told": e0.get(k)})
    idx2name = {v["idx"]: c for c, v in cl.items()}
    dead = {}
    for c, t in tr.client_taint.items():
        dead[c] = tr.marks.get(tr.ops[t]["tag"], None) if t < len(tr.ops) else None
    for e in tr.ev:
        k, who = e.get("ev"), e.get("who")
        if k == "recv" and who in cl:
            ci = cl[who]["idx"]
            for f in e.get("frames", []):
                if f.get("t") == "S" and f.get("k") in TRACKED and ci in est:
                    est[ci][f["k"]] = f["v"]
        elif k == "msg" and e.get("_ci") in est and e["tag"] in ("Q", "P"):
            name = idx2name.get(e["_ci"])
            if name in dead and (dead[name] is None or e["seq"] > dead[name]):
                continue
            st["C12:arrivals"] += 1
            tk = e.get("tracked") or {}
            diff = {p: [tk.get(p), est[e["_ci"]].get(p)] for p in TRACKED if p in est[e["_ci"]] and tk.get(p) != est[e["_ci"]].get(p)}
            if diff:
                out.append({"kind": "session_parameter_differs:" + ",".join(sorted(diff)), "client": name, "backend": e["who"], "conn": e["conn"], "sql": e["detail"].get("sql"),
                            "server_has_vs_client_established": diff})
    return out


def _pool_shape(snap):
    return sorted((p["pool"], sorted((s["shard"], s["index"], s["host"], s["port"], s["role"]) for s in p["servers"])) for p in snap.get("pools", []))


def mon_C14(tr, st):
    out = _role_problems(tr, st, True, "C14:arrivals_role_checked_after_swap")
    for op in tr.ops:
        if op.get("removed") and op.get("first") and op.get("proto") in ("Q", "X", "R") and tr.ok_upto(op):
            st["C14:removed_user_statements"] += 1
            arr = tr.arrivals(op)
            if arr:
                out.append({"kind": "client_of_removed_user_reached_a_server", "op": op["tag"], "user": op["user"], "backend": arr[0]["who"],
                            "session_user": tr.conn_user.get((arr[0]["who"], arr[0]["conn"]))})
    for r in tr.t["reloads"]:
        if not tr.ok_global(r["at_op"]):
            continue
        op = tr.by_tag.get(r.get("tag"))
        rp = tr.reply(op) if op else None
        if r["how"] == "invalid":
            st["C14:invalid_reload"] += 1
            if rp and any(f.get("t") == "C" and f.get("tag") == "RELOAD" for f in rp["frames"]):
                out.append({"kind": "invalid_file_acknowledged", "which": r["which"]})
        if r["how"] in ("invalid", "unchanged"):
            a, z = tr.snaps.get(r["before"]), tr.snaps.get(r["after"])
            if a and z:
                st["C14:nothing_changes"] += 1
                if _pool_shape(a) != _pool_shape(z):
                    out.append({"kind": "%s_reload_changed_the_pools" % r["how"], "before": _pool_shape(a), "after": _pool_shape(z)})
                oa = {b: sorted(o["conn"] for o in i.get("open", [])) for b, i in (a.get("backends") or {}).items()}
                oz = {b: sorted(o["conn"] for o in i.get("open", [])) for b, i in (z.get("backends") or {}).items()}
                lost = {b: [c for c in oa[b] if c not in oz.get(b, [])] for b in oa}
                # (connections of pools that an EARLIER reload replaced close whenever their last user lets go: only judged
                # while the pools of the first configuration are still the registered ones)
                if any(lost.values()) and not any(f["at_op"] <= r["at_op"] for f in tr.t["faults"]) and r["epoch_before"] == 0:
                    out.append({"kind": "%s_reload_closed_server_connections" % r["how"], "closed": {b: v for b, v in lost.items() if v}})
    # the new pool_mode is in effect for clients that did not hold a server at the reload: population check at quiescent points
    modes = [r for r in tr.t["reloads"] if r["how"] == "pool_mode"]
    if modes:
        qmarks = sorted((tr.marks.get("Q:" + q["label"], 10 ** 12), q) for q in tr.t["quiesces"])
        prev = -1
        for mseq, q in qmarks:
            late = [e for e in tr.inuse_to if prev < e["seq"] < mseq]
            prev = mseq
            if late and tr.ok_global(q["at_op"]) and any(r["at_op"] <= q["at_op"] for r in modes):
                st["C14:pool_mode_population"] += 1
                out.append({"kind": "borrowed_connections_differ_after_pool_mode_reload", "at": q["label"], "pools_report_in_use": late[0]["got"], "clients_holding": late[0]["want"]})
    return out


def mon_C16(tr, st):
    out = []
    for p in tr.t["pauses"]:
        rs = tr.marks.get("resume:%d" % p["id"])
        pa = tr.reply(tr.by_tag[p["pause_tag"]])
        if rs is None or not pa or pa["outcome"] != "ok" or not tr.ok_global(p["at_op"]):
            continue
        for t in p["held"]:
            op = tr.by_tag[t]
            if not tr.ok_upto(op):
                continue
            if op.get("readded") and C16_EXCLUDE_READDED_USER:
                st["C16:excluded_client_of_a_readded_user"] += 1
                continue
            arr = tr.arrivals(op)
            st["C16:held_statements"] += 1
            if arr and arr[0]["seq"] < rs:
                out.append({"kind": "statement_reached_a_server_while_paused" + ("_session_mode" if op["mode"] == "session" else ""), "op": op["tag"], "sql": op["sql"],
                            "pause": p["scope"], "backend": arr[0]["who"], "reload_in_between": p.get("reload")})
                continue
            rp = tr.reply(op)
            if op.get("faulted"):
                continue
            if rp and rp["outcome"] == "ok" and rp["last"] == "Z" and not arr and \
                    any("could not get connection from the pool" in m for m in rp["pooler_err"]):
                # the client DID proceed past the gate after RESUME and was then refused at checkout (e.g. another held
                # client of the same user took the only connection of a pool that a RELOAD in between had shrunk):
                # that is capacity (C04's subject), not a client left blocked by the pause
                st["C16:released_then_refused_at_checkout"] += 1
                continue
            if not rp or rp["outcome"] != "ok" or rp["last"] != "Z" or not arr:
                out.append({"kind": "held_statement_not_served_after_resume", "op": op["tag"], "sql": op["sql"], "pause": p["scope"], "reload_in_between": p.get("reload"),
                            "outcome": rp and rp["outcome"], "reached_a_server": bool(arr)})
    for op in tr.ops:
        if _never_served(tr, op) and any(p["at_op"] <= op["i"] for p in tr.t["pauses"]):
            st["C16:blocked_after_resume"] += 1
            out.append({"kind": "statement_blocked_although_every_pause_was_resumed", "op": op["tag"], "op_kind": op["kind"], "client": op["c"],
                        "reloads": [r["how"] for r in tr.t["reloads"] if r["at_op"] <= op["i"]]})
    for op in tr.ops:
        if op["kind"] in ("holder_goes_on", "other_pool_goes_on") and tr.ok_upto(op) and not op.get("faulted") and not op.get("stale"):
            rp = tr.reply(op)
            st["C16:not_held"] += 1
            if not rp or rp["outcome"] != "ok" or not tr.arrivals(op):
                out.append({"kind": op["kind"].replace("goes_on", "was_held"), "op": op["tag"], "outcome": rp and rp["outcome"]})
    return out


def _rows(tr, label):
    r = tr.recv.get(label)
    if not r or r.get("outcome") != "ok":
        return None
    names, rows = [], []
    for f in r["frames"]:
        if f.get("t") == "T":
            names = f.get("names", [])
        elif f.get("t") == "D":
            rows.append(dict(zip(names, f.get("cols", []))))
    return rows


def mon_C18(tr, st):
    out = []
    last_stats, last_epoch = {}, None
    for q in tr.t["quiesces"]:
        if not q["shows"] or not tr.ok_global(q["at_op"]):
            continue
        wc = tr.wait_clients.get(q["label"])
        alive_by_user = Counter(q["users"][c] for c in q["alive"])
        pools = _rows(tr, "show:%s:POOLS" % q["label"])
        if pools is not None:
            for r in pools:
                if r.get("database") != "db":
                    continue
                st["C18:pool_rows"] += 1
                tot = int(r["cl_idle"]) + int(r["cl_active"]) + int(r["cl_waiting"])
                if tot != alive_by_user.get(r["user"], 0):
                    out.append({"kind": "client_sum_differs" if q["alive"] else "clients_listed_after_all_left", "at": q["label"], "user": r["user"],
                                "cl_idle+cl_active+cl_waiting": tot, "connected_clients": alive_by_user.get(r["user"], 0)})
                if not q["holders"] and not q["stale"] and not q["in_txn"] and (int(r["cl_active"]) or int(r["sv_active"]) or int(r["cl_waiting"])):
                    out.append({"kind": "active_although_nobody_is_in_a_transaction", "at": q["label"], "user": r["user"],
                                "cl_active": r["cl_active"], "sv_active": r["sv_active"], "cl_waiting": r["cl_waiting"]})
        cl = _rows(tr, "show:%s:CLIENTS" % q["label"])
        if cl is not None:
            n = sum(1 for r in cl if r.get("database") == "db")
            st["C18:client_rows"] += 1
            if n != len(q["alive"]):
                out.append({"kind": "show_clients_rows_differ", "at": q["label"], "rows": n, "connected_clients": len(q["alive"])})
        sv = _rows(tr, "show:%s:SERVERS" % q["label"])
        if sv is not None and not q["holders"] and not q["stale"] and not q["in_txn"]:
            st["C18:server_rows"] += 1
            act = [r for r in sv if r.get("state") == "active"]
            if act:
                out.append({"kind": "server_active_although_nobody_holds_one", "at": q["label"], "servers": [r.get("address_id") for r in act]})
        li = _rows(tr, "show:%s:LISTS" % q["label"])
        if li is not None and not q["holders"] and not q["stale"] and not q["in_txn"]:
            d = {r["list"]: int(r["items"]) for r in li}
            st["C18:lists"] += 1
            if d.get("used_servers", 0) or d.get("used_clients", 0):
                out.append({"kind": "lists_report_used_although_idle", "at": q["label"], "used_clients": d.get("used_clients"), "used_servers": d.get("used_servers")})
        stt = _rows(tr, "show:%s:STATS" % q["label"])
        if stt is not None:
            cur = {(r["instance"], r["user"]): {k: int(v) for k, v in r.items() if k.startswith("total_")} for r in stt}
            if last_epoch == q["epoch"]:
                for key, v in cur.items():
                    for k, x in v.items():
                        st["C18:totals"] += 1
                        if key in last_stats and x < last_stats[key].get(k, 0):
                            out.append({"kind": "total_decreased:" + k, "at": q["label"], "instance": key[0], "user": key[1], "before": last_stats[key][k], "now": x})
            last_stats, last_epoch = cur, q["epoch"]
    return out


def mon_C19(tr, st):
    out = []
    excluded = 0
    for op in tr.ops:
        if op.get("c19_excluded"):
            excluded += 1
        if not op.get("must_block"):
            continue
        st["C19:blocked_statements"] += 1
        needle = "/*%s*/" % op["tag"]
        for m in tr.msgs:
            sql = str(m["detail"].get("sql") or "")
            if needle in sql and ("secret" in sql or INTERCEPT_SQL in sql.lower()):
                out.append({"kind": "%s_statement_reached_a_server%s" % ("denied" if op["verdict"] == "deny" else "intercepted", "" if op["proto"] == "L" else "_extended"),
                            "op": op["tag"], "op_kind": op["kind"], "backend": m["who"], "message": m["tag"], "sql": sql, "in_transaction": op["txn_before"] != "I"})
                break
    st["C19:excluded_after_SET_SERVER_ROLE"] += excluded
    return out


MONITORS = {"C01": mon_C01, "C02": mon_C02, "C03": mon_C03, "C04": mon_C04, "C05": mon_C05, "C06": mon_C06, "C08": mon_C08, "C10": mon_C10,
            "C12": mon_C12, "C14": mon_C14, "C16": mon_C16, "C18": mon_C18, "C19": mon_C19}
for _p in STUBS:
    MONITORS[_p] = lambda tr, st: []       # no cross-feature monitor for this property


def evaluate(scn, res, props=None):
    """{prop: [problem dicts]} for one scenario + its result; counters of monitor evaluations"""
    st = Counter()
    if res.get("harness_error") or res.get("start_error") or "events" not in res:
        return None, st, None
    tr = Trace(scn, res)
    return {p: MONITORS[p](tr, st) for p in (props or MONITORED)}, st, tr


# ============================================================================ running, caching, reporting
HARNESS_SOURCES = ["harness/src/bin/wire.rs", "harness/src/mockpg.rs", "harness/src/client.rs", "harness/src/pooler.rs", "harness/src/util.rs", "harness/Cargo.toml"]
COUNTS = {"quick": 40, "thorough": 600}


def _sha(b):
    return hashlib.sha1(b if isinstance(b, bytes) else b.encode()).hexdigest()


def stable_rng(seed):
    # hash() of a tuple holding a str differs from process to process (PYTHONHASHSEED); the cache needs the same scenarios
    # in every process, so the seed of the generator is derived with sha1 instead of hash((seed, "mix"))
    return random.Random(int(_sha("%s:mix" % seed)[:16], 16))


def wire_binary():
    w = os.environ.get("MIX_WIRE")
    if w:
        return True, "", w
    ok, log, bins = vlib.cargo_build(["wire"])
    return ok, log, bins.get("wire")


def cache_key(seed, tier):
    def git(*a):
        try:
            return subprocess.run(["git", "-C", vlib.REPO] + list(a), stdout=subprocess.PIPE, stderr=subprocess.DEVNULL, timeout=60).stdout
        except Exception:
            return b"?"
    src = b"".join(open(os.path.join(vlib.ROOT, f), "rb").read() for f in ["props/mix.py", "props/session_common.py", "props/wirelib.py"] + HARNESS_SOURCES
                   if os.path.exists(os.path.join(vlib.ROOT, f)))
    return _sha("|".join([str(seed), tier, git("rev-parse", "HEAD").decode().strip(), _sha(git("diff")), _sha(src), os.environ.get("MIX_WIRE", "")]))


def run_all(wire, scns, workers=16):
    t0 = time.time()
    results = W.run_scenarios(wire, [{k: v for k, v in s.items() if k != "_truth"} for s in scns], workers=workers, timeout=90)
    return [slim(r) for r in results], time.time() - t0


def results_for(seed, tier, wire, log=None):
    """scenarios + raw results, computed once per (seed, tier, tree, machinery) and kept on disk"""
    d = os.path.join(vlib.TMP, "mix")
    os.makedirs(d, exist_ok=True)
    path = os.path.join(d, cache_key(seed, tier) + ".json.gz")
    with vlib.Lock("mix"):
        scns = gen(stable_rng(seed), COUNTS[tier])
        gsha = _sha(json.dumps(scns, sort_keys=True))
        if os.path.exists(path):
            try:
                c = json.load(gzip.open(path, "rt"))
                if c.get("gen_sha") == gsha and len(c["results"]) == len(scns):
                    return scns, c["results"], {"cached": True, "wall_s": c.get("wall_s"), "path": path}
            except Exception:
                pass
        results, wall = run_all(wire, scns)
        tmp = path + ".%d.tmp" % os.getpid()
        with gzip.open(tmp, "wt", compresslevel=3) as f:
            json.dump({"gen_sha": gsha, "results": results, "wall_s": round(wall, 2)}, f)
        os.replace(tmp, path)
        for old in sorted((os.path.join(d, x) for x in os.listdir(d) if x.endswith(".json.gz")), key=os.path.getmtime)[:-12]:
            try:
                os.remove(old)
            except OSError:
                pass
        return scns, results, {"cached": False, "wall_s": round(wall, 2), "path": path}


def run_for(run, prop):
    """called from a property's check(run): evaluate the monitors of `prop` on the shared cross-feature scenarios"""
    prop = prop.upper()
    ok, blog, wire = wire_binary()
    if not ok or not wire:
        run.broken.append("cross-feature mix: the wire harness does not build: %s" % blog[-1500:])
        return
    tier = run.tier if run.tier in COUNTS else "quick"
    try:
        scns, results, info = results_for(run.seed, tier, wire)
    except Exception as e:
        run.broken.append("cross-feature mix: could not run the scenarios: %s: %s" % (type(e).__name__, str(e)[:300]))
        return
    cov = {"scenarios": len(scns), "ran_in_s": info["wall_s"], "from_cache": info["cached"], "rejected_configurations": 0, "harness_failures": 0,
           "monitor": prop if prop in MONITORED else "none (stub)"}
    st = Counter()
    seen, nprob, deviations, excluded = set(), 0, 0, 0
    unrepro = []
    nops = Counter()
    for scn, res in zip(scns, results):
        if res.get("start_error"):
            cov["rejected_configurations"] += 1       # a generator bug: dropped and counted
            continue
        if res.get("harness_error") or "events" not in res:
            cov["harness_failures"] += 1
            continue
        for k, v in scn["_truth"]["kinds"].items():
            nops[k] += v
        probs, s1, tr = evaluate(scn, res, [prop] if prop in MONITORS else [])
        st.update(s1)
        deviations += len(tr.div)
        run.cov["traces_validated_against_impl"] += 1
        for v in (probs or {}).get(prop, []):
            nprob += 1
            if v["kind"] in seen:
                continue
            # a problem is reported when it shows again on two fresh runs of the same scenario (the stored result can be a cached
            # one, and on a loaded machine a scripted step's effects can arrive after the step that looks at them); a defect of the
            # code is deterministic on these scripted scenarios
            try:
                again = [replay_scenario(scn, prop, wire) for _ in range(2)]
            except Exception as e:
                again = [[{"kind": v["kind"], "error": str(e)[:200]}]] * 2
            if not all(any(x.get("kind") == v["kind"] for x in (a or [])) for a in again):
                unrepro.append(v["kind"])
                continue
            seen.add(v["kind"])
            t = scn["_truth"]
            run.violation("counterexample", "%s monitor on a cross-feature scenario: %s: %s" % (prop, v["kind"], json.dumps({k: x for k, x in v.items() if k != "kind"}, default=str)[:600]),
                          {"input": {"stage": "cross_feature_mix", "scenario_index": t["index"], "seed": run.seed, "tier": tier, "configuration": t["epochs"][0],
                                     "reloads": [r["how"] for r in t["reloads"]], "ops": [[o["c"], o["kind"], o.get("sql") or [m.get("t") for m in o.get("msgs", [])]] for o in t["ops"]][:80]},
                           "monitor": v, "scenario": scn})
    if cov["harness_failures"] > max(1, len(scns) // 10):
        run.broken.append("cross-feature mix: %d of %d scenarios failed in the harness" % (cov["harness_failures"], len(scns)))
    cov.update({"config_values": histogram(scns)["config"], "ops_by_kind": dict(sorted(nops.items())), "monitor_evaluations": dict(sorted(st.items())), "problems": nprob, "problem_kinds": sorted(seen),
                "script_deviations_skipped": deviations, "missing_kinds": sorted(k for k in KINDS if nops[k] == 0), "unreproduced_problems": unrepro[:20]})
    if prop == "C16":
        cov["exclusions"] = ["held statements of clients whose user was removed and re-added by reloads since they connected (reported defect: the stale pool object "
                             "of such a session does not see the pause): %d excluded" % st.get("C16:excluded_client_of_a_readded_user", 0)] if C16_EXCLUDE_READDED_USER else []
    if prop == "C19":
        cov["exclusions"] = ["denied / intercepted statements sent after SET SERVER ROLE TO 'primary'|'replica'|'any' (the command switches the session's parser and with it the "
                             "plugins off; to be repaired): %d statements excluded" % st.get("C19:excluded_after_SET_SERVER_ROLE", 0)] if C19_EXCLUDE_AFTER_SET_ROLE else []
    run.cov["cross_feature_mix"] = cov
    run.cov["evaluations"] += sum(v for k, v in st.items() if k.startswith(prop + ":"))
    return cov


def replay_scenario(scn, prop, wire=None):
    """re-run one stored scenario (with its `_truth`) and return the problems of `prop`'s monitor"""
    if wire is None:
        ok, blog, wire = wire_binary()
        if not ok:
            raise RuntimeError("wire harness does not build")
    res = slim(W.run_scenario(wire, {k: v for k, v in scn.items() if k != "_truth"}, timeout=90))
    probs, st, tr = evaluate(scn, res, [prop.upper()])
    if probs is None:
        return [{"kind": "harness", "error": res.get("harness_error") or res.get("start_error")}]
    return probs[prop.upper()]


if __name__ == "__main__":
    import argparse, sys
    ap = argparse.ArgumentParser()
    ap.add_argument("--seed", type=int, default=1)
    ap.add_argument("-n", type=int, default=40)
    ap.add_argument("--hist", action="store_true")
    ap.add_argument("--div", action="store_true")
    ap.add_argument("--dump")
    ap.add_argument("--show", type=int)
    a = ap.parse_args()
    scns = gen(stable_rng(a.seed), a.n)
    if a.hist:
        print(json.dumps(histogram(scns), indent=1))
        sys.exit(0)
    ok, blog, wire = wire_binary()
    results, wall = run_all(wire, scns)
    tot, stt, ndiv = Counter(), Counter(), Counter()
    for scn, res in zip(scns, results):
        probs, st, tr = evaluate(scn, res)
        if probs is None:
            print("scenario %d: HARNESS %s" % (scn["_truth"]["index"], str(res.get("harness_error") or res.get("start_error"))[:300]))
            continue
        stt.update(st)
        if a.show == scn["_truth"]["index"]:
            print(json.dumps(scn["_truth"]["epochs"][0]))
            for o in scn["_truth"]["ops"]:
                rp = tr.reply(o)
                print(o["i"], o["c"], o["kind"], o.get("sql") or [m.get("t") for m in o.get("msgs", [])], "->", rp and (rp["outcome"], [f.get("t") for f in rp["frames"]][:12], rp["pooler_err"]),
                      [(m["who"], m["conn"], m["tag"]) for m in tr.arrivals(o)][:4], {k: o.get(k) for k in ("role_expect", "shard_expect", "first", "mode", "holders_before", "faulted") if o.get(k) is not None})
            if a.dump:
                json.dump({"scn": scn, "res": res}, open("%s.%d.json" % (a.dump, scn["_truth"]["index"]), "w"))
        for d in tr.div:
            ndiv[d[1]] += 1
            if a.div:
                print("  dev scn %d: %s" % (scn["_truth"]["index"], d))
        for p, vs in probs.items():
            for v in vs:
                tot[(p, v["kind"])] += 1
                print("PROBLEM scn %d %s %s" % (scn["_truth"]["index"], p, json.dumps(v, default=str)[:700]))
        if a.dump and any(probs.values()):
            json.dump({"scn": scn, "res": res}, open("%s.%d.json" % (a.dump, scn["_truth"]["index"]), "w"))
    print("seed %d: %d scenarios in %.1fs; problems %s; deviations %s" % (a.seed, len(scns), wall, dict(tot), dict(ndiv)))
    print("evaluations", dict(sorted(stt.items())))
