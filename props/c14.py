"""C14 — live reload is safe: valid configs take effect, invalid ones change nothing.

P: coq/Reload/Props.v (c14_invalid_noop[_world], c14_unchanged_kept[_world], c14_changed_in_effect[_txn],
   c14_config_pools_agree, c14_inflight_unbroken, c14_inflight_ends, c14_removed_pool_error,
   c14_no_foreign_pool, c14_partial_state, c14_partial_refuted) over all stores / op sequences.
T: pgcat in-process (wire harness): pairs of old/new configuration files x the moment of the reload
   relative to client transactions x the way the reload is triggered (reload_config directly, admin
   RELOAD, the SIGHUP arm).  Per case:
   - differential: coq/Reload/Model.v (trace2, evaluated in coqc) vs the implementation, step by
     step: reload result, what each transaction start resolved to (server connection, new or
     reused, or "No pool configured"), the set of open server connections, CONFIG, POOLS
     (hash + identity of every pool object), number of live clones of every pool object;
   - model-free monitors, one per sentence of the property, on what the mock backends, the
     scripted clients and pgcat's public API (get_config / get_all_pools / admin SHOW) show.
"""
import copy, json
import vlib
from props import wirelib as W

PROP = "C14"
COQ_FILES = ["Reload/Model.v", "Reload/Proofs.v", "Reload/Mutants.v", "Reload/Props.v"]
BACKENDS = ["b0", "b1", "b2", "b3", "b4", "bd"]          # bd starts "down_held" (connection refused, port reserved)
# sharded pool ps: shard k = primary hkp + replicas hkr, hkq.  The hkr listen on 127.0.0.2 (admin BAN is by host); hkq stays unbanned, so that
# "all replicas banned => unban all" (pool.rs:993-1010) never empties the list behind the test's back
SHARD_BACKENDS = ["h%d%s" % (k, x) for k in range(3) for x in "prq"]
HOST = {b: "127.0.0.2" for b in SHARD_BACKENDS if b.endswith("r")}
ALLB = BACKENDS + SHARD_BACKENDS
DBID = {"pa": 0, "pb": 1, "pc": 2, "ps": 3}
USERID = {"u": 0, "v": 1}
# repaired findings, kept as regression inputs (known_findings.jsonl: status "fixed")
F12 = "F12-config-stored-before-pools-built"     # 0510794: reload_config restores the old CONFIG when from_config fails
D2 = "D2-pool-mode-not-refreshed"                # a374b10: Client.transaction_mode is refreshed after get_pool() at every checkout
D3 = "D3-router-settings-stale-until-checkout"    # c3cef0c: pool + router settings are refreshed when a message arrives, before custom commands / parsing / plugins
D4 = "D4-default-role-copied-at-connect-only"
D4_TEXT = ("D4 default_role is copied into a session's active role at connect only (client.rs set_default_role, once, at the start of handle()): a RELOAD that changes a pool's "
           "default_role does not reach sessions that are already connected (query parser read/write splitting off), unless they SET SERVER ROLE TO 'default'; new sessions get it. "
           "Class: OLD session (connected before the reload) x the reload changed default_role of its pool x the statement's role is not inferred by the parser x the session "
           "never issued SET SERVER ROLE")

GEN_BASE = {"host": "127.0.0.1", "port": 6432, "admin_username": "admin", "admin_password": "adminpw",
            "connect_timeout": 2000, "healthcheck_timeout": 500, "healthcheck_delay": 30000, "shutdown_timeout": 1500,
            "ban_time": 60, "idle_timeout": 600000, "server_lifetime": 86400000, "worker_threads": 2,
            "validate_config": False, "log_client_connections": False, "log_client_disconnections": False}
POOL_BASE = {"pool_mode": "transaction", "default_role": "any", "query_parser_enabled": False,
             "query_parser_read_write_splitting": False, "primary_reads_enabled": True, "sharding_function": "pg_bigint_hash",
             "prepared_statements_cache_size": 0}


# ------------------------------------------------------------------------------------ configuration files

def user(name="u", pw="pw", size=3, **kw):
    d = {"username": name, "password": pw, "pool_size": size}
    d.update(kw)
    return d


def pool(servers, users=None, **opts):
    return {"opts": dict(opts), "users": users or [user()], "shards": [{"key": "0", "servers": [list(s) for s in servers]}]}


def render(sem, style=0):
    """style bit 0: reversed key/pool order, comments, blank lines; bit 1: some defaults written out."""
    rev = bool(style & 1)
    out = []
    if rev:
        out += ["# reformatted copy", ""]
    g = dict(GEN_BASE)
    g.update(sem.get("general", {}))
    if style & 2:
        g.setdefault("server_round_robin", True)     # General::default_server_round_robin() (config.rs:453)
    items = [(k, v) for k, v in g.items() if v is not None]
    if rev:
        items.reverse()
    out.append("[general]")
    for k, v in items:
        out.append(("%s   =   %s   # %s" if rev else "%s = %s") % ((k, W.toml_val(v), k) if rev else (k, W.toml_val(v))))
    out.append("")
    names = sorted(sem["pools"])
    if rev:
        names.reverse()
    for n in names:
        p = sem["pools"][n]
        out.append("[pools.%s]" % n)
        o = dict(POOL_BASE)
        o.update(p.get("opts", {}))
        if style & 2:
            o.setdefault("load_balancing_mode", "random")
            o.setdefault("cleanup_server_connections", True)
        items = [(k, v) for k, v in o.items() if v is not None]
        if rev:
            items.reverse()
        for k, v in items:
            out.append("%s = %s" % (k, W.toml_val(v)))
        out.append("")
        if p.get("raw"):
            out.append(p["raw"])
        ul = list(enumerate(p["users"]))
        if rev:
            ul.reverse()
        for i, u in ul:
            out.append("[pools.%s.users.%d]" % (n, i))
            for k, v in (reversed(list(u.items())) if rev else u.items()):
                if v is not None:
                    out.append("%s = %s" % (k, W.toml_val(v)))
            out.append("")
        for sh in p["shards"]:
            out.append("[pools.%s.shards.%s]" % (n, sh["key"]))
            srv = ", ".join('["%s", @PORT:%s@, "%s"]' % (HOST.get(b, "127.0.0.1"), b, r) for b, r in sh["servers"])
            if rev:
                out.append("servers = [ %s ]" % srv)
                out.append('database = "db_%s"' % n)
            else:
                out.append('database = "db_%s"' % n)
                out.append("servers = [%s]" % srv)
            out.append("")
    if sem.get("tail"):
        out.append(sem["tail"])
    return "\n".join(out) + "\n"


def canon_pool(p, name=""):
    """what Pool::hash_value covers, as far as the grammar varies it (None = key absent)"""
    o = {k: v for k, v in p.get("opts", {}).items() if v is not None}
    us = [{k: v for k, v in u.items() if v is not None} for u in p["users"]]
    return json.dumps({"o": o, "u": us, "s": p["shards"], "raw": p.get("raw"), "database": "db_" + name}, sort_keys=True)


def canon_general(sem):
    return json.dumps({k: v for k, v in sem.get("general", {}).items() if v is not None}, sort_keys=True)


def keys_of(sem):
    return {(n, u["username"]) for n, p in sem["pools"].items() for u in p["users"]}


def backends_of(sem, n):
    return [b for sh in sem["pools"][n]["shards"] for b, _ in sh["servers"]]


BASES = {
    "A": {"pools": {"pa": pool([["b0", "primary"]]), "pb": pool([["b1", "primary"]])}},
    "B": {"pools": {"pa": pool([["b0", "primary"]], users=[user("u"), user("v", "pwv")]), "pb": pool([["b1", "primary"]])}},
}


def shard(k, *names):
    """names: letters p (primary), r, q (replicas) in file order"""
    return {"key": str(k), "servers": [["h%d%s" % (k, x), "primary" if x == "p" else "replica"] for x in (names or "prq")]}


BASES["H"] = {"pools": {"ps": {"opts": {}, "users": [user()], "shards": [shard(0), shard(1)]}, "pb": pool([["b1", "primary"]])}}
TA = "[pools.ps.plugins.table_access]\nenabled = %s\ntables = [%s]\n"
BASES["HQ"] = {"pools": {"ps": {"opts": {"default_role": "primary"}, "users": [user()], "shards": [shard(0), shard(1)]}, "pb": pool([["b1", "primary"]])}}
BASES["HP"] = {"pools": {"ps": {"opts": {"query_parser_enabled": True}, "raw": TA % ("true", '"secret"'), "users": [user()], "shards": [shard(0), shard(1)]},
                         "pb": pool([["b1", "primary"]])}}
LOW, HIGH, IDLE = 500, 3000, 1100       # idle_client_in_transaction_timeout values (ms) and the silence used against them
BASES["T"] = dict(copy.deepcopy(BASES["A"]), general={"idle_client_in_transaction_timeout": HIGH})
BASES["S"] = dict(copy.deepcopy(BASES["A"]), general={"idle_client_in_transaction_timeout": LOW})


def idle_of(sem):
    return (sem.get("general") or {}).get("idle_client_in_transaction_timeout", 0) or 0


def mut(base, f, **general):
    s = copy.deepcopy(BASES[base])
    f(s["pools"])
    if general:
        s["general"] = general
    return s


def valid_kinds():
    """(name, base, new_sem, style, extra) — the VALID new files."""
    K = []
    ident = lambda P: None
    K.append(("unchanged-identical", "A", mut("A", ident), 0, {}))
    K.append(("unchanged-reformatted", "A", mut("A", ident), 1, {}))
    K.append(("unchanged-defaults-written-out", "A", mut("A", ident), 2, {}))
    K.append(("unchanged-reformatted+defaults", "B", mut("B", ident), 3, {}))
    K.append(("general-only-ban_time", "A", mut("A", ident, ban_time=61), 0, {}))
    K.append(("general-only-healthcheck", "B", mut("B", ident, healthcheck_delay=30001), 1, {}))

    def servers(P): P["pa"]["shards"][0]["servers"] = [["b2", "primary"]]
    K.append(("pa-server-replaced", "A", mut("A", servers), 0, {}))
    K.append(("pa-server-replaced-B", "B", mut("B", servers), 1, {}))

    def replica(P): P["pa"]["shards"][0]["servers"] = [["b0", "primary"], ["b2", "replica"]]; P["pa"]["opts"]["default_role"] = "primary"
    K.append(("pa-replica-added", "A", mut("A", replica), 0, {}))

    def pw(P): P["pa"]["users"][0]["password"] = "newpw"
    K.append(("pa-password-changed", "A", mut("A", pw), 0, {"auth": ("pa", "u", "newpw", "pw")}))

    def size(P): P["pa"]["users"][0]["pool_size"] = 5
    K.append(("pa-pool_size-changed", "A", mut("A", size), 0, {}))

    def mode(P): P["pa"]["opts"]["pool_mode"] = "session"
    K.append(("pa-pool_mode-session", "A", mut("A", mode), 0, {}))

    def role(P): P["pa"]["opts"]["default_role"] = "primary"
    K.append(("pa-default_role-primary", "A", mut("A", role), 2, {}))

    def adduser(P): P["pa"]["users"].append(user("v", "pwv"))
    K.append(("pa-user-added", "A", mut("A", adduser), 0, {}))

    def deluser(P): P["pa"]["users"] = [P["pa"]["users"][0]]
    K.append(("pa-user-v-removed", "B", mut("B", deluser), 0, {}))

    def deluser_u(P): P["pa"]["users"] = [P["pa"]["users"][1]]
    K.append(("pa-user-u-removed", "B", mut("B", deluser_u), 0, {}))

    def addpool(P): P["pc"] = pool([["b3", "primary"]])
    K.append(("pc-added", "A", mut("A", addpool), 0, {}))
    K.append(("pc-added-reformatted", "B", mut("B", addpool), 1, {}))

    def delpb(P): del P["pb"]
    K.append(("pb-removed", "A", mut("A", delpb), 0, {}))

    def delpa(P): del P["pa"]
    K.append(("pa-removed", "A", mut("A", delpa), 0, {}))
    K.append(("pa-removed-B", "B", mut("B", delpa), 0, {}))

    def combo(P): servers(P); del P["pb"]; addpool(P)
    K.append(("pa-changed+pb-removed+pc-added", "A", mut("A", combo), 0, {}))

    def swap(P): P["pa"]["shards"][0]["servers"] = [["b1", "primary"]]; P["pb"]["shards"][0]["servers"] = [["b0", "primary"]]
    K.append(("pa-pb-servers-swapped", "A", mut("A", swap), 0, {}))

    def pbmode(P): P["pb"]["opts"]["pool_mode"] = "session"; P["pb"]["users"][0]["pool_size"] = 4
    K.append(("pb-changed-only", "A", mut("A", pbmode), 0, {}))

    def both(P): servers(P); P["pb"]["shards"][0]["servers"] = [["b4", "primary"]]
    K.append(("pa-and-pb-changed+general", "A", mut("A", both, ban_time=62), 0, {}))

    def timeouts(P): P["pa"]["opts"]["connect_timeout"] = 400; P["pa"]["opts"]["idle_timeout"] = 500000
    K.append(("pa-pool-timeouts", "A", mut("A", timeouts), 0, {}))

    def userpm(P): P["pa"]["users"][0]["pool_mode"] = "session"
    K.append(("pa-user-pool_mode", "A", mut("A", userpm), 0, {}))
    # general-section settings with a client silent inside its open transaction across the reload (longer than the
    # NEW timeout, shorter than the OLD one): the transaction finishes under the settings it started with
    K.append(("general-idle_timeout-set", "A", mut("A", ident, idle_client_in_transaction_timeout=LOW), 0, {"idle": IDLE}))
    K.append(("general-idle_timeout-lowered", "T", mut("A", ident, idle_client_in_transaction_timeout=LOW), 0, {"idle": IDLE}))
    K.append(("general-idle_timeout-raised", "S", mut("A", ident, idle_client_in_transaction_timeout=HIGH), 0, {"idle": IDLE}))
    K.append(("general-idle_timeout-removed", "S", mut("A", ident), 1, {"idle": IDLE}))
    K.append(("general-connect_timeout", "A", mut("A", ident, connect_timeout=2500), 0, {"idle": 300}))
    K.append(("general-healthcheck", "A", mut("A", ident, healthcheck_timeout=400, healthcheck_delay=20000), 0, {"idle": 300}))
    K.append(("general-ban_time+idle-lowered", "T", mut("A", ident, ban_time=5, idle_client_in_transaction_timeout=LOW), 2, {"idle": IDLE}))
    K.append(("idle-lowered+pa-server-replaced", "T", mut("A", servers, idle_client_in_transaction_timeout=LOW), 0, {"idle": IDLE}))

    def stmt(P): P["pa"]["users"][0]["statement_timeout"] = 500
    K.append(("pa-user-statement_timeout", "A", mut("A", stmt), 0, {"idle": 300}))
    # removal of a pool that is PAUSEd when the reload comes (the removed pool is resumed and dropped, its user refused)
    K.append(("pb-removed/paused", "A", mut("A", delpb), 0, {"pause": [("pb", "u")]}))
    K.append(("pa-removed/paused", "A", mut("A", delpa), 0, {"pause": [("pa", "u")]}))
    K.append(("pa-user-u-removed/paused", "B", mut("B", deluser_u), 0, {"pause": [("pa", "u")]}))
    K.append(("pa-changed+pb-removed+pc-added/paused", "A", mut("A", combo), 0, {"pause": [("pb", "u")]}))
    K.append(("pa-removed-B/both-users-paused", "B", mut("B", delpa), 0, {"pause": [("pa", "u"), ("pa", "v")]}))
    # (a) shards / servers of an existing pool added, removed, reordered, with the replicas banned before the reload (admin BAN by
    # host) and transactions to EVERY shard afterwards, from the old session and from a new one
    SW = {"ban": "127.0.0.2", "sweep": True}
    def shards(v):
        def f(P): P["ps"]["shards"] = v
        return f
    K.append(("ps-shard-added", "H", mut("H", shards([shard(0), shard(1), shard(2)])), 0, SW))
    K.append(("ps-shard-removed", "H", mut("H", shards([shard(0)])), 0, SW))
    K.append(("ps-servers-reordered", "H", mut("H", shards([shard(0, *"rqp"), shard(1)])), 0, SW))
    K.append(("ps-replica-removed", "H", mut("H", shards([shard(0), shard(1, *"pq")])), 0, SW))
    K.append(("ps-two-shards-added-one-reordered", "H", mut("H", shards([shard(0), shard(1, *"qrp"), shard(2)])), 1, SW))
    K.append(("ps-unchanged-with-bans", "H", mut("H", ident, ban_time=61), 0, SW))
    # (b) pool options that live in the client's query router: an OLD session must work by the new value from its next statement on
    def popt(**o):
        def f(P): P["ps"]["opts"].update(o)
        return f
    def ta(enabled, tables, **o):
        def f(P): P["ps"]["opts"].update(dict({"query_parser_enabled": True}, **o)); P["ps"]["raw"] = TA % (enabled, tables)
        return f
    # (the denial rule itself is read back from the raw text by probe_expect)
    K.append(("ps-table_access-enabled", "H", mut("H", ta("true", '"secret"')), 0, {"probe": ["table:secret", "table:other"]}))
    K.append(("ps-table_access-list-changed", "HP", mut("HP", ta("true", '"other"')), 0, {"probe": ["table:secret", "table:other"]}))
    K.append(("ps-table_access-disabled", "HP", mut("HP", ta("false", '"secret"')), 0, {"probe": ["table:secret"]}))
    K.append(("ps-default_role-replica", "H", mut("H", popt(default_role="replica")), 0, {"probe": ["role"]}))
    K.append(("ps-default_role-primary", "H", mut("H", popt(default_role="primary")), 0, {"probe": ["role"]}))
    K.append(("ps-default_role-primary-to-replica", "HQ", mut("HQ", popt(default_role="replica")), 0, {"probe": ["role"]}))
    K.append(("ps-rw-splitting-on", "H", mut("H", popt(default_role="primary", query_parser_enabled=True, query_parser_read_write_splitting=True, primary_reads_enabled=False)), 0,
              {"probe": ["role", "write"]}))
    K.append(("ps-shard-count-2-to-3", "H", mut("H", shards([shard(0), shard(1), shard(2)])), 0, {"probe": ["key:%d" % k for k in range(1, 9)]}))
    K.append(("ps-sharding_function-sha1", "H", mut("H", popt(sharding_function="sha1")), 0, {"probe": ["key:%d" % k for k in range(1, 9)]}))
    K.append(("ps-default_shard-1", "H", mut("H", popt(default_shard="shard_1")), 0, {"probe": ["role"]}))
    # a transaction HELD by PAUSE across the reload: PAUSE pa,u; A's first statement is held; reload; RESUME; the transaction
    # must start on what the new file says (servers, mode, idle timeout) / be refused if the pool or user is gone
    H = {"hold": ("pa", "u")}
    K.append(("pa-server-replaced/held", "A", mut("A", servers), 0, H))
    K.append(("pa-pb-servers-swapped/held", "A", mut("A", swap), 0, H))
    K.append(("pa-pool_mode-session/held", "A", mut("A", mode), 0, H))
    K.append(("unchanged-identical/held", "A", mut("A", ident), 0, H))
    K.append(("general-only-ban_time/held", "A", mut("A", ident, ban_time=61), 0, H))
    K.append(("pa-removed/held", "A", mut("A", delpa), 0, H))
    K.append(("pa-user-u-removed/held", "B", mut("B", deluser_u), 0, H))
    K.append(("idle-lowered+pa-server-replaced/held", "T", mut("A", servers, idle_client_in_transaction_timeout=LOW), 0, dict(H, idle=IDLE, idle_after_wake=True)))
    return K


def invalid_kinds():
    """(name, new_sem or None, text transformer, class) — files parse() must reject.  Each is derived from
    a file that WOULD change pa's server and add pc, so that a wrongly applied reload shows."""
    def would(P):
        P["pa"]["shards"][0]["servers"] = [["b2", "primary"]]
        P["pc"] = pool([["b3", "primary"]])
    K = []

    def sem_of(f=None, **general):
        s = mut("A", would)
        if f:
            f(s["pools"])
        if general:
            s["general"] = general
        return s
    # TOML / serde level
    T = [("toml-unclosed-table", lambda t: t + "\n[pools.pa\n"),
         ("toml-double-equals", lambda t: t.replace("ban_time = 60", "ban_time = = 60")),
         ("toml-duplicate-table", lambda t: t + "\n[pools.pa]\npool_mode = \"session\"\n"),
         ("toml-missing-pool_size", lambda t: t.replace("pool_size = 3\n", "", 1)),
         ("toml-port-is-a-string", lambda t: t.replace("port = 6432", "port = \"abc\"")),
         ("toml-unknown-pool_mode", lambda t: t.replace('pool_mode = "transaction"', 'pool_mode = "bogus"', 1)),
         ("toml-bad-server-role", lambda t: t.replace('"primary"]', '"leader"]', 1)),
         ("toml-empty-file", lambda t: ""),
         ("toml-no-pools-key-type", lambda t: t.replace("[pools.pa]", "[pools]\npa = 3\n[poolz.pa]")),
         ("toml-garbage", lambda t: "\x00\x01 this is not toml {{{\n" + t)]
    for n, f in T:
        K.append((n, sem_of(), f, "toml"))
    # Config::validate / Pool::validate / User::validate / Shard::validate
    def popt(**o):
        def f(P): P["pa"]["opts"].update(o)
        return f

    def uopt(**o):
        def f(P): P["pa"]["users"][0].update(o)
        return f

    def shards(v):
        def f(P): P["pa"]["shards"] = v
        return f
    V = [("general-auth_query-without-user", sem_of(auth_query="SELECT 1")),
         ("general-connect_timeout-0", sem_of(connect_timeout=0)),
         ("general-idle_timeout-0", sem_of(idle_timeout=0)),
         ("general-server_lifetime-0", sem_of(server_lifetime=0)),
         ("general-tls_certificate-missing-file", sem_of(tls_certificate="/nonexistent/cert.pem", tls_private_key="/nonexistent/key.pem")),
         ("pool-auth_query-without-user", sem_of(popt(auth_query="SELECT 1"))),
         ("user-without-password", sem_of(uopt(password=None))),
         ("pool-default_role-master", sem_of(popt(default_role="master"))),
         ("shard-key-not-a-number", sem_of(shards([{"key": "x", "servers": [["b2", "primary"]]}]))),
         ("shard-without-servers", sem_of(shards([{"key": "0", "servers": []}]))),
         ("shard-two-primaries", sem_of(shards([{"key": "0", "servers": [["b2", "primary"], ["b4", "primary"]]}]))),
         ("shard-duplicate-server", sem_of(shards([{"key": "0", "servers": [["b2", "replica"], ["b2", "replica"]]}]))),
         ("shard-mirror-role", sem_of(shards([{"key": "0", "servers": [["b2", "mirror"]]}]))),
         ("shards-numbered-from-1", sem_of(shards([{"key": "1", "servers": [["b2", "primary"]]}]))),
         ("shards-with-gap", sem_of(shards([{"key": "0", "servers": [["b2", "primary"]]}, {"key": "2", "servers": [["b4", "primary"]]}]))),
         ("pool-shard_id_regex-invalid", sem_of(popt(shard_id_regex="("))),
         ("pool-sharding_key_regex-invalid", sem_of(popt(sharding_key_regex="[a"))),
         ("pool-rw-splitting-without-parser", sem_of(popt(query_parser_read_write_splitting=True))),
         ("pool-plugins-without-parser", sem_of(lambda P: P["pa"].update(raw="[pools.pa.plugins.query_logger]\nenabled = false\n"))),
         ("pool-automatic_sharding_key-unqualified", sem_of(popt(automatic_sharding_key="id"))),
         ("pool-connect_timeout-0", sem_of(popt(connect_timeout=0))),
         ("pool-idle_timeout-0", sem_of(popt(idle_timeout=0))),
         ("pool-server_lifetime-0", sem_of(popt(server_lifetime=0))),
         ("pool-default_shard-out-of-range", sem_of(popt(default_shard="shard_5"))),
         ("user-pool_size-0", sem_of(uopt(pool_size=0))),
         ("user-connect_timeout-0", sem_of(uopt(connect_timeout=0))),
         ("user-idle_timeout-0", sem_of(uopt(idle_timeout=0))),
         ("user-server_lifetime-0", sem_of(uopt(server_lifetime=0))),
         ("user-min_pool_size-above-pool_size", sem_of(uopt(min_pool_size=9))),
         ("pool-db_activity-init_delay-0", sem_of(popt(db_activity_based_routing=True, db_activity_init_delay=0))),
         ("pool-db_activity-mutation_ttl-0", sem_of(popt(db_activity_based_routing=True, table_mutation_cache_ms_ttl=0))),
         ("pool-db_activity-ttl-0", sem_of(popt(db_activity_based_routing=True, db_activity_ttl=0))),
         ("second-pool-invalid", sem_of(lambda P: P["pc"]["users"][0].update(pool_size=0)))]
    for n, s in V:
        K.append((n, s, None, "validate"))
    K.append(("file-deleted", None, None, "unreadable"))
    return K


def f12_kinds():
    """valid files whose pools cannot be built: validate_config = true, min_pool_size >= 1, server down"""
    def dead(P): P["pa"]["shards"][0]["servers"] = [["bd", "primary"]]; P["pa"]["users"][0]["min_pool_size"] = 1
    def deadpc(P): P["pc"] = pool([["bd", "primary"]], users=[user(min_pool_size=1)])
    return [("f12-pa-moved-to-dead-server", "A", mut("A", dead, validate_config=True, connect_timeout=100), 0),
            ("f12-pc-added-on-dead-server", "A", mut("A", deadpc, validate_config=True, connect_timeout=100), 0)]


# ------------------------------------------------------------------------------------ cases

TIMINGS = ["before", "inside", "between"]
TRIGGERS = ["direct", "admin", "hup"]


def make_cases(rng, quick):
    """case = {name, base, files:[{kind, sem, text, style}], timing, trigger}; files[0] = the reload under test,
    files[1] = a follow-up reload."""
    cases = []
    follow = mut("A", lambda P: P["pa"]["shards"][0].update(servers=[["b4", "primary"]]))   # a valid, changed file
    n = 0
    for name, base, sem, style, extra in valid_kinds():
        for ti, timing in enumerate(TIMINGS):
            trig = TRIGGERS[(n + ti) % 3]
            f1 = {"kind": "valid", "sem": sem, "style": style}
            cases.append({"name": name, "base": base, "files": [f1, dict(f1)], "timing": timing, "trigger": trig, "extra": extra, "old_style": 0})
        n += 1
    for name, sem, tf, cls in invalid_kinds():
        for ti, timing in enumerate(TIMINGS):
            trig = TRIGGERS[(n + ti) % 3]
            f1 = {"kind": cls, "sem": sem, "tf": name if tf else None, "style": 0}
            f2 = {"kind": "valid", "sem": follow, "style": 0} if (n + ti) % 2 == 0 else dict(f1)
            cases.append({"name": name, "base": "A", "files": [f1, f2], "timing": timing, "trigger": trig, "extra": {}, "old_style": 0})
        n += 1
    for name, base, sem, style in f12_kinds():
        for ti, timing in enumerate(TIMINGS):
            trig = TRIGGERS[(n + ti) % 3]
            f1 = {"kind": "valid", "sem": sem, "style": style, "dead": True}
            f2 = {"kind": "valid", "sem": sem, "style": style, "revive": True}
            cases.append({"name": name, "base": base, "files": [f1, f2], "timing": timing, "trigger": trig, "extra": {}, "old_style": 0})
        n += 1
    # (d) refused reloads while a pool is PAUSEd: the new file DROPS the paused pool and is then refused (its build fails / it is invalid):
    # the pool stays registered AND paused; RESUME afterwards works
    def drop_pb_dead(P):
        del P["pb"]; P["pa"]["shards"][0]["servers"] = [["bd", "primary"]]; P["pa"]["users"][0]["min_pool_size"] = 1
    def drop_pb_bad(P):
        del P["pb"]; P["pa"]["users"][0]["pool_size"] = 0
    def drop_pb_role(P):
        del P["pb"]; P["pa"]["opts"]["default_role"] = "master"
    refused = [("refused-build/pb-dropped-while-paused", {"kind": "valid", "sem": mut("A", drop_pb_dead, validate_config=True, connect_timeout=100), "style": 0, "dead": True}),
               ("refused-validate/pb-dropped-while-paused", {"kind": "validate", "sem": mut("A", drop_pb_bad), "style": 0}),
               ("refused-validate-role/pb-dropped-while-paused", {"kind": "validate", "sem": mut("A", drop_pb_role), "style": 0}),
               ("refused-toml/pb-paused", {"kind": "toml", "sem": mut("A", drop_pb_bad), "tf": "toml-double-equals", "style": 0}),
               ("refused-unreadable/pb-paused", {"kind": "unreadable", "sem": None, "style": 0})]
    for name, f1 in refused:
        for ti, timing in enumerate(TIMINGS):
            f2 = dict(f1, revive=True, dead=False) if f1.get("dead") else {"kind": "valid", "sem": follow, "style": 0}
            cases.append({"name": name, "base": "A", "files": [f1, f2], "timing": timing, "trigger": TRIGGERS[(n + ti) % 3], "extra": {"pause": [("pb", "u")]}, "old_style": 0})
        n += 1
    # the same pairs with the OLD file in another rendering (one moment each, rotating)
    for j, (name, base, sem, style, extra) in enumerate(valid_kinds()):
        f1 = {"kind": "valid", "sem": sem, "style": style}
        cases.append({"name": name + "/old-reformatted", "base": base, "files": [f1, dict(f1)], "timing": TIMINGS[j % 3], "trigger": TRIGGERS[(j // 3) % 3],
                      "extra": extra, "old_style": 1 + j % 3})
    for j, (name, sem, tf, cls) in enumerate(invalid_kinds()):
        f1 = {"kind": cls, "sem": sem, "tf": name if tf else None, "style": 0}
        cases.append({"name": name + "/old-reformatted", "base": "A", "files": [f1, {"kind": "valid", "sem": follow, "style": j % 4}], "timing": TIMINGS[j % 3],
                      "trigger": TRIGGERS[(j // 3) % 3], "extra": {}, "old_style": 1 + j % 3})
    # seeded variations: random pairs of valid kinds chained (file 1 then file 2), random old style
    vk = valid_kinds()
    extra_n = 12 if quick else 400
    for i in range(extra_n):
        a = vk[rng.randrange(len(vk))]
        cand = [k for k in vk if k[1] == a[1]]
        b = cand[rng.randrange(len(cand))]
        cases.append({"name": "chain:%s>%s" % (a[0], b[0]), "base": a[1],
                      "files": [{"kind": "valid", "sem": a[2], "style": a[3]}, {"kind": "valid", "sem": b[2], "style": rng.randrange(4)}],
                      "timing": TIMINGS[rng.randrange(3)], "trigger": TRIGGERS[rng.randrange(3)], "extra": {}, "old_style": rng.randrange(4)})
    if not quick:
        ik = invalid_kinds()
        for i in range(300):
            a = ik[rng.randrange(len(ik))]
            b = vk[rng.randrange(len(vk))]
            if b[1] != "A":
                continue
            cases.append({"name": "chain:%s>%s" % (a[0], b[0]), "base": "A",
                          "files": [{"kind": a[3], "sem": a[1], "tf": a[0] if a[2] else None, "style": 0}, {"kind": "valid", "sem": b[2], "style": b[3]}],
                          "timing": TIMINGS[rng.randrange(3)], "trigger": TRIGGERS[rng.randrange(3)], "extra": {}, "old_style": rng.randrange(4)})
    return cases


TF = None


def file_text(f):
    global TF
    if f["kind"] == "unreadable":
        return None
    t = render(f["sem"], f.get("style", 0))
    if f.get("tf"):
        if TF is None:
            TF = {n: tf for n, _, tf, _ in invalid_kinds() if tf}
        t = TF[f["tf"]](t)
    return t


# ------------------------------------------------------------------------------------ scenario script

def q(c, sql, label, timeout=None):
    return [{"op": "send", "c": c, "msgs": [{"t": "Q", "sql": sql}]}, {"op": "recv", "c": c, "until": "Z", "timeout_ms": timeout or 3000, "label": label}]


class Script:
    """builds the wire steps and, in parallel, the abstract operation list of the model"""

    def __init__(self, case):
        self.case = case
        self.steps = []
        self.ops = []          # abstract ops: ("reload", file index) | ("connect", c, db, user) | ("begin", c) | ("end", c) | ("disconnect", c)
        self.seqno = {}
        self.clients = {}      # c -> (db, user)
        self.nadm = 0
        self.inforce = BASES[case["base"]]   # the last file that was accepted and built (by file kind)
        self.mode_at_connect = {}
        self.connect_step = {}
        self.never = set()     # clients whose (pool, user) did not exist when they connected
        self.tmo = {}          # client -> idle-in-transaction timeout its current transaction started with (by file)
        self.straddle_timeout = False
        self.hold_removed = False
        self.keeps = set()     # clients that checked out a server of a session-mode pool: they keep it until they leave

    def mark(self, extra_ms=0):
        if extra_ms:
            self.steps.append({"op": "sleep", "ms": extra_ms})
        # settled point: no server connection opened / closed for 12 ms (pools replaced by a reload close theirs asynchronously)
        self.steps.append({"op": "settle", "quiet_ms": 12, "timeout_ms": 600})
        self.steps.append({"op": "reload_state", "label": "op%d" % (len(self.ops) - 1)})

    def sql(self, c):
        self.seqno[c] = self.seqno.get(c, 0) + 1
        return "SELECT '%s_%d'" % (c, self.seqno[c])

    def connect(self, c, db, usr, pw):
        self.clients[c] = (db, usr)
        if (db, usr) not in keys_of(self.inforce):
            self.never.add(c)
        self.connect_step[c] = len(self.steps)
        self.steps.append({"op": "connect", "c": c, "params": {"user": usr, "database": db}, "password": pw, "timeout_ms": 3000})
        self.ops.append(("connect", c, db, usr))
        self.mark()

    def probe_connect(self, c, db, usr, pw):
        """a connection attempt that is not a model op (the model has no passwords)"""
        self.steps.append({"op": "connect", "c": c, "params": {"user": usr, "database": db}, "password": pw, "timeout_ms": 3000})
        self.steps.append({"op": "close", "c": c})
        self.steps.append({"op": "sleep", "ms": 25})

    def session_mode(self, c):
        db, usr = self.clients[c]
        p = self.inforce["pools"].get(db)
        if not p:
            return False
        us = [u for u in p["users"] if u["username"] == usr]
        return bool(us) and (us[0].get("pool_mode") or p["opts"].get("pool_mode") or "transaction") == "session"

    def begin(self, c):
        k = len(self.ops)
        if c in self.keeps:
            # session mode: this client never checks out again (no model op); the statements still have to work
            self.steps += q(c, "BEGIN", "keep:%s" % c) + q(c, self.sql(c), "keep:%s" % c)
            return
        self.steps += q(c, "BEGIN", "op%d:begin" % k, self.case["extra"].get("pause") and 900) + q(c, self.sql(c), "op%d:first" % k, self.case["extra"].get("pause") and 900)
        self.ops.append(("begin", c))
        self.tmo[c] = idle_of(self.inforce)
        self.mark()
        # client.rs:1081-1083: the pool AND transaction_mode are refreshed at every checkout (D2 regression: before a374b10
        # the mode was the one of the pool the client had connected to)
        if self.session_mode(c) and c not in self.never:
            self.keeps.add(c)

    def idle(self, c, ms):
        """the client sends nothing for ms inside its open transaction; returns whether, by the files alone, the transaction
        is expected to time out (timeout it STARTED with, 0 = none)"""
        k = len(self.ops)
        self.steps.append({"op": "sleep", "ms": ms})
        self.steps.append({"op": "recv", "c": c, "until": "Z", "timeout_ms": 80, "label": "op%d:idle" % k})
        self.ops.append(("idle", c, ms))
        self.mark()
        t = self.tmo.get(c, 0)
        return bool(t) and t <= ms and c not in self.never

    def pause(self, db, usr, verb="PAUSE"):
        k = len(self.ops)
        self.steps += q("admq", "%s %s,%s" % (verb, db, usr), "op%d:admin" % k)
        self.ops.append((verb.lower(), db, usr))
        self.mark()

    def ban_host(self, host):
        """admin BAN <host> 600: bans every server with that host in every registered pool (one model op per banned address)"""
        self.steps += q("admq", "BAN %s 600" % host, "ban")
        for n in sorted(self.inforce["pools"]):
            pl = self.inforce["pools"][n]
            for si, sh in enumerate(sorted(pl["shards"], key=lambda x: int(x["key"]))):
                for ai, (b, r) in enumerate(sh["servers"]):
                    if HOST.get(b, "127.0.0.1") == host and r != "primary":
                        for u in pl["users"]:
                            self.ops.append(("ban", n, u["username"], si * 10 + ai))
                            self.mark(0)

    def sweep(self, c, tag):
        """one autocommit statement on every shard of the client's pool as the file in force defines it (no model ops)"""
        db, usr = self.clients[c]
        pl = self.inforce["pools"].get(db)
        for k in range(len(pl["shards"]) if pl else 0):
            self.steps += q(c, "SET SHARD TO '%d'" % k, "sweepset:%s:%s:%d" % (tag, c, k))
            self.steps += q(c, "SELECT '%s_s%d'" % (c, k), "sweep:%s:%s:%d" % (tag, c, k))
        if pl:
            self.steps += q(c, "SET SHARD TO '0'", "sweepset:%s:%s:reset" % (tag, c))

    def probes(self, c, tag):
        """statements whose outcome depends on a pool option that lives in the client's query router (no model ops)"""
        for pr in self.case["extra"].get("probe", []):
            kind, _, arg = pr.partition(":")
            lab = "probe:%s:%s:%s" % (tag, c, pr)
            mk = "'%s_p%s%s'" % (c, tag, pr.replace(":", ""))
            if kind == "table":
                self.steps += q(c, "SELECT * FROM %s WHERE m = %s" % (arg, mk), lab)
            elif kind == "role":
                self.steps += q(c, "SELECT %s" % mk, lab)
            elif kind == "write":
                self.steps += q(c, "INSERT INTO t VALUES (%s)" % mk, lab)
            elif kind == "key":
                self.steps += q(c, "SET SHARDING KEY TO '%s'" % arg, lab + ":set") + q(c, "SELECT %s" % mk, lab)

    def hold_begin(self, c):
        """the first statement of a new transaction while the client's pool is paused: no reply may come"""
        k = len(self.ops)
        self.steps.append({"op": "send", "c": c, "msgs": [{"t": "Q", "sql": "BEGIN"}]})
        self.steps.append({"op": "recv", "c": c, "until": "Z", "timeout_ms": 150, "label": "op%d:begin" % k})
        self.ops.append(("begin", c))
        self.mark()

    def wake(self, c):
        """after RESUME (or after the reload that removed the pool): the held BEGIN is answered now; returns whether, by the
        files alone, the (pool, user) still exists"""
        k = len(self.ops)
        alive = self.clients[c] in keys_of(self.inforce)
        self.steps.append({"op": "recv", "c": c, "until": "Z", "timeout_ms": 2000, "label": "op%d:wake" % k})
        if alive:
            self.steps += q(c, self.sql(c), "op%d:first" % k)
        self.ops.append(("wake", c))
        self.tmo[c] = idle_of(self.inforce)
        self.mark()
        if alive and self.session_mode(c):
            self.keeps.add(c)
        return alive

    def inside(self, c):
        """a statement in the middle of the open transaction (no model op)"""
        self.steps += q(c, self.sql(c), "mid:%s" % c)

    def end(self, c):
        k = len(self.ops)
        if c in self.keeps:
            self.steps += q(c, "COMMIT", "keep:%s" % c)
            return
        self.steps += q(c, "COMMIT", "op%d:commit" % k)
        self.ops.append(("end", c))
        self.mark()

    def txn(self, c):
        self.begin(c)
        self.end(c)

    def disconnect(self, c):
        self.steps.append({"op": "close", "c": c})
        self.ops.append(("disconnect", c))
        self.mark(15)

    def admin_show(self, label):
        self.steps += q("admq", "SHOW DATABASES", label + ":databases") + q("admq", "SHOW POOLS", label + ":pools") + q("admq", "SHOW CONFIG", label + ":config")

    def reload(self, i):
        f = self.case["files"][i]
        k = len(self.ops)
        if f.get("revive"):
            self.steps.append({"op": "backend", "b": "bd", "mode": "normal"})
            self.steps.append({"op": "sleep", "ms": 30})
        t = file_text(f)
        if not (i == 1 and f.get("revive")):
            self.steps.append({"op": "delete_config"} if t is None else {"op": "write_config", "toml": t})
        self.steps.append({"op": "reload_state", "label": "pre%d" % k})
        trig = self.case["trigger"]
        slow = 350 if f.get("dead") else 0
        if trig == "direct":
            self.steps.append({"op": "reload_guarded", "label": "op%d" % k})
        elif trig == "admin":
            self.admin_show("pre%d" % k)
            a = "adm%d" % self.nadm
            self.nadm += 1
            self.steps.append({"op": "connect", "c": a, "params": {"user": "admin", "database": "pgcat"}, "password": "adminpw"})
            self.steps += q(a, "RELOAD", "op%d:reload" % k)
            self.steps.append({"op": "close", "c": a})
        else:
            self.steps.append({"op": "control", "sig": "hup"})
            self.steps.append({"op": "sleep", "ms": 70 + slow})
        self.ops.append(("reload", i))
        if f["kind"] == "valid" and not f.get("dead"):
            self.inforce = f["sem"]     # a file whose pools cannot be built is not in force; the retry with the server back is
        self.mark(10)
        if trig == "admin":
            self.admin_show("post%d" % k)


def build_script(case):
    s = Script(case)
    base = BASES[case["base"]]
    s.steps.append({"op": "connect", "c": "admq", "params": {"user": "admin", "database": "pgcat"}, "password": "adminpw"})
    s.steps.append({"op": "reload_state", "label": "start"})
    apool = "ps" if case["base"] in ("H", "HP", "HQ") else "pa"
    cl = [("A", apool, "u", "pw"), ("B", "pb", "u", "pw")]
    if case["base"] == "B":
        cl.append(("V", "pa", "v", "pwv"))
    for c, db, usr, pw in cl:
        s.connect(c, db, usr, pw)
    t = case["timing"]
    hold = case["extra"].get("hold")
    if hold and t == "inside":
        t = "between"
    s.timing = t
    if t == "between":
        for c, _, _, _ in cl:
            s.txn(c)
    elif t == "inside":
        for c, _, _, _ in cl[1:]:
            s.txn(c)
        s.begin("A")
    for db, usr in case["extra"].get("pause", []):
        s.pause(db, usr)
    if case["extra"].get("ban"):
        s.ban_host(case["extra"]["ban"])
    if case["extra"].get("sweep") and t != "inside":
        s.sweep("A", "pre")
    if case["extra"].get("probe") and t != "inside":
        s.probes("A", "pre")
    if hold:
        s.pause(*hold)
        s.hold_begin("A")
    s.reload(0)
    idle = case["extra"].get("idle")
    if hold:
        s.pause(hold[0], hold[1], "RESUME")
        s.hold_removed = hold not in keys_of(s.inforce)
        if s.wake("A"):
            if case["extra"].get("idle_after_wake") and s.idle("A", idle):
                pass                         # the held transaction started under the NEW, lower timeout: over
            else:
                s.end("A")
    if t == "inside":
        if idle:
            # one more statement after the reload (the wait that was in progress during the reload ends here), THEN the silence,
            # then another statement and COMMIT: every wait of the transaction runs under the timeout it started with
            s.inside("A")
            if s.idle("A", idle):
                s.straddle_timeout = True    # it started under the OLD, lower timeout: over, by the old rules
            else:
                s.inside("A")
                s.end("A")
        else:
            s.inside("A")
            s.end("A")
    for db, usr in case["extra"].get("pause", []):
        s.pause(db, usr, "RESUME")           # nothing to resume if the pool is gone; a kept one must not stay paused
    # new connections after the reload: a pool that exists only if it was added; the pools of the base
    new1 = case["files"][0]["sem"]
    s.connect("C", "pc", "u", "pw")
    s.connect("B2", "pb", "u", "pw")
    extra_live = []
    if case["extra"].get("sweep") or case["extra"].get("probe"):
        s.connect("N", apool, "u", "pw")         # a NEW session, to compare the old one with
        extra_live.append("N")
        for c_ in ("A", "N"):
            if case["extra"].get("probe"):
                s.probes(c_, "post")             # the very first statements after the reload
                if c_ == "A":
                    s.steps += q("A", "SELECT 'A_warm'", "probe:warm")     # one served statement = one checkout since the reload
                    s.probes("A", "post2")
            if case["extra"].get("sweep"):
                s.sweep(c_, "post")
    auth = case["extra"].get("auth")
    if auth:
        s.probe_connect("A3", auth[0], auth[1], auth[3])     # old password: must be refused once the new file is in effect
        s.connect("A2", auth[0], auth[1], auth[2])           # new password
    live = [c for c, _, _, _ in cl] + ["C", "B2"] + (["A2"] if auth else []) + extra_live
    if idle:
        s.begin("A")                         # a NEW transaction: the value of the file now in force applies
        if not s.idle("A", idle):
            s.end("A")
    for n_, (db, usr) in enumerate(case["extra"].get("pause", [])):
        pw = {"u": "pw", "v": "pwv"}[usr]
        s.connect("R%d" % n_, db, usr, pw)   # a new login of the removed user after RESUME
        live.append("R%d" % n_)
    for c in live:
        s.txn(c)
    s.reload(1)
    for c in live:
        s.txn(c)
    for c in live:
        s.disconnect(c)
    return s


def scenario(case):
    s = build_script(case)
    old = render(BASES[case["base"]], case.get("old_style", 0))
    bl = [{"name": b, **({"mode": "down_held"} if b == "bd" else {})} for b in BACKENDS]
    if case["base"] in ("H", "HP", "HQ"):
        bl += [{"name": b, **({"host": HOST[b]} if b in HOST else {})} for b in SHARD_BACKENDS]
    return {"backends": bl, "toml": old, "steps": s.steps, "workers": 2}, s


# ------------------------------------------------------------------------------------ the model side

def coq_cfg(sem, ids):
    ps = []
    for n in sorted(sem["pools"], key=lambda x: DBID[x]):
        p = sem["pools"][n]
        pd = ids["pdef"].setdefault(canon_pool(p, n), 10 + len(ids["pdef"]))
        ps.append("(%d, (%d, [%s]))" % (DBID[n], pd, "; ".join(str(USERID[u["username"]]) for u in p["users"])))
    g = ids["gen"].setdefault(canon_general(sem), 1 + len(ids["gen"]))
    return "{| cgen := %d; cidle := %d; cpools := [%s] |}" % (g, idle_of(sem), "; ".join(ps))


def build_fails(f, bd_down):
    """(pool, user) pairs whose bb8 build() returns Err: validate_config, min_pool_size >= 1 and a server that refuses connections"""
    out = []
    sem = f["sem"]
    g = dict(GEN_BASE); g.update(sem.get("general", {}))
    if not g.get("validate_config"):
        return out
    for n, p in sem["pools"].items():
        if "bd" in backends_of(sem, n) and bd_down:
            for u in p["users"]:
                if (u.get("min_pool_size") or 0) >= 1:
                    out.append((DBID[n], USERID[u["username"]]))
    return out


def coq_ops(case, script):
    ids = {"pdef": {}, "gen": {}}
    cid = {}
    out = ["OReload (Valid %s (bo_of [] []))" % coq_cfg(BASES[case["base"]], ids)]
    bd_down = True
    for o in script.ops:
        if o[0] == "reload":
            f = case["files"][o[1]]
            if f.get("revive"):
                bd_down = False
            if f["kind"] == "unreadable":
                out.append("OReload Unreadable")
            elif f["kind"] == "toml":
                out.append("OReload TomlError")
            elif f["kind"] == "validate":
                out.append("OReload (Invalid 0)")
            else:
                fails = build_fails(f, bd_down)
                out.append("OReload (Valid %s (bo_of [%s] []))" % (coq_cfg(f["sem"], ids), "; ".join("(%d, %d)" % k for k in fails)))
        elif o[0] == "connect":
            c = cid.setdefault(o[1], len(cid))
            out.append("OConnect %d %d %d" % (c, DBID[o[2]], USERID[o[3]]))
        else:
            if o[0] in ("pause", "resume"):
                out.append("%s (%d, %d)" % ("OPause" if o[0] == "pause" else "OResume", DBID[o[1]], USERID[o[2]]))
                continue
            if o[0] == "ban":
                out.append("OBan (%d, %d) %d" % (DBID[o[1]], USERID[o[2]], o[3]))
                continue
            c = cid.setdefault(o[1], len(cid))
            if o[0] == "idle":
                out.append("OIdle %d %d" % (c, o[2]))
                continue
            out.append("%s %d" % ({"begin": "OBegin", "end": "OEnd", "disconnect": "ODisconnect", "wake": "OWake"}[o[0]], c))
    return "trace2 idh empty_world [%s]" % "; ".join(out), ids, cid


PREAMBLE = "From Coq Require Import List. Import ListNotations.\nFrom PV Require Import Reload.Model.\n"


def model_traces(cases_scripts):
    exprs, meta = [], []
    for case, script in cases_scripts:
        e, ids, cid = coq_ops(case, script)
        exprs.append(e); meta.append((ids, cid))
    vals = vlib.coq_eval("c14_eval", PREAMBLE, exprs, shard=6)
    out = []
    for v, (ids, cid) in zip(vals, meta):
        steps = []
        for x in vlib.parse_coq(v):
            kind, a, b, c, view, objs, (cidle, mpaused, mbans) = x      # Coq prints left-nested tuples flat
            gen, cpools, pools, servers = view
            steps.append({"obs": (kind, a, b, c), "gen": gen, "cpools": [(d, pd, tuple(us)) for d, (pd, us) in cpools],
                          "pools": [tuple(p) for p in pools], "servers": [tuple(s) for s in servers], "objs": [tuple(o) for o in objs],
                          "cidle": cidle, "paused": sorted(tuple(k) for k in mpaused), "bans": sorted(tuple(k) for k in mbans)})
        out.append({"steps": steps, "ids": ids, "cid": cid})
    return out


# ------------------------------------------------------------------------------------ reading the implementation's trace

def nopool(frames):
    return any(f.get("t") == "E" and "No pool configured" in (f.get("fields", {}).get("M") or "") for f in frames)


def read_impl(case, script, res):
    """per abstract op: observation + state at the marker after it"""
    ev = res["events"]
    marks = {e["label"]: e for e in ev if e.get("ev") == "reload_state"}
    recvs = {e["label"]: e for e in ev if e.get("ev") == "recv" and e.get("label")}
    starts = {e["who"]: e for e in ev if e.get("ev") == "startup_done"}
    reloads = {e.get("label"): e for e in ev if e.get("ev") == "reload" and e.get("label")}
    order = []   # canonical server ids: order of `open` events
    opened_at, closed_at = {}, {}
    for e in ev:
        if e.get("ev") == "open" and e["who"] in ALLB:
            order.append((e["who"], e["conn"])); opened_at[(e["who"], e["conn"])] = e["seq"]
        if e.get("ev") == "close" and e["who"] in ALLB:
            closed_at[(e["who"], e["conn"])] = e["seq"]
    sid = {k: i for i, k in enumerate(order)}
    out = []
    dead_clients = set()
    prev_seq = marks["start"]["seq"]
    for k, o in enumerate(script.ops):
        m = marks.get("op%d" % k)
        if m is None:
            return None, "marker op%d missing" % k
        seq = m["seq"]
        ob = {"state": m["state"], "seq": seq, "prev": prev_seq,
              "open": sorted(sid[c] for c in order if opened_at[c] < seq and closed_at.get(c, 1 << 60) > seq)}
        if o[0] == "reload":
            trig = case["trigger"]
            if trig == "direct":
                r = reloads["op%d" % k]["result"]
                ob["obs"] = ("reload", 3 if r == "panic" else 2 if r == "Ok(true)" else 1 if r == "Ok(false)" else 0, r)
            elif trig == "admin":
                e = recvs.get("op%d:reload" % k)
                fr = e["frames"] if e else []
                okc = any(f.get("t") == "C" and f.get("tag") == "RELOAD" for f in fr)
                ob["obs"] = ("reload", "ok" if okc else "err", e["outcome"] if e else None)
            else:
                ob["obs"] = ("reload", None, None)
            ob["pre"] = marks["pre%d" % k]["state"]
            ob["pre_seq"] = marks["pre%d" % k]["seq"]
            ob["admin"] = {w: {x: [f.get("cols") for f in recvs["%s%d:%s" % (w, k, x)]["frames"] if f.get("t") == "D"] for x in ("databases", "pools", "config")}
                           for w in ("pre", "post") if "%s%d:databases" % (w, k) in recvs}
        elif o[0] == "connect":
            e = starts.get(o[1])
            if e is None:
                ob["obs"] = ("connect", "none")
            elif e.get("auth_ok") and e.get("outcome") == "ok" and any(f.get("t") == "Z" for f in e["frames"]):
                ob["obs"] = ("connect", "ok")
            elif nopool(e["frames"]):
                dead_clients.add(o[1])
                ob["obs"] = ("connect", "nopool")
            else:
                dead_clients.add(o[1])
                msg = [f.get("fields", {}).get("M") for f in e["frames"] if f.get("t") == "E"]
                ob["obs"] = ("connect", "refused", msg)
        elif o[0] in ("begin", "wake"):
            b, f = recvs.get("op%d:%s" % (k, o[0])), recvs.get("op%d:first" % k)
            bf = b["frames"] if b else []
            ff = f["frames"] if f else []
            if o[1] in dead_clients:
                ob["obs"] = ("begin", "gone", "never connected / already told to go")
            elif nopool(bf):
                dead_clients.add(o[1])
                ob["obs"] = ("begin", "nopool")
            elif not bf and b and b.get("outcome") == "timeout":
                ob["obs"] = ("begin", "held")        # no reply: the client is parked (PAUSE)
            elif not bf:
                ob["obs"] = ("begin", "gone", b["outcome"] if b else None)
            else:
                rows = [x["cols"] for x in ff if x.get("t") == "D"]
                st = [x.get("status") for x in bf + ff if x.get("t") == "Z"]
                errs = [x.get("fields", {}).get("M") for x in bf + ff if x.get("t") == "E"]
                if len(rows) == 1 and st == ["T", "T"] and not errs:
                    key = (rows[0][0], int(rows[0][1]))
                    # a held transaction goes on as soon as RESUME is executed, i.e. in the window of the op before this one
                    since = out[k - 2]["seq"] if (o[0] == "wake" and k >= 2) else prev_seq
                    ob["obs"] = ("begin", "ok", sid.get(key), opened_at.get(key, -1) > since, key, rows[0][2])
                else:
                    ob["obs"] = ("begin", "odd", rows, st, errs)
        elif o[0] == "end":
            e = recvs.get("op%d:commit" % k)
            fr = e["frames"] if e else []
            if not fr or o[1] in dead_clients:
                ob["obs"] = ("end", "gone")
            elif any(x.get("t") == "C" and x.get("tag") == "COMMIT" for x in fr) and [x.get("status") for x in fr if x.get("t") == "Z"] == ["I"]:
                ob["obs"] = ("end", "ok")
            else:
                ob["obs"] = ("end", "odd", [(x.get("t"), x.get("tag"), x.get("fields", {}).get("M")) for x in fr])
        elif o[0] == "idle":
            e = recvs.get("op%d:idle" % k)
            fr = e["frames"] if e else []
            if o[1] in dead_clients:
                ob["obs"] = ("idle", "gone")
            elif any(x.get("t") == "E" and "idle transaction timeout" in (x.get("fields", {}).get("M") or "") for x in fr):
                ob["obs"] = ("idle", "timeout")
            elif not fr:
                ob["obs"] = ("idle", "quiet", e["outcome"] if e else None)
            else:
                ob["obs"] = ("idle", "odd", [(x.get("t"), x.get("fields", {}).get("M")) for x in fr])
        elif o[0] == "ban":
            ob["obs"] = ("ban", "ok")
        elif o[0] in ("pause", "resume"):
            e = recvs.get("op%d:admin" % k)
            fr = e["frames"] if e else []
            okc = any(x.get("t") == "C" and (x.get("tag") or "").upper().startswith(o[0].upper()) for x in fr)
            ob["obs"] = (o[0], "ok" if okc else "refused", [x.get("fields", {}).get("M") for x in fr if x.get("t") == "E"])
        else:
            ob["obs"] = ("disconnect",)
        out.append(ob)
        prev_seq = seq
    return out, None


# ------------------------------------------------------------------------------------ differential

class Bij:
    def __init__(self):
        self.f, self.g = {}, {}

    def ok(self, a, b):
        if a in self.f or b in self.g:
            return self.f.get(a) == b and self.g.get(b) == a
        self.f[a] = b; self.g[b] = a
        return True


def compare(case, script, model, impl, warm):
    """first disagreement between the model's trace and the implementation's, or None"""
    ms = model["steps"][1:]       # step 0 = start-up
    if len(ms) != len(impl):
        return "length %d vs %d" % (len(ms), len(impl))
    hb, gb, ob_ = Bij(), Bij(), Bij()   # hash<->pdef id, general digest<->gen id, impl obj<->model pool id
    rev_cid = {v: k for k, v in model["cid"].items()}

    def check_store(mstep, state, what):
        c = state["config"]
        if not gb.ok(c["general"], mstep["gen"]):
            return "%s: CONFIG general section: implementation digest %s vs model gen %d (map %s)" % (what, c["general"], mstep["gen"], gb.f)
        ic = sorted((DBID.get(p["name"], -1), p["hash"], tuple(sorted(USERID.get(u, -1) for u in p["users"]))) for p in c["pools"])
        mc = sorted((d, pd, tuple(sorted(us))) for d, pd, us in mstep["cpools"])
        if [(d, us) for d, _, us in ic] != [(d, us) for d, _, us in mc]:
            return "%s: CONFIG pools %s vs model %s" % (what, ic, mc)
        for (d, h, _), (_, pd, _) in zip(ic, mc):
            if not hb.ok(h, pd):
                return "%s: CONFIG pool %d hash %s vs model definition %d (map %s)" % (what, d, h, pd, hb.f)
        ip = sorted((DBID.get(p["db"], -1), USERID.get(p["user"], -1), p["hash"], p["obj"]) for p in state["pools"])
        mp = sorted(mstep["pools"])
        if [(d, u) for d, u, _, _ in ip] != [(d, u) for d, u, _, _ in mp]:
            return "%s: POOLS keys %s vs model %s" % (what, [(d, u) for d, u, _, _ in ip], [(d, u) for d, u, _, _ in mp])
        for (d, u, h, o), (_, _, mh, mo) in zip(ip, mp):
            if not hb.ok(h, mh):
                return "%s: POOLS (%d,%d) hash %s vs model %d" % (what, d, u, h, mh)
            if not ob_.ok(o, mo):
                return "%s: POOLS (%d,%d) is pool object #%d vs model object %d (map %s)" % (what, d, u, o, mo, ob_.f)
        return None

    d = check_store(model["steps"][0], impl[0]["start"], "start-up")
    if d:
        return d
    for k, (m, i, o) in enumerate(zip(ms, impl, script.ops)):
        kind, a, b, c = m["obs"]
        io = i["obs"]
        what = "op %d %s" % (k, o)
        if o[0] == "reload":
            if io[1] is None:
                pass
            elif io[1] in ("ok", "err"):
                if (io[1] == "ok") != (a in (1, 2)):
                    return "%s: admin RELOAD answered %s, model result code %d" % (what, io, a)
            elif io[1] != a:
                return "%s: reload_config returned %s, model result code %d (0 Err, 1 Ok(false), 2 Ok(true), 3 panic)" % (what, io[2], a)
            d = check_store(m, i["state"], what)
            if d:
                return d
        elif o[0] == "connect":
            exp = {1: "ok", 2: "nopool", 6: "nop"}.get(kind)
            if io[1] != exp:
                return "%s: connect %s, model %s" % (what, io, exp)
        elif o[0] in ("begin", "wake"):
            if kind == 6 and o[0] == "wake" and io[1] == "nopool":
                pass      # told "No pool configured" at the reload that removed the pool (the model delivers it at this step: kind 2)
            elif kind == 2:
                if io[1] != "nopool":
                    return "%s: model says 'No pool configured', implementation %s" % (what, io)
            elif kind == 6:
                if io[1] != "gone":
                    return "%s: model says the client is gone, implementation %s" % (what, io)
            elif kind == 9:
                if io[1] != "held":
                    return "%s: model says the first statement is held by PAUSE, implementation %s" % (what, io)
            elif io[1] == "held":
                return "%s: the first statement got no reply (held), model %s" % (what, (kind, a, b, c))
            elif kind == 3:
                if io[1] != "ok":
                    return "%s: model says the transaction starts on server %d, implementation %s" % (what, b, io)
                if not warm and (io[2] != b or bool(io[3]) != (c == 1)):
                    return "%s: transaction started on server connection #%s (new=%s), model: #%d (new=%s)" % (what, io[2], io[3], b, c == 1)
        elif o[0] == "end":
            exp = {4: "ok", 6: "gone"}.get(kind)
            if io[1] != exp:
                return "%s: COMMIT %s, model %s" % (what, io, exp)
        elif o[0] == "idle":
            exp = {7: ("quiet",), 8: ("timeout",), 6: ("gone", "quiet")}.get(kind, ())
            if io[1] not in exp:
                return "%s: after %d ms of silence inside the transaction: %s, model %s (7 nothing, 8 idle transaction timeout, 6 no transaction)" % (what, o[2], io, kind)
        elif o[0] in ("pause", "resume"):
            if (io[1] == "ok") != (kind == 10 and a == 1):
                return "%s: admin %s answered %s, model %s" % (what, o[0].upper(), io, (kind, a))
        ip_ = sorted((DBID.get(p_["db"], -1), USERID.get(p_["user"], -1)) for p_ in i["state"]["pools"] if p_.get("paused"))
        if ip_ != m["paused"]:
            return "%s: paused pools %s, model %s" % (what, ip_, m["paused"])
        if not (o[0] == "ban" and k + 1 < len(script.ops) and script.ops[k + 1][0] == "ban"):
            # (one admin BAN = several model ops: compare when the last of them is done)
            ib = sorted((ob_.f[p_["obj"]], b_[0] * 10 + b_[1]) for p_ in i["state"]["pools"] if p_["obj"] in ob_.f for b_ in p_.get("bans", []))
            mb = sorted(x for x in m["bans"] if x[0] in ob_.g and any(p_["obj"] == ob_.g[x[0]] for p_ in i["state"]["pools"]))
            if ib != mb:
                return "%s: ban lists of the registered pool objects %s, model %s" % (what, ib, mb)
        if o[0] == "reload" and i["state"]["config"].get("idle_client_in_transaction_timeout") != m["cidle"]:
            return "%s: CONFIG idle_client_in_transaction_timeout %s, model %s" % (what, i["state"]["config"].get("idle_client_in_transaction_timeout"), m["cidle"])
        parked = case["extra"].get("hold") and ("begin", "A") in script.ops[:k + 1] and ("wake", "A") not in script.ops[:k + 1] \
            and ("pause", "pa", "u") in script.ops[:k + 1]
        if parked and (o[0] == "resume" or (script.hold_removed and any(x[0] == "reload" for x in script.ops[:k + 1]))):
            continue      # RESUME (or the reload that removes the pool) wakes the waiter at once; in the model its going on is its own next step
        if not warm:
            mo = sorted(s[0] for s in m["servers"])
            if mo != i["open"]:
                return "%s: open server connections %s, model %s" % (what, i["open"], mo)
        # live clones of every pool object the implementation has shown so far
        mobj = dict(m["objs"])
        for x in i["state"]["objects"]:
            if x["obj"] in ob_.f:
                mc = mobj.get(ob_.f[x["obj"]])
                if mc is not None and mc != x["clones"]:
                    return "%s: pool object #%d (%s) has %d live clones, model %d" % (what, x["obj"], x["id"], x["clones"], mc)
    return None


# ------------------------------------------------------------------------------------ monitors (no model involved)

def probe_expect(sem, pr):
    """what the file says about a probe statement on pool ps: ("denied",) | ("served", set of allowed backends) | ("same",)"""
    import re
    pl = sem["pools"]["ps"]
    o = dict(POOL_BASE); o.update(pl.get("opts", {}))
    shs = sorted(pl["shards"], key=lambda x: int(x["key"]))
    kind, _, arg = pr.partition(":")
    if kind == "table":
        raw = pl.get("raw") or ""
        on = o.get("query_parser_enabled") and "table_access" in raw and re.search(r"enabled = true", raw)
        tables = re.findall(r'"([a-z]+)"', (re.search(r"tables = \[(.*?)\]", raw) or [None, ""])[1]) if raw else []
        if on and arg in tables:
            return ("denied",)
        return ("served", {b for sh in shs for b, _ in sh["servers"]})
    ds = o.get("default_shard", "shard_0")
    k = int(ds.split("_")[1]) if ds.startswith("shard_") else 0
    srv = shs[min(k, len(shs) - 1)]["servers"]
    split = o.get("query_parser_enabled") and o.get("query_parser_read_write_splitting")
    if kind == "write":
        return ("served", {b for b, r in srv if r == "primary"}) if split else ("served", {b for b, r in srv if o.get("default_role") in ("any", r)})
    if kind == "role":
        if split:
            return ("served", {b for b, r in srv if r == "replica"} if not o.get("primary_reads_enabled") else {b for b, _ in srv})
        return ("served", {b for b, r in srv if o.get("default_role") in ("any", r)})
    return ("same", {b for sh in shs for b, _ in sh["servers"]})


def option_monitors(case, script, res, impl):
    """(a) every shard of the new definition serves, from the old session and from a new one; (b) statements whose outcome depends on a pool
    option behave by the file in force, in the OLD session exactly as in a new one; bans stay with the pool object"""
    V = []
    ev = res["events"]
    recvs = {e["label"]: e for e in ev if e.get("ev") == "recv" and e.get("label")}
    msgs = [e for e in ev if e.get("ev") == "msg" and e.get("who") in ALLB and e.get("tag") == "Q"]
    r0 = next((i for o, i in zip(script.ops, impl) if o[0] == "reload"), None)
    f0 = case["files"][0]
    if r0 is None or f0["kind"] != "valid" or f0.get("dead") or r0["obs"][1] in (0, "err", 3):
        return V, {}
    new = f0["sem"]
    if "ps" not in new["pools"]:
        return V, {}
    shs = sorted(new["pools"]["ps"]["shards"], key=lambda x: int(x["key"]))
    info = {"sweeps": 0, "probes": 0, "keys_rerouted": 0}

    def answered_by(label, marker=None):
        e = recvs.get(label)
        fr = e["frames"] if e else []
        errs = [x.get("fields", {}).get("M") for x in fr if x.get("t") == "E"]
        rows = [x["cols"] for x in fr if x.get("t") == "D"]
        who = rows[0][0] if rows else None
        if who is None and marker:
            hit = [m["who"] for m in msgs if marker in ((m.get("detail") or {}).get("sql") or "")]
            who = hit[0] if hit else None
        return who, errs, (e["outcome"] if e else "missing"), bool(fr)

    for c in ("A", "N"):
        for k in range(len(shs)):
            lab = "sweep:post:%s:%d" % (c, k)
            if lab not in recvs:
                continue
            info["sweeps"] += 1
            who, errs, outc, any_ = answered_by(lab)
            allowed = {b for b, _ in shs[k]["servers"]}
            if who not in allowed or errs:
                V.append(("S3", "%s: after the reload the %s session's statement on shard %d of pool ps got %s (errors %s, %s); the file names %s for that shard"
                                % (case["name"], "OLD" if c == "A" else "new", k, who, errs, outc, sorted(allowed))))
    shard_of = lambda b: b[1] if (b and b[0] == "h") else b
    old_o = dict(POOL_BASE); old_o.update(BASES[case["base"]]["pools"]["ps"].get("opts", {}))
    new_o = dict(POOL_BASE); new_o.update(new["pools"]["ps"].get("opts", {}))
    for pr in case["extra"].get("probe", []):
        exp = probe_expect(new, pr)
        got = {}
        for c, rnd in (("A", "post"), ("A", "post2"), ("N", "post")):
            lab = "probe:%s:%s:%s" % (rnd, c, pr)
            if lab not in recvs:
                continue
            info["probes"] += 1
            who, errs, outc, any_ = answered_by(lab, "'%s_p%s%s'" % (c, rnd, pr.replace(":", "")))
            g = "denied" if (errs and who is None) else who
            got[(c, rnd)] = g
            sess = {"post": "first statement of the OLD session", "post2": "OLD session (after one served statement)"}[rnd] if c == "A" else "new session"
            bad = None
            if exp[0] == "denied":
                if g != "denied":
                    bad = "%s: probe %s, %s after the reload: answered by %s; the file in force denies it (table_access)" % (case["name"], pr, sess, who)
            elif exp[0] == "served" and g not in exp[1]:
                bad = "%s: probe %s, %s after the reload: %s (errors %s, %s); by the file in force it is served by one of %s" % (case["name"], pr, sess, g, errs, outc, sorted(exp[1]))
            elif exp[0] == "same" and g not in exp[1]:
                bad = "%s: probe %s, %s after the reload: %s (errors %s, %s)" % (case["name"], pr, sess, g, errs, outc)
            if bad:
                splitting = new_o.get("query_parser_enabled") and new_o.get("query_parser_read_write_splitting")
                if c == "A" and pr == "role" and not splitting and old_o.get("default_role") != new_o.get("default_role"):
                    # class D4: old session x default_role changed x role not inferred by the parser x no SET SERVER ROLE (the scripts never send one)
                    info.setdefault("d4", []).append(bad)
                elif c == "A" and rnd == "post":
                    info.setdefault("d3", []).append(bad)                 # regression of D3: judged by the settings of the previous checkout
                else:
                    V.append(("S3", bad))
        if exp[0] == "same":
            for rnd in ("post", "post2"):
                a_, n_ = got.get(("A", rnd)), got.get(("N", "post"))
                if a_ and n_ and shard_of(a_) != shard_of(n_):
                    msg = "%s: probe %s: the OLD session (%s) is routed to shard of %s, a new session to %s (sharding function / shard count of the file in force)" % (case["name"], pr, rnd, a_, n_)
                    if rnd == "post" and pr == case["extra"]["probe"][0]:
                        info.setdefault("d3", []).append(msg)             # regression of D3: the first custom command since the reload
                    else:
                        V.append(("S3", msg))
            pre = answered_by("probe:pre:A:%s" % pr, "'A_ppre%s'" % pr.replace(":", ""))[0]
            if pre and got.get(("A", "post2")) and shard_of(pre) != shard_of(got[("A", "post2")]):
                info["keys_rerouted"] += 1
    # bans stay with the object: a rebuilt pool starts with none, a kept one keeps its list
    pre_p = {(p["db"], p["user"]): p for p in r0["pre"]["pools"]}
    for p in r0["state"]["pools"]:
        q_ = pre_p.get((p["db"], p["user"]))
        if q_ is None or q_["obj"] != p["obj"]:
            if p.get("bans"):
                V.append(("S2", "%s: pool %s@%s was built by this reload and starts with bans %s" % (case["name"], p["user"], p["db"], p["bans"])))
        elif p.get("bans") != q_.get("bans"):
            V.append(("S2", "%s: pool %s@%s was kept by the reload but its ban list changed %s -> %s" % (case["name"], p["user"], p["db"], q_.get("bans"), p.get("bans"))))
    return V, info


def cmp_rows(rows):
    # SHOW DATABASES: name host port database force_user pool_size min_pool_size reserve_pool pool_mode max_connections current_connections paused disabled
    return sorted(tuple(r[:10]) + tuple(r[11:]) for r in rows)


def monitors(case, script, res, impl):
    """violations of the property's sentences, evaluated on the implementation's observations only.
    Returns (violations, f12_hits)."""
    V, f12 = [], []
    ports = res.get("ports", {})
    ev = res["events"]
    cur = BASES[case["base"]]              # the last file that was accepted AND built, according to the file kinds only
    last_valid = cur
    own = {}                               # client -> backends it may ever be served by
    for k, (o, i) in enumerate(zip(script.ops, impl)):
        if o[0] != "reload":
            continue
        f = case["files"][o[1]]
        pre, post = i["pre"], i["state"]
        win = [e for e in ev if i["pre_seq"] < e["seq"] < i["seq"] and e.get("who") in ALLB and e.get("ev") in ("open", "close")]
        res_ok = i["obs"][1] in (1, 2, "ok")
        if f["kind"] != "valid" or f.get("dead"):
            # S1: invalid file (or, F12 regression, a file whose pools cannot be built) => Err, configuration, pools and server connections as they were
            if i["obs"][1] not in (0, "err", None):
                V.append(("S1", "reload of an invalid file (%s) did not fail: %s" % (case["name"], i["obs"])))
            if pre["config"] != post["config"]:
                V.append(("S1", "invalid file (%s) changed CONFIG: %s -> %s" % (case["name"], pre["config"], post["config"])))
            if pre["pools"] != post["pools"]:
                V.append(("S1", "invalid file (%s) changed POOLS: %s -> %s" % (case["name"], pre["pools"], post["pools"])))
            if pre["objects"] != post["objects"]:
                V.append(("S1", "invalid file (%s) changed the pool objects / their clones: %s -> %s" % (case["name"], pre["objects"], post["objects"])))
            if win:
                V.append(("S1", "invalid file (%s): server connections opened/closed during the reload: %s" % (case["name"], [(e["who"], e["conn"], e["ev"]) for e in win])))
            ad = i.get("admin") or {}
            if "pre" in ad and "post" in ad:
                for x in ("databases", "config"):
                    a, b = ad["pre"][x], ad["post"][x]
                    if (cmp_rows(a) if x == "databases" else sorted(map(tuple, a))) != (cmp_rows(b) if x == "databases" else sorted(map(tuple, b))):
                        V.append(("S1", "invalid file (%s): SHOW %s differs after the failed RELOAD" % (case["name"], x.upper())))
            continue
        new = f["sem"]
        # S2: pools whose definition did not change keep their pool object and their server connections
        oldh = {p["name"]: p["hash"] for p in pre["config"]["pools"]}
        newh = {p["name"]: p["hash"] for p in post["config"]["pools"]}
        pre_p = {(p["db"], p["user"]): p for p in pre["pools"]}
        post_p = {(p["db"], p["user"]): p for p in post["pools"]}
        post_users = {p["name"]: set(p["users"]) for p in post["config"]["pools"]}
        for key, p in pre_p.items():
            # by the implementation's own numbers: the pool object's config_hash equals the hash of its section in the new CONFIG
            same = newh.get(key[0]) == p["hash"] and key[1] in post_users.get(key[0], ())
            if same:
                q_ = post_p.get(key)
                if q_ is None or q_["obj"] != p["obj"]:
                    V.append(("S2", "%s: definition of pool %s unchanged but its pool object was replaced (%s -> %s)" % (case["name"], key, p["obj"], q_ and q_["obj"])))
                bs = {ports.get(b) for b in BACKENDS if ports.get(b) in [x["port"] for x in p["servers"]]}
                bad = [(e["who"], e["conn"], e["ev"]) for e in win if ports.get(e["who"]) in bs]
                if bad:
                    V.append(("S2", "%s: pool %s unchanged but its server connections were opened/closed during the reload: %s" % (case["name"], key, bad)))
        # S3: valid file accepted => CONFIG is the new file and POOLS is exactly what it describes
        if i["obs"][1] in (0, "err", 3):
            V.append(("S3", "%s: reload of a valid file failed: %s" % (case["name"], i["obs"])))
        if f.get("revive") and i["obs"][1] in (1,):
            V.append(("S3", "%s: regression of %s: the file whose build had failed is reported 'unchanged' (Ok(false)) by the next reload" % (case["name"], F12)))
        want = {}
        for n, p in new["pools"].items():
            for u in p["users"]:
                want[(n, u["username"])] = (newh.get(n), sorted(ports.get(b) for b in backends_of(new, n)),
                                            (u.get("pool_mode") or p["opts"].get("pool_mode") or "transaction").capitalize(), u["pool_size"], u.get("password"),
                                            u.get("statement_timeout", 0), False)
        have = {key: (p["hash"], sorted(s["port"] for s in p["servers"]), p["mode"], p["pool_size"], p["password"], p.get("statement_timeout", 0),
                      bool(p.get("paused")) and key not in pre_p) for key, p in post_p.items()}
        cfg_is_new = {n: set(us) for n, us in post_users.items()} == {n: {u["username"] for u in p["users"]} for n, p in new["pools"].items()}
        if post["config"].get("idle_client_in_transaction_timeout") != idle_of(new):
            V.append(("S3", "%s: after the reload CONFIG idle_client_in_transaction_timeout = %s, the file says %s" % (case["name"], post["config"].get("idle_client_in_transaction_timeout"), idle_of(new))))
        if want != have or not cfg_is_new:
            msg = "%s: after the reload CONFIG has pools %s; POOLS %s; the file describes %s" % (case["name"], sorted(newh), have, want)
            V.append(("S3", msg + (" [regression of %s]" % F12 if f.get("revive") else "")))
        else:
            cur = new
        last_valid = new if cfg_is_new else last_valid
        ad = i.get("admin") or {}
        if "post" in ad and want == have:
            rows = {(r[0].split("_shard_")[0], r[4]): r for r in ad["post"]["databases"]}
            for key, w in want.items():
                r = rows.get(key)
                if r is None or int(r[2]) not in w[1] or r[5] != str(w[3]) or r[8].capitalize() != w[2]:
                    V.append(("S3", "%s: SHOW DATABASES after RELOAD has %s for %s, the file says %s" % (case["name"], r, key, w)))
            if set(rows) != set(want):
                V.append(("S3", "%s: SHOW DATABASES lists %s, the file has %s" % (case["name"], sorted(rows), sorted(want))))
    # transaction-level sentences
    msgs = [e for e in ev if e.get("ev") == "msg" and e.get("who") in ALLB]
    # which file is in force at each op (by the implementation's own CONFIG/POOLS agreement) is not needed here:
    # S5 uses only "the backends any definition of the client's pool ever named"
    ever = {}
    for sem in [BASES[case["base"]]] + [f["sem"] for f in case["files"] if f.get("sem") and f["kind"] == "valid"]:
        for n in sem["pools"]:
            ever.setdefault(n, set()).update(backends_of(sem, n))
    for e in msgs:
        sqltext = (e.get("detail") or {}).get("sql") or ""
        for c, (db, usr) in script.clients.items():
            if "'%s_" % c in sqltext and e["who"] not in ever.get(db, set()):
                V.append(("S5", "%s: a statement of client %s (pool %s) reached backend %s, which no definition of that pool names: %s" % (case["name"], c, db, e["who"], sqltext)))
    # S4: the transaction that straddles the reload
    # S4b: silences inside an open transaction.  By the files alone: the transaction times out iff the timeout of the file in
    # force when it STARTED is non-zero and below the silence; a reload in between changes nothing for it.
    tmo_at = {}
    inforce = BASES[case["base"]]
    for k, (o, i) in enumerate(zip(script.ops, impl)):
        if o[0] == "reload":
            f = case["files"][o[1]]
            if f["kind"] == "valid" and not f.get("dead") and i["obs"][1] not in (0, "err", 3):
                inforce = f["sem"]
        elif o[0] in ("begin", "wake") and i["obs"][1] == "ok":
            tmo_at[o[1]] = idle_of(inforce)
        elif o[0] == "idle" and o[1] in tmo_at and i["obs"][1] in ("quiet", "timeout", "odd"):
            t = tmo_at[o[1]]
            exp = "timeout" if (t and t <= o[2]) else "quiet"
            if i["obs"][1] != exp:
                V.append(("S4", "%s: client %s was silent for %d ms inside a transaction that started under idle_client_in_transaction_timeout = %d "
                                "(file in force now: %d): expected %s, got %s" % (case["name"], o[1], o[2], t, idle_of(inforce), exp, i["obs"])))
    # S5b: nobody is admitted for a (pool, user) that is not in the file in force, paused or not
    inforce = BASES[case["base"]]
    for k, (o, i) in enumerate(zip(script.ops, impl)):
        if o[0] == "reload":
            f = case["files"][o[1]]
            if f["kind"] == "valid" and not f.get("dead") and i["obs"][1] not in (0, "err", 3):
                inforce = f["sem"]
        elif o[0] == "connect" and i["obs"][1] == "ok" and (o[2], o[3]) not in keys_of(inforce):
            V.append(("S5", "%s: client %s was admitted as %s@%s although the file in force has no such pool/user" % (case["name"], o[1], o[3], o[2])))
        elif o[0] == "wake" and i["obs"][1] == "ok" and script.clients[o[1]] in keys_of(inforce) and i["obs"][4][0] not in backends_of(inforce, script.clients[o[1]][0]):
            V.append(("S3", "%s: the transaction of client %s that PAUSE held across the reload was answered by %s; the file in force names %s for its pool"
                            % (case["name"], o[1], i["obs"][4][0], backends_of(inforce, script.clients[o[1]][0]))))
        elif o[0] in ("begin", "wake") and i["obs"][1] == "ok" and script.clients[o[1]] not in keys_of(inforce):
            V.append(("S5", "%s: a transaction of client %s (%s) was served although the file in force has no such pool/user" % (case["name"], o[1], script.clients[o[1]])))
    if script.timing == "inside" and not script.straddle_timeout:
        kb = next(k for k, o in enumerate(script.ops) if o == ("begin", "A"))
        ke = next(k for k, o in enumerate(script.ops) if o == ("end", "A"))
        b, e_ = impl[kb]["obs"], impl[ke]["obs"]
        mid = [x for x in ev if x.get("ev") == "recv" and x.get("label") == "mid:A"]
        if b[1] == "ok":
            rows = [x["cols"] for x in (mid[0]["frames"] if mid else []) if x.get("t") == "D"]
            if len(rows) != 1 or (rows[0][0], int(rows[0][1])) != b[4]:
                V.append(("S4", "%s: the statement after the reload inside A's transaction was answered by %s, the transaction began on %s" % (case["name"], rows, b[4])))
            if e_[1] != "ok":
                V.append(("S4", "%s: COMMIT of the transaction that straddles the reload: %s" % (case["name"], e_)))
            seq_sql = [((m.get("detail") or {}).get("sql") or "", (m.get("state") or {}).get("txn")) for m in msgs if (m["who"], m["conn"]) == b[4] and m.get("tag") == "Q" and m["seq"] > impl[kb]["prev"] and m["seq"] < impl[ke]["seq"]]
            shape = [("B" if t.upper() == "BEGIN" else "C" if t.upper() == "COMMIT" else "S" if "'A_" in t else "?") for t, _ in seq_sql]
            if shape[:1] != ["B"] or shape[-1:] != ["C"] or len(shape) < 4 or set(shape[1:-1]) != {"S"} or [x for _, x in seq_sql] != ["I"] + ["T"] * (len(shape) - 1):
                V.append(("S4", "%s: the straddling transaction did not run BEGIN, its statements, COMMIT on its one server connection %s with the transaction open throughout: %s" % (case["name"], b[4], seq_sql)))
    # S5: a client whose (pool, user) is not in the accepted file gets the error, and nothing of it reaches a backend
    for k, (o, i) in enumerate(zip(script.ops, impl)):
        if o[0] == "begin" and i["obs"][1] == "nopool":
            c = o[1]
            sent0 = [e["seq"] for e in ev if e.get("ev") == "sent" and e.get("who") == c and i["prev"] < e["seq"] < i["seq"]]
            t0_ = sent0[0] if sent0 else i["prev"]       # from the moment this client's BEGIN left (session-mode clients of other pools may talk before it)
            later = [m for m in msgs if m["seq"] > t0_ and m.get("tag") in ("Q", "P", "B", "E", "S") and ("'%s_" % c in ((m.get("detail") or {}).get("sql") or "") or m["seq"] < i["seq"])]
            if later:
                V.append(("S5", "%s: client %s was told 'No pool configured' but its statements reached a backend: %s" % (case["name"], c, [(m["who"], m["detail"].get("sql")) for m in later])))
    auth = case["extra"].get("auth")
    if auth:
        a2 = next((i for o, i in zip(script.ops, impl) if o[0] == "connect" and o[1] == "A2"), None)
        a3e = next((e for e in ev if e.get("ev") == "startup_done" and e.get("who") == "A3"), None)
        a3 = {"obs": ("connect", "ok" if (a3e and a3e.get("auth_ok")) else "refused")}
        if a2 and a2["obs"][1] != "ok":
            V.append(("S3", "%s: after the reload a client with the NEW password is refused: %s" % (case["name"], a2["obs"])))
        if a3 and a3["obs"][1] == "ok":
            V.append(("S3", "%s: after the reload a client with the OLD password is still accepted" % case["name"]))
    return V, f12


def stale_mode_hits(case, script, res):
    """D2 (model-free): a pool that pgcat itself reports as session mode hands one server connection from a client that is
    still connected to another client — the first client still runs with the transaction_mode flag of the pool it connected to."""
    import re
    ev = res["events"]
    marks = [e for e in ev if e.get("ev") == "reload_state"]
    left = {e["who"]: e["seq"] for e in ev if e.get("ev") == "closed_by_client"}
    per = {}
    for m in ev:
        if m.get("ev") == "msg" and m.get("who") in ALLB and m.get("tag") == "Q":
            g = re.search(r"'([A-Z][A-Z0-9]*)_\d+'", (m.get("detail") or {}).get("sql") or "")
            if g:
                per.setdefault((m["who"], m["conn"]), []).append((m["seq"], g.group(1)))
    hits = []
    for conn, l in per.items():
        for (s1, c1), (s2, c2) in zip(l, l[1:]):
            if c1 == c2 or left.get(c1, 1 << 60) < s2:
                continue
            before = [x for x in marks if x["seq"] < s2]
            if not before:
                continue
            db, usr = script.clients[c1]
            mode = [p["mode"] for p in before[-1]["state"]["pools"] if (p["db"], p["user"]) == (db, usr)]
            if mode == ["Session"] and script.clients.get(c2) == (db, usr):
                hits.append("%s: pool %s is in session mode, yet server connection %s served client %s and then client %s while %s was still connected" % (case["name"], db, conn, c1, c2, c1))
    return hits


# ------------------------------------------------------------------------------------ (c) every field of a pool definition matters

FIELD_STRUCTS = ["Pool", "User", "Shard", "ServerConfig", "MirrorServerConfig", "Plugins", "Intercept", "TableAccess", "QueryLogger", "Prewarmer", "Query"]
# fields whose value is not visible in PoolSettings / the addresses (they go into the bb8 builder or the ServerPool manager): for
# these only "Ok(true), new hash, new object" is required
NOT_IN_SETTINGS = {("Pool", "connect_timeout"), ("Pool", "idle_timeout"), ("Pool", "server_lifetime"), ("Pool", "cleanup_server_connections"),
                   ("Pool", "log_client_parameter_status_changes"), ("Pool", "prepared_statements_cache_size")}


def source_fields():
    import re, os
    src = open(os.path.join(vlib.REPO, "src", "config.rs")).read()
    out = []
    for st in FIELD_STRUCTS:
        m = re.search(r"pub struct %s \{(.*?)\n\}" % st, src, re.S)
        if not m:
            return None
        out += [(st, f) for f in re.findall(r"pub (\w+):", m.group(1))]
    return out


def rich_base():
    return {"opts": {"pool_mode": "transaction", "load_balancing_mode": "random", "default_role": "any", "query_parser_enabled": True, "query_parser_max_length": 1000,
                     "query_parser_read_write_splitting": True, "primary_reads_enabled": True, "connect_timeout": 800, "idle_timeout": 500000, "checkout_failure_limit": 5,
                     "server_lifetime": 86000000, "sharding_function": "pg_bigint_hash", "automatic_sharding_key": "t.id", "sharding_key_regex": "sk: (\\d+)",
                     "shard_id_regex": "sid: (\\d+)", "regex_search_limit": 500, "default_shard": "shard_0", "auth_query": "SELECT 1", "auth_query_user": "aq",
                     "auth_query_password": "aqpw", "cleanup_server_connections": True, "log_client_parameter_status_changes": False, "prepared_statements_cache_size": 0,
                     "db_activity_based_routing": False, "db_activity_init_delay": 100, "db_activity_ttl": 900, "table_mutation_cache_ms_ttl": 50},
            "plugins": {"intercept": {"enabled": False, "queries": {"0": {"query": "select 1", "schema": [["a", "text"]], "result": [["1"]]}}},
                        "table_access": {"enabled": False, "tables": ["secret"]}, "query_logger": {"enabled": False}, "prewarmer": {"enabled": False, "queries": ["SELECT 1"]}},
            "users": {"0": {"username": "u", "password": "pw", "auth_type": "md5", "server_username": "su", "server_password": "spw", "pool_size": 3, "min_pool_size": 0,
                            "pool_mode": None, "server_lifetime": 80000000, "statement_timeout": 0, "connect_timeout": 700, "idle_timeout": 400000}},
            "shards": {"0": {"database": "db0", "mirrors": [["127.0.0.1", "b2", 0]], "servers": [["127.0.0.1", "b0", "primary"], ["127.0.0.1", "b1", "replica"]]},
                       "1": {"database": "db1", "mirrors": None, "servers": [["127.0.0.1", "b3", "primary"]]}}}


def render_rich(P):
    out = ["[general]"] + ["%s = %s" % (k, W.toml_val(v)) for k, v in GEN_BASE.items()] + ["", "[pools.pf]"]
    out += ["%s = %s" % (k, W.toml_val(v)) for k, v in P["opts"].items() if v is not None] + [""]
    pg = P.get("plugins")
    if pg is not None:
        out.append("[pools.pf.plugins]")
        for name in ("table_access", "query_logger", "prewarmer", "intercept"):
            x = pg.get(name)
            if x is None:
                continue
            out.append("[pools.pf.plugins.%s]" % name)
            for k, v in x.items():
                if k != "queries" or name != "intercept":
                    out.append("%s = %s" % (k, W.toml_val(v)))
            if name == "intercept":
                for qk, qv in x.get("queries", {}).items():
                    out.append("[pools.pf.plugins.intercept.queries.%s]" % qk)
                    out += ["%s = %s" % (k, W.toml_val(v)) for k, v in qv.items()]
        out.append("")
    for uk, u in P["users"].items():
        out.append("[pools.pf.users.%s]" % uk)
        out += ["%s = %s" % (k, W.toml_val(v)) for k, v in u.items() if v is not None] + [""]
    for sk, sh in P["shards"].items():
        out.append("[pools.pf.shards.%s]" % sk)
        out.append("database = %s" % W.toml_val(sh["database"]))
        out.append("servers = [%s]" % ", ".join('["%s", @PORT:%s@, "%s"]' % (h, b, r) for h, b, r in sh["servers"]))
        if sh.get("mirrors") is not None:
            out.append("mirrors = [%s]" % ", ".join('["%s", @PORT:%s@, %d]' % (h, b, i) for h, b, i in sh["mirrors"]))
        out.append("")
    return "\n".join(out) + "\n"


def field_steps():
    """[(struct, field, mutation)]: each changes exactly that field (cumulatively), every intermediate file is valid"""
    o = lambda k, v: (lambda P: P["opts"].__setitem__(k, v))
    u = lambda k, v: (lambda P: P["users"]["0"].__setitem__(k, v))
    pl = lambda name, k, v: (lambda P: P["plugins"][name].__setitem__(k, v))
    qy = lambda k, v: (lambda P: P["plugins"]["intercept"]["queries"]["0"].__setitem__(k, v))
    S = [("Pool", "pool_mode", o("pool_mode", "session")), ("Pool", "load_balancing_mode", o("load_balancing_mode", "loc")), ("Pool", "default_role", o("default_role", "primary")),
         ("Pool", "query_parser_max_length", o("query_parser_max_length", 2000)), ("Pool", "primary_reads_enabled", o("primary_reads_enabled", False)),
         ("Pool", "connect_timeout", o("connect_timeout", 900)), ("Pool", "idle_timeout", o("idle_timeout", 500001)), ("Pool", "checkout_failure_limit", o("checkout_failure_limit", 6)),
         ("Pool", "server_lifetime", o("server_lifetime", 86000001)), ("Pool", "sharding_function", o("sharding_function", "sha1")),
         ("Pool", "automatic_sharding_key", o("automatic_sharding_key", "t.k")), ("Pool", "sharding_key_regex", o("sharding_key_regex", "sk2: (\\d+)")),
         ("Pool", "shard_id_regex", o("shard_id_regex", "sid2: (\\d+)")), ("Pool", "regex_search_limit", o("regex_search_limit", 501)), ("Pool", "default_shard", o("default_shard", "random")),
         ("Pool", "auth_query", o("auth_query", "SELECT 2")), ("Pool", "auth_query_user", o("auth_query_user", "aq2")), ("Pool", "auth_query_password", o("auth_query_password", "aqpw2")),
         ("Pool", "cleanup_server_connections", o("cleanup_server_connections", False)), ("Pool", "log_client_parameter_status_changes", o("log_client_parameter_status_changes", True)),
         ("Pool", "prepared_statements_cache_size", o("prepared_statements_cache_size", 10)), ("Pool", "db_activity_init_delay", o("db_activity_init_delay", 101)),
         ("Pool", "db_activity_ttl", o("db_activity_ttl", 901)), ("Pool", "table_mutation_cache_ms_ttl", o("table_mutation_cache_ms_ttl", 51)),
         ("Pool", "db_activity_based_routing", o("db_activity_based_routing", True)),
         ("User", "password", u("password", "pw2")), ("User", "auth_type", u("auth_type", "trust")), ("User", "server_username", u("server_username", "su2")),
         ("User", "server_password", u("server_password", "spw2")), ("User", "pool_size", u("pool_size", 4)), ("User", "pool_mode", u("pool_mode", "transaction")),
         ("User", "server_lifetime", u("server_lifetime", 80000001)), ("User", "statement_timeout", u("statement_timeout", 1000)), ("User", "connect_timeout", u("connect_timeout", 701)),
         ("User", "idle_timeout", u("idle_timeout", 400001)), ("User", "username", u("username", "w")),
         ("Shard", "database", lambda P: P["shards"]["0"].__setitem__("database", "db0x")),
         ("Shard", "servers", lambda P: P["shards"]["0"]["servers"].append(["127.0.0.1", "b4", "replica"])),
         ("Shard", "mirrors", lambda P: P["shards"]["0"]["mirrors"].append(["127.0.0.1", "b3", 1])),
         ("ServerConfig", "host", lambda P: P["shards"]["0"]["servers"][1].__setitem__(0, "127.0.0.3")),
         ("ServerConfig", "port", lambda P: P["shards"]["0"]["servers"][1].__setitem__(1, "bd")),
         ("ServerConfig", "role", lambda P: P["shards"]["1"]["servers"][0].__setitem__(2, "replica")),
         ("MirrorServerConfig", "host", lambda P: P["shards"]["0"]["mirrors"][0].__setitem__(0, "127.0.0.3")),
         ("MirrorServerConfig", "port", lambda P: P["shards"]["0"]["mirrors"][0].__setitem__(1, "b4")),
         ("MirrorServerConfig", "mirroring_target_index", lambda P: P["shards"]["0"]["mirrors"][0].__setitem__(2, 2)),
         ("Intercept", "enabled", pl("intercept", "enabled", True)),
         ("Intercept", "queries", lambda P: P["plugins"]["intercept"]["queries"].__setitem__("1", {"query": "select 3", "schema": [["b", "text"]], "result": [["3"]]})),
         ("Query", "query", qy("query", "select 2")), ("Query", "schema", qy("schema", [["a", "text"], ["b", "text"]])), ("Query", "result", qy("result", [["1", "2"]])),
         ("TableAccess", "enabled", pl("table_access", "enabled", True)), ("TableAccess", "tables", pl("table_access", "tables", ["secret", "other"])),
         ("QueryLogger", "enabled", pl("query_logger", "enabled", True)), ("Prewarmer", "enabled", pl("prewarmer", "enabled", True)),
         ("Prewarmer", "queries", pl("prewarmer", "queries", ["SELECT 1", "SELECT 2"])),
         ("Plugins", "intercept", lambda P: P["plugins"].__setitem__("intercept", None)), ("Plugins", "table_access", lambda P: P["plugins"].__setitem__("table_access", None)),
         ("Plugins", "query_logger", lambda P: P["plugins"].__setitem__("query_logger", None)), ("Plugins", "prewarmer", lambda P: P["plugins"].__setitem__("prewarmer", None)),
         ("Pool", "plugins", lambda P: P.__setitem__("plugins", None)),
         ("Pool", "query_parser_read_write_splitting", o("query_parser_read_write_splitting", False)), ("Pool", "query_parser_enabled", o("query_parser_enabled", False)),
         ("Pool", "shards", lambda P: P["shards"].__setitem__("2", {"database": "db2", "mirrors": None, "servers": [["127.0.0.1", "b2", "primary"]]})),
         ("Pool", "users", lambda P: P["users"].__setitem__("1", dict(P["users"]["0"], username="x"))),
         ("User", "min_pool_size", u("min_pool_size", 1))]
    return S


def field_family(run, wire):
    """one scenario: a chain of reloads, each file differing from the previous one in exactly one field of the pool definition.
    Each must answer Ok(true), give the section a new hash, replace the pool object(s), and (where the field lives in the settings or
    the addresses) show in the built pool.  Returns the evidence dict; violations are reported here."""
    steps_def = field_steps()
    src = source_fields()
    have = {(a, b) for a, b, _ in steps_def}
    if src is None:
        run.broken.append("C14 field family: the struct definitions of config.rs could not be read")
        return {}
    missing = [x for x in src if x not in have]
    if missing:
        run.violation("tie-broken", "pool-definition fields without a single-field reload pair in props/c14.py field_steps(): %s" % missing,
                      {"correspondence": "field family vs src/config.rs structs", "missing": missing}, found_input=False)
    P = rich_base()
    texts = [render_rich(P)]
    for _, _, f in steps_def:
        f(P)
        texts.append(render_rich(copy.deepcopy(P)))
    st = [{"op": "reload_state", "label": "f0", "full": True}]
    for i, t in enumerate(texts[1:], 1):
        st += [{"op": "write_config", "toml": t}, {"op": "reload_guarded", "label": "f%d" % i}, {"op": "sleep", "ms": 4}, {"op": "reload_state", "label": "f%d" % i, "full": True}]
    res = W.run_scenario(wire, {"backends": [{"name": b, **({"mode": "down_held"} if b == "bd" else {})} for b in BACKENDS], "toml": texts[0], "steps": st, "workers": 2}, timeout=120)
    if "events" not in res:
        run.broken.append("C14 field family: harness failed: %s" % (res.get("harness_error") or res.get("start_error")))
        return {}
    marks = {e["label"]: e["state"] for e in res["events"] if e.get("ev") == "reload_state"}
    rel = {e["label"]: e["result"] for e in res["events"] if e.get("ev") == "reload" and e.get("label")}
    bad, shown = [], 0
    for i, (stc, fld, _) in enumerate(steps_def, 1):
        a, b = marks.get("f%d" % (i - 1)), marks.get("f%d" % i)
        if a is None or b is None:
            bad.append((stc, fld, "no observation")); continue
        ha = {p["name"]: p["hash"] for p in a["config"]["pools"]}
        hb = {p["name"]: p["hash"] for p in b["config"]["pools"]}
        why = []
        if rel.get("f%d" % i) != "Ok(true)":
            why.append("reload_config returned %s" % rel.get("f%d" % i))
        if ha.get("pf") == hb.get("pf"):
            why.append("Pool::hash_value did not change")
        if any(p["hash"] != hb.get(p["db"]) for p in b["pools"]):
            why.append("POOLS config_hash differs from CONFIG's")
        if {p["obj"] for p in a["pools"]} & {p["obj"] for p in b["pools"]}:
            why.append("a pool object was reused")
        da = {(p["db"], p["user"]): p["settings_digest"] for p in a["pools"]}
        db_ = {(p["db"], p["user"]): p["settings_digest"] for p in b["pools"]}
        if (stc, fld) not in NOT_IN_SETTINGS:
            if da == db_:
                why.append("the built pool's settings/addresses do not show the new value")
            else:
                shown += 1
        if why:
            bad.append((stc, fld, "; ".join(why)))
    for stc, fld, why in bad[:3]:
        run.violation("counterexample", "a reload whose file differs from the loaded one ONLY in %s.%s: %s" % (stc, fld, why),
                      {"input": {"struct": stc, "field": fld, "old_text": texts[[x[:2] for x in steps_def].index((stc, fld))], "new_text": texts[[x[:2] for x in steps_def].index((stc, fld)) + 1]},
                       "class": "field-family", "what_failed": why})
    return {"fields": len(steps_def), "fields_in_source": len(src), "shown_in_built_pool": shown, "failed": [(a, b) for a, b, _ in bad]}


# ------------------------------------------------------------------------------------ the real binary: autoreload + SIGHUP

AUTORELOAD_MS = 200


def setup_extra():
    """setup.sh: pre-build the real pgcat binary (shared with C17)"""
    from props import c17
    return c17.setup_extra()


def binary_leg(run, mockd):
    """main.rs' autoreload task and SIGHUP arm in the REAL process: the file on disk goes first -> second -> garbage -> third ->
    third again (rewritten, unchanged) -> fourth -> garbage + SIGHUP -> fifth + SIGHUP; after each step a NEW client logs in and asks
    which server answers.  Sentence: an invalid file changes nothing AND does not stop later valid files from being loaded.
    Returns a dict for the evidence; violations are reported here."""
    import os, signal, subprocess, time
    from props import c17
    okb, out = c17.build_pgcat()
    if not okb:
        run.broken.append("pgcat binary does not build: " + out[-400:])
        return {"ran": False}
    d = os.path.join(vlib.TMP, "c14bin_%d" % os.getpid())
    os.makedirs(d, exist_ok=True)
    names = ["b0", "b1", "b2", "b3", "b4"]
    mock = subprocess.Popen([mockd], stdin=subprocess.PIPE, stdout=subprocess.PIPE, stderr=subprocess.DEVNULL)
    info = {"ran": True, "steps": []}
    proc = None
    try:
        mock.stdin.write((json.dumps({"backends": [{"name": n} for n in names]}) + "\n").encode()); mock.stdin.flush()
        ports = json.loads(mock.stdout.readline())["ports"]
        port = c17.free_port()
        path = os.path.join(d, "pgcat.toml")

        def text(k):
            sem = {"general": {"port": port, "autoreload": AUTORELOAD_MS}, "pools": {"pa": pool([[names[k], "primary"]])}}
            t = render(sem, 0)
            for n in names:
                t = t.replace("@PORT:%s@" % n, str(ports[n]))
            return t

        def put(t):
            tmp = path + ".tmp"
            open(tmp, "w").write(t)
            os.replace(tmp, path)          # a reload never sees a half-written file

        def who():
            """a NEW client: (backend that answers | error text)"""
            try:
                c = c17.PgClient(port)
                fr, o = c.login({"user": "u", "database": "pa"}, "pw")
                if not any(f["t"] == "Z" for f in fr):
                    c.close(); return "login:" + str([f.get("fields", {}).get("M") for f in fr if f["t"] == "E"])
                fr, o = c.query("SELECT 'bin'")
                c.close()
                rows = [f["cols"] for f in fr if f["t"] == "D"]
                return rows[0][0] if rows else "noreply:" + o
            except OSError as e:
                return "connect:" + str(e)

        put(text(0))
        logf = open(os.path.join(d, "pgcat.log"), "w")
        proc = subprocess.Popen([c17.PGCAT_BIN, path, "--no-color"], stdout=logf, stderr=subprocess.STDOUT, cwd=d)
        t0 = time.monotonic()
        while time.monotonic() - t0 < 15 and proc.poll() is None and "Waiting for clients" not in open(os.path.join(d, "pgcat.log")).read():
            time.sleep(0.02)
        wait = 3.5 * AUTORELOAD_MS / 1000.0
        garbage = "[general\nthis is = = not toml\n"
        plan = [("first", None, None, 0), ("second", text(1), None, 1), ("garbage", garbage, None, 1), ("third", text(2), None, 2),
                ("third-unchanged", text(2), None, 2), ("fourth", text(3), None, 3), ("garbage+SIGHUP", garbage, "hup", 3), ("fifth+SIGHUP", text(4), "hup", 4),
                ("first-again (autoreload after SIGHUP)", text(0), None, 0)]
        bad = []
        for label, t, sig, want in plan:
            if t is not None:
                put(t)
            if sig:
                os.kill(proc.pid, signal.SIGHUP)
                time.sleep(0.25)
            elif t is not None:
                time.sleep(wait)
            got = who()
            alive = proc.poll() is None
            info["steps"].append({"file": label, "answers": got, "expected": names[want], "alive": alive})
            if got != names[want] or not alive:
                bad.append((label, got, names[want], alive))
        if bad:
            label, got, want, alive = bad[0]
            run.violation("counterexample", "real pgcat binary, autoreload = %d ms: after the file became '%s' a new client is answered by %s, the last valid file says %s "
                          "(process alive: %s); sequence so far: %s" % (AUTORELOAD_MS, label, got, want, alive, [(x["file"], x["answers"]) for x in info["steps"]]),
                          {"correspondence": "binary leg", "binary_leg": info["steps"], "input": {"sequence": [p_[0] for p_ in plan], "autoreload_ms": AUTORELOAD_MS}})
    finally:
        if proc and proc.poll() is None:
            proc.kill()
            try:
                proc.wait(5)
            except Exception:
                pass
        try:
            mock.stdin.close(); mock.wait(3)
        except Exception:
            mock.kill()
        if not os.environ.get("C14_KEEP"):
            import shutil
            shutil.rmtree(d, ignore_errors=True)
    return info


# ------------------------------------------------------------------------------------ driver

def slim(case):
    return {"name": case["name"], "base": case["base"], "timing": case["timing"], "trigger": case["trigger"], "old_style": case.get("old_style", 0),
            "files": [{"kind": f["kind"], "text": file_text(f), "dead": f.get("dead"), "revive": f.get("revive")} for f in case["files"]],
            "old_text": render(BASES[case["base"]], case.get("old_style", 0))}


def is_warm(case):
    for sem in [BASES[case["base"]]] + [f["sem"] for f in case["files"] if f.get("sem")]:
        if any(len(backends_of(sem, n)) > 1 for n in sem["pools"]):
            return True      # the model has one server address per pool: no comparison of server connections
    for sem in [BASES[case["base"]]] + [f["sem"] for f in case["files"] if f.get("sem")]:
        g = dict(GEN_BASE); g.update(sem.get("general", {}))
        if g.get("validate_config"):
            return True      # pools built with validate_config open connections on their own (bb8 min_idle, background validate())
    return False


def run_cases(run, wire, cases, with_model=True):
    built = [scenario(c) for c in cases]
    scns = [b[0] for b in built]
    scripts = [b[1] for b in built]
    results = W.run_scenarios(wire, scns, timeout=120)
    models = model_traces(list(zip(cases, scripts))) if with_model else [None] * len(cases)
    return scripts, results, models


def evaluate(run, case, script, res, model, stats):
    """returns (violations, f12 hits, disagreement)"""
    if "harness_error" in res or "start_error" in res:
        run.broken.append("wire harness failed on %s: %s" % (case["name"], res.get("harness_error") or res.get("start_error")))
        return [], [], None
    impl, err = read_impl(case, script, res)
    if impl is None:
        run.broken.append("wire trace unreadable for %s: %s" % (case["name"], err))
        return [], [], None
    start = next(e for e in res["events"] if e.get("ev") == "reload_state" and e.get("label") == "start")
    impl[0]["start"] = start["state"]
    V, f12 = monitors(case, script, res, impl)
    if case["base"] in ("H", "HP", "HQ"):
        V2, info = option_monitors(case, script, res, impl)
        V += V2
        for k_, v_ in info.items():
            if k_ in ("d3", "d4"):
                stats.setdefault(k_, []).extend(v_)
            else:
                stats.setdefault("options", {})[k_] = stats.setdefault("options", {}).get(k_, 0) + v_
    dis = None
    if model is not None:
        dis = compare(case, script, model, impl, is_warm(case))
        stats["validated"] += 1
        stats["steps"] += len(impl)
    for o, i in zip(script.ops, impl):
        ok_ = o[0] + ":" + str(i["obs"][1] if len(i["obs"]) > 1 else "")
        stats["obs"][ok_] = stats["obs"].get(ok_, 0) + 1
    stats.setdefault("d2", []).extend(stale_mode_hits(case, script, res))
    return V, f12, dis


def check(run):
    quick = run.tier == "quick"
    run.assumptions += [
        "Coq 8.16.1 kernel + vm_compute; no axioms (Print Assumptions: closed under the global context for all theorems of Reload/Props.v)",
        "coq/Reload/Model.v is a hand transcription of config.rs parse/reload_config, pool.rs from_config/get_pool and the get_pool call sites of client.rs, at the granularity "
        "'one reload' / 'one transaction start or end'; validated per run against pgcat in-process",
        "Pool::hash_value is a parameter of the model (hashf); theorems that need distinct definitions to hash differently state hash_inj; the tie checks per case that "
        "definition <-> hash is a bijection on the files used",
        "a ConnectionPool lives as long as one clone (Arc) exists and closing the last clone closes its idle server connections; bb8 Fifo hand-out (server_round_robin defaults to true); one server address per pool; pool_size not modelled (C04)",
        "reloads and client steps are atomic in the model: ArcSwap store/load of CONFIG and POOLS are single atomic pointer swaps and a client reads POOLS once per transaction start; "
        "a reload racing with itself (RELOAD + SIGHUP at once) is not modelled",
        "PostgreSQL = harness/src/mockpg.rs; in the wire cases the SIGHUP arm is the harness' transcription of main.rs; the binary leg runs the real process (autoreload task, real SIGHUP)",
        "idle_client_in_transaction_timeout is the one [general] setting a client reads from CONFIG (modelled: snapshot per checkout); other general settings live in PoolSettings of the pool object",
        "PAUSE: one flag per (pool, user), shared with a rebuilt object, cleared when a reload removes the pool; blocking on a paused pool that is KEPT is C16's and not exercised here",
    ]
    run.cov["trusted_base"] = ["coqc 8.16.1 kernel", "vm_compute", "hand-written model coq/Reload/Model.v", "harness (wire.rs, reloadobs.rs, pooler.rs, mockpg.rs, client.rs, mockd.rs)", "props/c17.py build_pgcat/PgClient (binary leg)",
                               "props/c14.py (file grammar, abstraction file -> cfg, trace reader, monitors)", "Print Assumptions: Closed under the global context"]
    ok, log = vlib.prove(run, COQ_FILES, "Reload/Props.v")
    run.log("proof ok=%s" % ok)
    bok, blog, bins = vlib.cargo_build(["wire", "mockd"])
    if not bok:
        run.violation("tie-broken", "harness does not build against /repo", {"correspondence": "wire harness build", "log": blog[-3000:]}, found_input=False)
        return
    wire = bins["wire"]
    import threading
    leg = {}
    th = threading.Thread(target=lambda: leg.update(binary_leg(run, bins["mockd"])))   # ~8 s of waiting: runs beside the wire cases
    th.start()
    cases = make_cases(run.rng, quick)
    run.log("%d cases" % len(cases))
    scripts, results, models = run_cases(run, wire, cases, with_model=ok)
    stats = {"validated": 0, "steps": 0, "obs": {}}
    distinct, pairs = set(), set()
    first_dis, f12_seen, kinds = None, [], {}
    unreproduced = []
    known = {e.get("id"): e for e in vlib.known_findings(PROP)}
    for case, script, res, model in zip(cases, scripts, results, models):
        run.cov["evaluations"] += 1
        texts = tuple(file_text(f) for f in case["files"])
        distinct.add((render(BASES[case["base"]], case.get("old_style", 0)), texts, case["timing"], case["trigger"]))
        pairs.add((case["base"], case.get("old_style", 0), texts[0]))
        kinds[case["files"][0]["kind"] + ("/f12" if case["files"][0].get("dead") else "")] = kinds.get(case["files"][0]["kind"] + ("/f12" if case["files"][0].get("dead") else ""), 0) + 1
        V, f12, dis = evaluate(run, case, script, res, model, stats)
        for sent, v in V[:2]:
            run.violation("counterexample", "C14 monitor %s on the implementation: %s" % (sent, v), {"input": slim(case), "monitor": [sent, v], "case": case_key(case)})
        if f12:
            f12_seen.append((case, f12[0]))
        if dis:
            # a disagreement is reported only if it shows again on an immediate re-run of the same case (2 of 2)
            scn2, script2 = scenario(case)
            res2 = W.run_scenario(wire, scn2, timeout=120)
            st2 = {"validated": 0, "steps": 0, "obs": {}}
            _, _, dis2 = evaluate(run, case, script2, res2, model, st2)
            if not dis2:
                unreproduced.append({"case": case_key(case), "disagreement": dis[:300]})
                dis = None
            else:
                dis = "%s  [re-run: %s]" % (dis, dis2)
        if dis and first_dis is None:
            first_dis = (case, dis, model)
    # F12 and D2 are repaired in /repo: their scenarios are regression inputs now, any hit is a violation
    for case, msg in f12_seen[:1]:
        run.violation("counterexample", "regression of %s: %s" % (F12, msg), {"input": slim(case), "class": F12, "case": case_key(case)})
    for hit in stats.get("d2", [])[:1]:
        run.violation("counterexample", "regression of %s: %s" % (D2, hit), {"class": D2, "hit": hit})
    if first_dis and not run.violations:
        case, dis, model = first_dis
        run.cov["disagreements_checked"] += 1
        run.violation("tie-broken", "reload model and implementation disagree on %s [%s, %s]: %s" % (case["name"], case["timing"], case["trigger"], dis),
                      {"correspondence": "coq/Reload/Model.v trace2 vs wire trace", "input": slim(case), "case": case_key(case), "disagreement": dis,
                       "model_obs": [s["obs"] for s in model["steps"]]}, found_input=False)
    th.join()
    run.cov["binary_leg"] = leg
    run.cov["field_family"] = field_family(run, wire)
    for hit in stats.get("d3", [])[:1]:
        run.violation("counterexample", "regression of %s: %s" % (D3, hit), {"class": D3, "hit": hit})
    e = known.get(D4)
    if stats.get("d4"):
        if e is not None and e.get("status") == "fixed":
            run.violation("counterexample", "regression of %s: %s" % (D4, stats["d4"][0]), {"class": D4, "hit": stats["d4"][0]})
        else:
            line = (e.get("line") or e.get("what")) if e else None
            run.known_finding((line or D4_TEXT) + " [%d probes, e.g. %s]" % (len(stats["d4"]), stats["d4"][0][:220]), key=D4)
    elif e is not None and e.get("status") == "known":
        run.violation("tie-broken", "known finding %s is listed but the old session of ps-default_role-primary-to-replica follows the new default_role: update known_findings.jsonl" % D4,
                      {"correspondence": "D4 class vs wire run"}, found_input=False)
    run.cov["unreproduced_disagreements"] = len(unreproduced)
    run.cov["unreproduced_disagreements_list"] = unreproduced[:10]
    run.cov["traces_validated_against_impl"] = stats["validated"]
    run.cov["distinct_nontrivial"] = len(distinct)
    run.cov["rule"] = ("old file (2 bases x 4 renderings) x new file: %d valid kinds (identical, reformatted, defaults written out, general-only, server replaced/added/swapped, "
                       "password, pool_size, pool_mode, default_role, timeouts, user added/removed, pool added/removed, combinations), %d rejected files (10 TOML/serde errors, "
                       "33 validate() rules, file deleted), 2 valid files whose pools cannot be built (regression of F12: must be a no-op, the retry with the server back must rebuild) — each x 3 moments (before the first transaction / inside an open "
                       "transaction / between transactions), trigger rotating over reload_config / admin RELOAD / SIGHUP arm; every case has a second reload (same file, a valid "
                       "changed file after a rejected one, or the revived server) and transactions of 3-6 clients before/after; + seeded chains of two valid files. "
                       "general-section kinds (idle_client_in_transaction_timeout set/lowered/raised/removed, connect_timeout, healthcheck, ban_time, user statement_timeout) have the client "
                       "silent inside its open transaction across the reload and again in a new transaction; removal kinds also run with the pool PAUSEd before the reload, RESUME and a "
                       "new login of the removed user after it. Binary leg: the real pgcat process with autoreload = 200 ms, file first/second/garbage/third/unchanged/fourth/garbage+SIGHUP/"
                       "fifth+SIGHUP/first, a new client after each. Sharded pool ps (3 servers per shard): shards/servers added, removed, reordered with the replicas on 127.0.0.2 banned before "
                       "the reload and a statement on every shard afterwards from the old and a new session; pool options that live in the query router (table_access on/list/off, "
                       "default_role, read/write splitting, shard count, sharding function, default_shard) probed in the old session (first statement, and after one checkout) and in a "
                       "new one; refused reloads (build fails, validate, TOML, unreadable) whose file drops a PAUSEd pool. Field family: one chain of 65 reloads, each changing exactly one "
                       "field of Pool/User/Shard/ServerConfig/MirrorServerConfig/Plugins/Intercept/TableAccess/QueryLogger/Prewarmer/Query (the list is read from src/config.rs). distinct = distinct (old text, new texts, timing, trigger); all non-trivial (>= 2 reloads, >= 6 transactions)"
                       % (len(valid_kinds()), len(invalid_kinds())))
    run.cov["input_distribution"] = {"cases": len(cases), "first_file_kind": kinds, "distinct_old_new_pairs": len(pairs), "model_steps_compared": stats["steps"],
                                     "observations": stats["obs"], "f12_regression_cases": sum(1 for c in cases if c["files"][0].get("dead")), "f12_hits": len(f12_seen), "d2_stale_mode_hits": len(stats.get("d2", [])), "d3_stale_router_hits": len(stats.get("d3", [])), "d4_default_role_hits": len(stats.get("d4", [])),
                                     "shard_and_option_probes": stats.get("options")}
    if models and models[0]:
        run.cov["samples"] = [{"case": case_key(cases[0]), "model_obs": [s["obs"] for s in models[0]["steps"]][:12]},
                              {"case": case_key(cases[-1])}]
    if not ok and not run.violations and not run.broken:
        run.violation("proof-broken", "Reload/Props.v no longer checks", {"theorem": "coq/Reload/Props.v", "coq_log": log[-2500:]}, found_input=False)
    if not quick and ok:
        vlib.coqchk(run, ["PV.Reload.Props"])


def case_key(case):
    return {"name": case["name"], "timing": case["timing"], "trigger": case["trigger"], "base": case["base"]}


def replay(run, path):
    r = json.load(open(path))
    print(json.dumps({k: v for k, v in r.items() if k != "input"}, indent=1)[:3000])
    key = r.get("case")
    if not key:
        return 0
    bok, blog, bins = vlib.cargo_build(["wire"])
    import random
    cases = [c for c in make_cases(random.Random(r.get("seed", 1)), r.get("tier", "quick") == "quick") if case_key(c) == key]
    if not cases:
        print("case not found in the generator any more"); return 2
    scripts, results, models = run_cases(run, bins["wire"], cases[:1], with_model=True)
    stats = {"validated": 0, "steps": 0, "obs": {}}
    V, f12, dis = evaluate(run, cases[0], scripts[0], results[0], models[0], stats)
    print("replay: monitors", V, "\nF12 hits", f12, "\nmodel disagreement", dis)
    return 1 if (V or dis or (r.get("class") == F12 and f12)) else 0
