"""Helpers for C08: wire-message builders, SipHash-1-3 (std DefaultHasher) oracle, a parser for
Rust's derived Debug output, the `codec` harness runner, and Python reference splices."""
import json, os, re, shutil, struct, subprocess, time
from concurrent.futures import ThreadPoolExecutor
import vlib

M64 = (1 << 64) - 1


# ------------------------------------------------------------------ harness runner
def _run_chunk(binp, ops):
    inp = "\n".join(json.dumps(c) for c in ops).encode() + b"\n"
    p = subprocess.run([binp], input=inp, stdout=subprocess.PIPE, stderr=subprocess.PIPE, timeout=900)
    lines = p.stdout.decode("utf-8", "replace").splitlines()
    if p.returncode != 0 or len(lines) != len(ops):
        raise RuntimeError("codec harness failed rc=%s: got %d/%d lines; stderr: %s" % (p.returncode, len(lines), len(ops), p.stderr.decode()[-800:]))
    return [json.loads(l) for l in lines]


def run_codec(binp, ops, workers=16):
    if len(ops) <= 32:
        return _run_chunk(binp, ops)
    size = max(1, (len(ops) + workers - 1) // workers)
    chunks = [ops[i:i + size] for i in range(0, len(ops), size)]
    with ThreadPoolExecutor(max_workers=workers) as ex:
        outs = list(ex.map(lambda ch: _run_chunk(binp, ch), chunks))
    return [r for o in outs for r in o]


# ------------------------------------------------------------------ messages
def frame(code, body, length=None):
    return code + struct.pack(">i", len(body) + 4 if length is None else length) + body


def i16(v):
    return struct.pack(">h", v)


def i32(v):
    return struct.pack(">i", v)


def parse_msg(name, query, types, np=None):
    return frame(b"P", name + b"\0" + query + b"\0" + i16(len(types) if np is None else np) + b"".join(i32(t) for t in types))


def bind_msg(portal, stmt, fmts, params, rfmts):
    b = portal + b"\0" + stmt + b"\0" + i16(len(fmts)) + b"".join(i16(f) for f in fmts) + i16(len(params))
    for p in params:
        b += i32(-1) if p is None else i32(len(p)) + p
    b += i16(len(rfmts)) + b"".join(i16(f) for f in rfmts)
    return frame(b"B", b)


def describe_msg(target, name, code=b"D"):
    return frame(code, target + name + b"\0")


# ------------------------------------------------------------------ reference splice (the property's own predicate)
def splice(b, m, pre, skip):
    """b with the statement name replaced by m and the length field adjusted; None when b has
    no NUL-terminated name at the expected place."""
    if len(b) < 5 + pre:
        return None
    (ln,) = struct.unpack(">i", b[1:5])
    pos = 5 + pre
    for _ in range(skip):
        j = b.find(b"\0", pos)
        if j < 0:
            return None
        pos = j + 1
    j = b.find(b"\0", pos)
    if j < 0:
        return None
    new_len = ln + len(m) - (j - pos)
    if not -2**31 <= new_len < 2**31:
        return None
    return b[:1] + struct.pack(">i", new_len) + b[5:pos] + m + b[j:]


# ------------------------------------------------------------------ SipHash-1-3, keys (0, 0): std::collections::hash_map::DefaultHasher
def _rotl(x, b):
    return ((x << b) | (x >> (64 - b))) & M64


def sip13(data: bytes) -> int:
    k0 = k1 = 0
    v0 = k0 ^ 0x736f6d6570736575
    v1 = k1 ^ 0x646f72616e646f6d
    v2 = k0 ^ 0x6c7967656e657261
    v3 = k1 ^ 0x7465646279746573

    def rnd(v0, v1, v2, v3):
        v0 = (v0 + v1) & M64; v1 = _rotl(v1, 13); v1 ^= v0; v0 = _rotl(v0, 32)
        v2 = (v2 + v3) & M64; v3 = _rotl(v3, 16); v3 ^= v2
        v0 = (v0 + v3) & M64; v3 = _rotl(v3, 21); v3 ^= v0
        v2 = (v2 + v1) & M64; v1 = _rotl(v1, 17); v1 ^= v2; v2 = _rotl(v2, 32)
        return v0, v1, v2, v3
    n = len(data)
    for i in range(0, n - n % 8, 8):
        (m,) = struct.unpack("<Q", data[i:i + 8])
        v3 ^= m
        v0, v1, v2, v3 = rnd(v0, v1, v2, v3)
        v0 ^= m
    tail = data[n - n % 8:]
    b = ((n & 0xff) << 56) | int.from_bytes(tail, "little")
    v3 ^= b
    v0, v1, v2, v3 = rnd(v0, v1, v2, v3)
    v0 ^= b
    v2 ^= 0xff
    for _ in range(3):
        v0, v1, v2, v3 = rnd(v0, v1, v2, v3)
    return v0 ^ v1 ^ v2 ^ v3


def hstream(query: bytes, np: int, types):
    """what Parse::get_hash feeds the hasher (query.hash, num_params.hash, param_types.hash)"""
    return struct.pack("<Q", len(query)) + query + struct.pack("<h", np) + struct.pack("<Q", len(types)) + b"".join(struct.pack("<i", t) for t in types)


def old_key(query: bytes, np: int, types):
    """the string hashed before commit f0b6d0f: format!("{}{}{}", query, num_params, types.join(","))"""
    return query + str(np).encode() + ",".join(str(t) for t in types).encode()


# ------------------------------------------------------------------ Rust derived-Debug parser
class RustDebug:
    """Name { f: v, .. } -> dict (with "#": Name); [..] -> list; (..) -> tuple; ints; 'c' -> ("char", codepoint);
    "s" -> ("str", utf-8 bytes); b"s" -> bytes"""
    ESC = {"n": 10, "r": 13, "t": 9, "0": 0, "\\": 92, '"': 34, "'": 39}

    def __init__(self, s):
        self.s, self.i = s, 0

    def ws(self):
        while self.i < len(self.s) and self.s[self.i] in " \n":
            self.i += 1

    def quoted(self, q, as_bytes):
        s = self.s
        out = bytearray() if as_bytes else []
        self.i += 1
        while True:
            c = s[self.i]
            if c == q:
                self.i += 1
                break
            if c == "\\":
                e = s[self.i + 1]
                if e == "u":
                    j = s.index("}", self.i)
                    cp = int(s[self.i + 3:j], 16)
                    self.i = j + 1
                elif e == "x":
                    cp = int(s[self.i + 2:self.i + 4], 16)
                    self.i += 4
                else:
                    cp = self.ESC[e]
                    self.i += 2
            else:
                cp = ord(c)
                self.i += 1
            if as_bytes:
                out.append(cp)
            else:
                out.append(chr(cp))
        return bytes(out) if as_bytes else "".join(out)

    def value(self):
        self.ws()
        s = self.s
        c = s[self.i]
        if c == '"':
            return ("str", self.quoted('"', False).encode("utf-8", "surrogatepass"))
        if c == "'":
            return ("char", ord(self.quoted("'", False)))
        if c == "b" and s[self.i + 1] == '"':
            self.i += 1
            return self.quoted('"', True)
        if c == "[" or c == "(":
            close = "]" if c == "[" else ")"
            self.i += 1
            items = []
            while True:
                self.ws()
                if s[self.i] == close:
                    self.i += 1
                    break
                items.append(self.value())
                self.ws()
                if s[self.i] == ",":
                    self.i += 1
            return items if c == "[" else tuple(items)
        if c == "-" or c.isdigit():
            j = self.i + 1
            while j < len(s) and s[j].isdigit():
                j += 1
            v = int(s[self.i:j])
            self.i = j
            return v
        j = self.i
        while j < len(s) and (s[j].isalnum() or s[j] == "_"):
            j += 1
        name = s[self.i:j]
        self.i = j
        self.ws()
        if self.i < len(s) and s[self.i] == "{":
            self.i += 1
            d = {"#": name}
            while True:
                self.ws()
                if s[self.i] == "}":
                    self.i += 1
                    break
                j = s.index(":", self.i)
                key = s[self.i:j].strip()
                self.i = j + 1
                d[key] = self.value()
                self.ws()
                if s[self.i] == ",":
                    self.i += 1
            return d
        return name


def parse_debug(s):
    p = RustDebug(s)
    v = p.value()
    p.ws()
    if p.i != len(s):
        raise ValueError("trailing debug text: %r" % s[p.i:p.i + 40])
    return v


# ------------------------------------------------------------------ safety screen for the real Bind decoder
def bind_max_param_len(b: bytes):
    """Largest positive param_len Bind::try_from would allocate for on input b (the real decoder
    allocates and fills param_len bytes before it checks that they exist)."""
    try:
        pos = 5
        for _ in range(2):
            j = b.find(b"\0", pos)
            if j < 0:
                return 0
            pos = j + 1
        (n,) = struct.unpack(">h", b[pos:pos + 2]); pos += 2 + 2 * max(n, 0)
        (n,) = struct.unpack(">h", b[pos:pos + 2]); pos += 2
        worst = 0
        for _ in range(max(n, 0)):
            (pl,) = struct.unpack(">i", b[pos:pos + 4]); pos += 4
            if pl > 0:
                worst = max(worst, pl)
                if pos + pl > len(b):
                    return worst
                pos += pl
        return worst
    except struct.error:
        return 0


# ------------------------------------------------------------------ coqc evaluation with large outputs
def coq_eval(name, preamble, exprs, shard=200, timeout=900, procs=16):
    """Like vlib.coq_eval, but coqc writes to a file: vlib's version keeps stdout in a pipe that it only
    reads after exit, which blocks forever once a shard prints more than the pipe buffer (byte lists do)."""
    d = os.path.join(vlib.TMP, "%s.%d.%d" % (name, os.getpid(), next(vlib._COQ_EVAL_N)))
    shutil.rmtree(d, ignore_errors=True)
    os.makedirs(d)
    shards = [exprs[i:i + shard] for i in range(0, len(exprs), shard)] or [[]]

    def launch(i):
        fn = os.path.join(d, "cases_%d.v" % i)
        with open(fn, "w") as f:
            f.write("Set Printing Width 100000000. Set Printing Depth 100000000.\n")
            f.write(preamble + "\n")
            for e in shards[i]:
                f.write("Eval vm_compute in (%s).\n" % e)
        out = open(os.path.join(d, "out_%d.txt" % i), "wb")
        return subprocess.Popen(["timeout", str(timeout), "coqc", "-noglob", "-Q", vlib.COQ, "PV", "-w", "none", fn],
                                stdout=out, stderr=subprocess.STDOUT, cwd=d), out

    pending, running, results = list(range(len(shards))), {}, [None] * len(shards)
    while pending or running:
        while pending and len(running) < procs:
            i = pending.pop(0)
            running[i] = launch(i)
        for i, (p, out) in list(running.items()):
            if p.poll() is not None:
                out.close()
                txt = open(os.path.join(d, "out_%d.txt" % i), "rb").read().decode("utf-8", "replace")
                if p.returncode != 0:
                    raise RuntimeError("coqc failed (rc %s) on %s/cases_%d.v:\n%s" % (p.returncode, d, i, txt[-3000:]))
                results[i] = txt
                del running[i]
        time.sleep(0.02)
    vals = []
    for i, out in enumerate(results):
        got = [x.rsplit("\n     : ", 1)[0].strip() for x in re.split(r"(?m)^     = ", out)[1:]]
        if len(got) != len(shards[i]):
            raise RuntimeError("could not parse coqc output of shard %d (%d vs %d)" % (i, len(got), len(shards[i])))
        vals.extend(got)
    shutil.rmtree(d, ignore_errors=True)
    return vals
