"""C01 — a server connection serves one client at a time, for a whole transaction.
P: coq/Session/Props.v (c01_exec_by_holder, c01_one_holder, c01_c02_log_monitor + c02_returned_only_clean).
T: props/session_common.py; the C01 monitors: no foreign statement inside a client's transaction,
   a transaction stays on one server connection, every result row names the receiver's own statement."""
from props import c02 as base

PROP = "C01"


def check(run):
    base.run_check(run, PROP)


def replay(run, path):
    base.PROP = PROP
    return base.replay(run, path)
